/* Link-time interposition on the library's synchronisation wrappers (EbThreads.c):
 * -Wl,--wrap=svt_block_on_mutex,--wrap=svt_release_mutex,--wrap=svt_block_on_semaphore,--wrap=svt_post_semaphore */
#define _GNU_SOURCE
#include "verif_rt.h"
#include <errno.h>
#include <pthread.h>
#include <sched.h>
#include <stdlib.h>
#include <string.h>
#include <unistd.h>
extern __thread int vrt_internal;
#define t_internal vrt_internal
/* ------------------------------------------------------------------------------------------ */
/* schedule perturbation: every lock / semaphore operation of the library is a scheduling point */
static volatile uint32_t g_pt_seed;
static volatile int      g_pt_permille, g_pt_maxus, g_pt_target; /* target: 0 all threads, 1 only the first (application) thread, 2 all but it */
static __thread uint32_t t_rng;

void vrt_perturb_target(int target) { g_pt_target = target; }

/* role-targeted slowdown: only the threads that run ONE pipeline kernel (identified by the code range of its thread
 * function, which is on the stack of every one of its threads) are delayed, after each semaphore wait returns, i.e. every
 * time they receive a task: "this stage is slow relative to all others" */
#include <execinfo.h>
static volatile uintptr_t g_role_lo, g_role_hi;
static volatile int       g_role_us, g_role_permille;
static __thread int       t_role_known, t_role_match;
static volatile int g_role_where; /* 0: after each semaphore wait (task receipt); 1: after each semaphore post (right after a hand-over became visible) */
void vrt_perturb_role_where(int where) { g_role_where = where; }
void vrt_perturb_role(uintptr_t lo, uintptr_t hi, int permille, int usleep_us) {
    g_role_lo = lo, g_role_hi = hi, g_role_permille = permille, g_role_us = usleep_us;
}
static int role_match(void) {
    if (!t_role_known) {
        void *bt[96];
        t_internal++;
        int n = backtrace(bt, 96);
        t_internal--;
        t_role_match = 0;
        for (int i = 0; i < n; i++)
            if ((uintptr_t)bt[i] >= g_role_lo && (uintptr_t)bt[i] < g_role_hi)
                t_role_match = 1;
        t_role_known = 1;
    }
    return t_role_match;
}
static inline void role_point(void) {
    if (!g_role_hi || !role_match())
        return;
    if (!t_rng)
        t_rng = ((g_pt_seed * 2654435761u) ^ ((uint32_t)(vrt_tid() + 1) * 40503u)) | 1u;
    t_rng ^= t_rng << 13;
    t_rng ^= t_rng >> 17;
    t_rng ^= t_rng << 5;
    if ((int)(t_rng % 1000u) < g_role_permille)
        usleep((useconds_t)g_role_us);
}
void vrt_perturb(uint32_t seed, int permille, int max_usleep) {
    g_pt_seed     = seed;
    g_pt_maxus    = max_usleep;
    g_pt_permille = permille;
}

static inline void sched_point(void) {
    int pm = g_pt_permille;
    if (!pm)
        return;
    if (g_pt_target == 1 && vrt_tid() != 0)
        return;
    if (g_pt_target == 2 && vrt_tid() == 0)
        return;
    if (!t_rng)
        t_rng = ((g_pt_seed * 2654435761u) ^ ((uint32_t)(vrt_tid() + 1) * 40503u)) | 1u;
    t_rng ^= t_rng << 13;
    t_rng ^= t_rng >> 17;
    t_rng ^= t_rng << 5;
    if ((int)(t_rng % 1000u) < pm) {
        uint32_t r = (t_rng >> 10);
        if ((r & 3) == 0 && g_pt_maxus > 0)
            usleep(1 + (r >> 2) % (uint32_t)g_pt_maxus);
        else
            sched_yield();
    }
}

typedef void *EbHandle;
typedef int   EbErr;
EbErr    __real_svt_block_on_mutex(EbHandle h);
EbErr    __real_svt_release_mutex(EbHandle h);
EbErr    __real_svt_block_on_semaphore(EbHandle h);
EbErr    __real_svt_post_semaphore(EbHandle h);
EbErr __wrap_svt_block_on_mutex(EbHandle h) {
    sched_point();
    return __real_svt_block_on_mutex(h);
}
EbErr __wrap_svt_release_mutex(EbHandle h) {
    EbErr r = __real_svt_release_mutex(h);
    sched_point();
    return r;
}
EbErr __wrap_svt_block_on_semaphore(EbHandle h) {
    sched_point();
    EbErr r = __real_svt_block_on_semaphore(h);
    if (g_role_where == 0)
        role_point();
    return r;
}
EbErr __wrap_svt_post_semaphore(EbHandle h) {
    sched_point();
    EbErr r = __real_svt_post_semaphore(h);
    sched_point();
    if (g_role_where == 1)
        role_point();
    return r;
}

