/* Link-time interposition on the library's synchronisation wrappers (EbThreads.c):
 * -Wl,--wrap=svt_block_on_mutex,--wrap=svt_release_mutex,--wrap=svt_block_on_semaphore,--wrap=svt_post_semaphore */
#define _GNU_SOURCE
#include "verif_rt.h"
#include <errno.h>
#include <pthread.h>
#include <sched.h>
#include <stdlib.h>
#include <string.h>
#include <unistd.h>
extern __thread int vrt_internal;
#define t_internal vrt_internal
/* ------------------------------------------------------------------------------------------ */
/* schedule perturbation: every lock / semaphore operation of the library is a scheduling point */
static volatile uint32_t g_pt_seed;
static volatile int      g_pt_permille, g_pt_maxus, g_pt_target; /* target: 0 all threads, 1 only the first (application) thread, 2 all but it */
static __thread uint32_t t_rng;

void vrt_perturb_target(int target) { g_pt_target = target; }
void vrt_perturb(uint32_t seed, int permille, int max_usleep) {
    g_pt_seed     = seed;
    g_pt_maxus    = max_usleep;
    g_pt_permille = permille;
}

static inline void sched_point(void) {
    int pm = g_pt_permille;
    if (!pm)
        return;
    if (g_pt_target == 1 && vrt_tid() != 0)
        return;
    if (g_pt_target == 2 && vrt_tid() == 0)
        return;
    if (!t_rng)
        t_rng = ((g_pt_seed * 2654435761u) ^ ((uint32_t)(vrt_tid() + 1) * 40503u)) | 1u;
    t_rng ^= t_rng << 13;
    t_rng ^= t_rng >> 17;
    t_rng ^= t_rng << 5;
    if ((int)(t_rng % 1000u) < pm) {
        uint32_t r = (t_rng >> 10);
        if ((r & 3) == 0 && g_pt_maxus > 0)
            usleep(1 + (r >> 2) % (uint32_t)g_pt_maxus);
        else
            sched_yield();
    }
}

typedef void *EbHandle;
typedef int   EbErr;
EbErr    __real_svt_block_on_mutex(EbHandle h);
EbErr    __real_svt_release_mutex(EbHandle h);
EbErr    __real_svt_block_on_semaphore(EbHandle h);
EbErr    __real_svt_post_semaphore(EbHandle h);
EbErr __wrap_svt_block_on_mutex(EbHandle h) {
    sched_point();
    return __real_svt_block_on_mutex(h);
}
EbErr __wrap_svt_release_mutex(EbHandle h) {
    EbErr r = __real_svt_release_mutex(h);
    sched_point();
    return r;
}
EbErr __wrap_svt_block_on_semaphore(EbHandle h) {
    sched_point();
    return __real_svt_block_on_semaphore(h);
}
EbErr __wrap_svt_post_semaphore(EbHandle h) {
    sched_point();
    EbErr r = __real_svt_post_semaphore(h);
    sched_point();
    return r;
}

