/* C17: several encoder and decoder instances in ONE process, each in its own application thread, started at
 * configurable offsets.  Per instance one line of observations per output item (packet digest / decoded picture
 * digest), tagged with the instance index; the same program with a single instance produces the "solo" reference.
 *
 *   multi_record --out FILE [--timeout S] --inst SPEC [--inst SPEC ...]
 *   SPEC = enc:w=64,h=64,n=8,bits=8,content=motion,cseed=1,delay=0,set=enc_mode=8,set=logical_processors=2,...
 *        | dec:file=PATH.pkts,w=64,h=64,bits=8,threads=1,delay=0
 *   delay = milliseconds before the instance starts (relative start/stop times).
 */
#include <errno.h>
#include <pthread.h>
#include <signal.h>
#include <stdio.h>
#include <stdlib.h>
#include <string.h>
#include <unistd.h>
#include "EbSvtAv1Enc.h"
#include "EbSvtAv1Dec.h"
#include "EbSvtAv1ErrorCodes.h"
#include "gen/cfg_fields.h"
#include "gen_video.h"
#include "verif_rt.h"

static volatile long   g_progress; /* output items of all instances so far */
static FILE *          g_out;
static int               g_use_barrier; /* --barrier: every encoder instance is initialised before any of them encodes */
static pthread_barrier_t g_barrier;
static int               g_concurrent_init; /* --concurrent-init: with --barrier, still let the instances run svt_av1_enc_init concurrently */
static int               g_use_end_barrier; /* --barrier-end: no encoder instance is torn down before every one has drained */
static pthread_barrier_t g_end_barrier;
static pthread_mutex_t g_mu = PTHREAD_MUTEX_INITIALIZER;
#define EMIT(...)                      \
    do {                               \
        pthread_mutex_lock(&g_mu);     \
        fprintf(g_out, __VA_ARGS__);   \
        fflush(g_out);                 \
        pthread_mutex_unlock(&g_mu);   \
    } while (0)

typedef struct Inst {
    int         idx, is_dec;
    int         w, h, n, bits, kind, delay_ms, threads, hold_ms; /* hold: pause between init_handle and set_parameter */
    uint32_t    cseed;
    const char *file;
    const char *sets[64];
    int         nsets;
    int         rc;
} Inst;

static const CfgField *find_field(const char *name) {
    for (size_t i = 0; i < CFG_NFIELDS; i++)
        if (!strcmp(cfg_fields[i].name, name))
            return &cfg_fields[i];
    return NULL;
}
static int apply_set(EbSvtAv1EncConfiguration *c, const char *kv) {
    char        name[128];
    const char *eq = strchr(kv, '=');
    if (!eq || (size_t)(eq - kv) >= sizeof name)
        return -1;
    memcpy(name, kv, (size_t)(eq - kv));
    name[eq - kv]     = 0;
    const CfgField *f = find_field(name);
    if (!f || f->kind != 0)
        return -1;
    long long v = strtoll(eq + 1, NULL, 0);
    uint8_t * p = (uint8_t *)c + f->off;
    switch (f->elem) {
    case 1: *(uint8_t *)p = (uint8_t)v; break;
    case 2: *(uint16_t *)p = (uint16_t)v; break;
    case 4: *(uint32_t *)p = (uint32_t)v; break;
    default: *(uint64_t *)p = (uint64_t)v; break;
    }
    return 0;
}

static void fill_plane(uint8_t *mem, const Inst *in, int k, int pl, int pw, int ph) {
    int bps = in->bits > 8 ? 2 : 1;
    for (int y = 0; y < ph; y++)
        for (int x = 0; x < pw; x++) {
            uint16_t v = gv_sample(in->kind, in->cseed, in->bits, k, pl, x, y, pw, ph);
            size_t   o = ((size_t)y * (size_t)pw + (size_t)x) * (size_t)bps;
            mem[o]     = (uint8_t)(v & 0xFF);
            if (bps == 2)
                mem[o + 1] = (uint8_t)(v >> 8);
        }
}

static int drain(Inst *in, EbComponentType *h, int blocking, int *npk, int *eos) {
    int got = 0;
    for (;;) {
        EbBufferHeaderType *pkt = NULL;
        EbErrorType         rc  = svt_av1_enc_get_packet(h, &pkt, (unsigned char)blocking);
        if (rc == EB_NoErrorEmptyQueue || !pkt)
            return got;
        Dig d;
        dig_init(&d);
        if (pkt->p_buffer)
            dig_bytes(&d, pkt->p_buffer, pkt->n_filled_len);
        char hx[33];
        dig_hex(&d, hx);
        __sync_fetch_and_add(&g_progress, 1);
        EMIT("{\"inst\":%d,\"ev\":\"Packet\",\"k\":%d,\"rc\":%d,\"len\":%u,\"flags\":%u,\"dig\":\"%s\"}\n", in->idx, *npk, (int)rc,
             pkt->n_filled_len, pkt->flags, hx);
        (*npk)++;
        got++;
        if (rc == EB_ErrorMax)
            in->rc = 3;
        if (pkt->flags & EB_BUFFERFLAG_EOS)
            *eos = 1;
        svt_av1_enc_release_out_buffer(&pkt);
        if (*eos)
            return got;
    }
}

static void *enc_main(void *arg) {
    Inst *in = (Inst *)arg;
    usleep((useconds_t)in->delay_ms * 1000u);
    EbComponentType *        h = NULL;
    EbSvtAv1EncConfiguration cfg;
    memset(&cfg, 0, sizeof cfg);
    EMIT("{\"inst\":%d,\"ev\":\"Begin\"}\n", in->idx);
    if (svt_av1_enc_init_handle(&h, NULL, &cfg) != EB_ErrorNone) {
        in->rc = 2;
        EMIT("{\"inst\":%d,\"ev\":\"Fail\",\"where\":\"init_handle\"}\n", in->idx);
        if (g_use_barrier)
            pthread_barrier_wait(&g_barrier);
        return NULL;
    }
    if (in->hold_ms)
        usleep((useconds_t)in->hold_ms * 1000u);
    cfg.source_width      = (uint32_t)in->w;
    cfg.source_height     = (uint32_t)in->h;
    cfg.encoder_bit_depth = (uint32_t)in->bits;
    for (int i = 0; i < in->nsets; i++)
        if (apply_set(&cfg, in->sets[i])) {
            in->rc = 2;
            EMIT("{\"inst\":%d,\"ev\":\"Fail\",\"where\":\"set %s\"}\n", in->idx, in->sets[i]);
            if (g_use_barrier)
                pthread_barrier_wait(&g_barrier);
            return NULL;
        }
    /* discipline mode (--barrier): instances are configured and initialised ONE AT A TIME (svt_av1_enc_init computes its
     * fifo port indices in process-global tables) and all of them before any instance encodes */
    static pthread_mutex_t init_mu = PTHREAD_MUTEX_INITIALIZER;
    if (g_use_barrier && !g_concurrent_init)
        pthread_mutex_lock(&init_mu);
    EbErrorType e = svt_av1_enc_set_parameter(h, &cfg);
    if (e == EB_ErrorNone)
        e = svt_av1_enc_init(h);
    if (g_use_barrier && !g_concurrent_init)
        pthread_mutex_unlock(&init_mu);
    if (g_use_barrier)
        pthread_barrier_wait(&g_barrier);
    if (e != EB_ErrorNone) {
        in->rc = 2;
        EMIT("{\"inst\":%d,\"ev\":\"Fail\",\"where\":\"init\",\"rc\":%d}\n", in->idx, (int)e);
        svt_av1_enc_deinit_handle(h);
        return NULL;
    }
    int    bps = in->bits > 8 ? 2 : 1;
    int    cw = (in->w + 1) / 2, ch = (in->h + 1) / 2;
    size_t ysz = (size_t)in->w * (size_t)in->h * (size_t)bps, csz = (size_t)cw * (size_t)ch * (size_t)bps;
    uint8_t *mem[3] = {malloc(ysz), malloc(csz), malloc(csz)};
    int      npk = 0, eos = 0;
    for (int k = 0; k < in->n; k++) {
        fill_plane(mem[0], in, k, 0, in->w, in->h);
        fill_plane(mem[1], in, k, 1, cw, ch);
        fill_plane(mem[2], in, k, 2, cw, ch);
        EbSvtIOFormat io;
        memset(&io, 0, sizeof io);
        io.luma = mem[0], io.cb = mem[1], io.cr = mem[2];
        io.y_stride  = (uint32_t)in->w;
        io.cb_stride = io.cr_stride = (uint32_t)cw;
        io.width = (uint32_t)in->w, io.height = (uint32_t)in->h;
        io.color_fmt = EB_YUV420;
        io.bit_depth = in->bits > 8 ? EB_TEN_BIT : EB_EIGHT_BIT;
        EbBufferHeaderType hdr;
        memset(&hdr, 0, sizeof hdr);
        hdr.size         = sizeof hdr;
        hdr.p_buffer     = (uint8_t *)&io;
        hdr.n_filled_len = (uint32_t)(ysz + 2 * csz);
        hdr.pts          = k;
        hdr.pic_type     = EB_AV1_INVALID_PICTURE;
        e                = svt_av1_enc_send_picture(h, &hdr);
        if (e != EB_ErrorNone) {
            in->rc = 2;
            EMIT("{\"inst\":%d,\"ev\":\"Fail\",\"where\":\"send\",\"rc\":%d}\n", in->idx, (int)e);
            break;
        }
        drain(in, h, 0, &npk, &eos);
    }
    EbBufferHeaderType eosb;
    memset(&eosb, 0, sizeof eosb);
    eosb.size     = sizeof eosb;
    eosb.flags    = EB_BUFFERFLAG_EOS;
    eosb.pic_type = EB_AV1_INVALID_PICTURE;
    svt_av1_enc_send_picture(h, &eosb);
    while (!eos && in->rc == 0)
        if (!drain(in, h, 1, &npk, &eos) && !eos)
            break;
    if (g_use_end_barrier)
        pthread_barrier_wait(&g_end_barrier);
    e = svt_av1_enc_deinit(h);
    e |= svt_av1_enc_deinit_handle(h);
    for (int i = 0; i < 3; i++) free(mem[i]);
    EMIT("{\"inst\":%d,\"ev\":\"End\",\"rc\":%d,\"teardown\":%d,\"packets\":%d,\"eos\":%d}\n", in->idx, in->rc, (int)e, npk, eos);
    return NULL;
}

typedef struct Pk {
    uint32_t len;
    uint8_t *data;
} Pk;

static void *dec_main(void *arg) {
    Inst *in = (Inst *)arg;
    usleep((useconds_t)in->delay_ms * 1000u);
    EMIT("{\"inst\":%d,\"ev\":\"Begin\"}\n", in->idx);
    FILE *f = fopen(in->file, "rb");
    if (!f) {
        in->rc = 2;
        EMIT("{\"inst\":%d,\"ev\":\"Fail\",\"where\":\"open\"}\n", in->idx);
        return NULL;
    }
    Pk *pk  = NULL;
    int npk = 0;
    for (;;) {
        uint32_t n, w32[5];
        uint64_t pts;
        if (fread(&n, 4, 1, f) != 1 || fread(&pts, 8, 1, f) != 1 || fread(w32, 4, 5, f) != 5)
            break;
        pk            = realloc(pk, sizeof(Pk) * (size_t)(npk + 1));
        pk[npk].len   = n;
        pk[npk].data  = malloc(n ? n : 1);
        if (fread(pk[npk].data, 1, n, f) != n)
            break;
        npk++;
    }
    fclose(f);
    EbSvtAv1DecConfiguration cfg;
    memset(&cfg, 0, sizeof cfg);
    EbComponentType *h = NULL;
    if (svt_av1_dec_init_handle(&h, NULL, &cfg) != EB_ErrorNone) {
        in->rc = 2;
        EMIT("{\"inst\":%d,\"ev\":\"Fail\",\"where\":\"dec_init_handle\"}\n", in->idx);
        return NULL;
    }
    cfg.threads           = (uint32_t)in->threads;
    cfg.max_picture_width = (uint32_t)in->w, cfg.max_picture_height = (uint32_t)in->h;
    cfg.max_bit_depth    = in->bits > 8 ? EB_TEN_BIT : EB_EIGHT_BIT;
    cfg.max_color_format = EB_YUV420;
    EbErrorType e        = svt_av1_dec_set_parameter(h, &cfg);
    if (e == EB_ErrorNone)
        e = svt_av1_dec_init(h);
    if (e != EB_ErrorNone) {
        in->rc = 2;
        EMIT("{\"inst\":%d,\"ev\":\"Fail\",\"where\":\"dec_init\",\"rc\":%d}\n", in->idx, (int)e);
        svt_av1_dec_deinit_handle(h);
        return NULL;
    }
    int                bps = in->bits > 8 ? 2 : 1;
    EbBufferHeaderType buf;
    EbSvtIOFormat      io;
    memset(&buf, 0, sizeof buf);
    memset(&io, 0, sizeof io);
    buf.p_buffer = (uint8_t *)&io;
    size_t ysz   = (size_t)(in->w + 16) * (size_t)(in->h + 16) * (size_t)bps;
    io.luma = malloc(ysz), io.cb = malloc(ysz / 4 + 64), io.cr = malloc(ysz / 4 + 64);
    io.y_stride  = (uint32_t)in->w;
    io.cb_stride = io.cr_stride = (uint32_t)(in->w / 2);
    io.width = (uint32_t)in->w, io.height = (uint32_t)in->h;
    io.bit_depth = in->bits > 8 ? EB_TEN_BIT : EB_EIGHT_BIT;
    io.color_fmt = EB_YUV420;
    EbAV1StreamInfo si;
    EbAV1FrameInfo  fi;
    int             n = 0;
    for (int k = 0; k < npk; k++) {
        e = svt_av1_dec_frame(h, pk[k].data, pk[k].len, 0);
        if (e != EB_ErrorNone) {
            in->rc = 3;
            EMIT("{\"inst\":%d,\"ev\":\"Fail\",\"where\":\"dec_frame\",\"k\":%d,\"rc\":%d}\n", in->idx, k, (int)e);
            break;
        }
        if (svt_av1_dec_get_picture(h, &buf, &si, &fi) != EB_DecNoOutputPicture) {
            Dig d;
            dig_init(&d);
            dig_u16(&d, (uint16_t)io.width);
            dig_u16(&d, (uint16_t)io.height);
            const uint8_t *pl[3] = {io.luma, io.cb, io.cr};
            int            st[3] = {(int)io.y_stride * bps, (int)io.cb_stride * bps, (int)io.cr_stride * bps};
            for (int p = 0; p < 3; p++) {
                int pw = p ? (int)io.width / 2 : (int)io.width, ph = p ? (int)io.height / 2 : (int)io.height;
                for (int y = 0; y < ph; y++) {
                    const uint8_t *row = pl[p] + (size_t)y * (size_t)st[p];
                    for (int x = 0; x < pw; x++) dig_u16(&d, bps == 1 ? row[x] : (uint16_t)(row[2 * x] | (row[2 * x + 1] << 8)));
                }
            }
            char hx[33];
            dig_hex(&d, hx);
            __sync_fetch_and_add(&g_progress, 1);
            EMIT("{\"inst\":%d,\"ev\":\"Dec\",\"k\":%d,\"dig\":\"%s\"}\n", in->idx, n, hx);
            n++;
        }
    }
    e = svt_av1_dec_deinit(h);
    e |= svt_av1_dec_deinit_handle(h);
    free(io.luma), free(io.cb), free(io.cr);
    for (int k = 0; k < npk; k++) free(pk[k].data);
    free(pk);
    EMIT("{\"inst\":%d,\"ev\":\"End\",\"rc\":%d,\"teardown\":%d,\"pictures\":%d}\n", in->idx, in->rc, (int)e, n);
    return NULL;
}

static unsigned      g_alarm_period = 300;
static void on_alarm(int s) {
    (void)s;
    static long last_progress = -1;
    if (g_progress != last_progress && vrt_alarm_should_wait(g_alarm_period, 6)) {
        last_progress = g_progress;
        return; /* slow or starved but still producing output: keep waiting (bounded) */
    }
    if (g_out) {
        fprintf(g_out, "{\"ev\":\"Timeout\"}\n");
        fflush(g_out);
    }
    _exit(124);
}
static void on_crash(int s) {
    if (g_out) {
        fprintf(g_out, "{\"ev\":\"Crash\",\"signal\":%d}\n", s);
        fflush(g_out);
    }
    _exit(125);
}

static void parse_inst(Inst *in, char *spec) {
    memset(in, 0, sizeof *in);
    in->w = in->h = 64, in->n = 8, in->bits = 8, in->kind = gv_kind("motion"), in->cseed = 1, in->threads = 1;
    in->is_dec = !strncmp(spec, "dec:", 4);
    for (char *t = strtok(spec + 4, ","); t; t = strtok(NULL, ",")) {
        if (!strncmp(t, "w=", 2)) in->w = atoi(t + 2);
        else if (!strncmp(t, "h=", 2)) in->h = atoi(t + 2);
        else if (!strncmp(t, "n=", 2)) in->n = atoi(t + 2);
        else if (!strncmp(t, "bits=", 5)) in->bits = atoi(t + 5);
        else if (!strncmp(t, "content=", 8)) in->kind = gv_kind(t + 8);
        else if (!strncmp(t, "cseed=", 6)) in->cseed = (uint32_t)atoi(t + 6);
        else if (!strncmp(t, "delay=", 6)) in->delay_ms = atoi(t + 6);
        else if (!strncmp(t, "threads=", 8)) in->threads = atoi(t + 8);
        else if (!strncmp(t, "hold=", 5)) in->hold_ms = atoi(t + 5);
        else if (!strncmp(t, "file=", 5)) in->file = t + 5;
        else if (!strncmp(t, "set=", 4) && in->nsets < 64) in->sets[in->nsets++] = t + 4;
    }
}

int main(int argc, char **argv) {
    static Inst inst[16];
    int         ninst = 0, timeout_s = 300;
    const char *out   = NULL;
    for (int i = 1; i < argc; i++) {
        if (!strcmp(argv[i], "--out") && i + 1 < argc) out = argv[++i];
        else if (!strcmp(argv[i], "--timeout") && i + 1 < argc) timeout_s = atoi(argv[++i]);
        else if (!strcmp(argv[i], "--barrier")) g_use_barrier = 1;
        else if (!strcmp(argv[i], "--barrier-end")) g_use_end_barrier = 1;
        else if (!strcmp(argv[i], "--concurrent-init")) g_concurrent_init = 1;
        else if (!strcmp(argv[i], "--inst") && i + 1 < argc && ninst < 16) {
            parse_inst(&inst[ninst], argv[++i]);
            inst[ninst].idx = ninst;
            ninst++;
        }
    }
    g_out = out ? fopen(out, "w") : stdout;
    if (!g_out)
        return 2;
    signal(SIGALRM, on_alarm);
    signal(SIGSEGV, on_crash);
    signal(SIGABRT, on_crash);
    signal(SIGBUS, on_crash);
    signal(SIGFPE, on_crash);
    g_alarm_period = (unsigned)timeout_s;
    alarm((unsigned)timeout_s);
    if (g_use_barrier) {
        int nenc = 0;
        for (int i = 0; i < ninst; i++) nenc += !inst[i].is_dec;
        if (nenc > 0)
            pthread_barrier_init(&g_barrier, NULL, (unsigned)nenc);
        else
            g_use_barrier = 0;
    }
    if (g_use_end_barrier) {
        int nenc = 0;
        for (int i = 0; i < ninst; i++) nenc += !inst[i].is_dec;
        if (nenc > 0)
            pthread_barrier_init(&g_end_barrier, NULL, (unsigned)nenc);
        else
            g_use_end_barrier = 0;
    }
    pthread_t th[16];
    for (int i = 0; i < ninst; i++) pthread_create(&th[i], NULL, inst[i].is_dec ? dec_main : enc_main, &inst[i]);
    int rc = 0;
    for (int i = 0; i < ninst; i++) {
        pthread_join(th[i], NULL);
        if (inst[i].rc)
            rc = 1;
    }
    EMIT("{\"ev\":\"AllDone\",\"rc\":%d}\n", rc);
    return rc;
}
