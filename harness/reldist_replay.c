/* Direction A for C22(i): evaluates the real order-hint distance helpers on every (bits, a, b) and prints
 * one NDJSON row per triple; specs/RelDist.tla judges the rows.  usage: reldist_replay <minBits> <maxBits> */
#include <stdio.h>
#include <stdlib.h>
#include <string.h>
#include "EbDefinitions.h"
#include "EbAv1Structs.h"

int get_relative_dist_enc(SeqHeader *seq_header, int ref_hint, int order_hint);
int svt_verif_reldist_amvp(int bits, int a, int b);
int svt_verif_reldist_pd(int bits, int a, int b);
int svt_verif_reldist_mdc(int bits, int a, int b);
/* the decoder's copy (EbDecUtils.h:35) is a static inline in a header: compiled here from that header */
#define get_relative_dist dec_get_relative_dist
#include "EbDecUtils.h"
#undef get_relative_dist

int main(int argc, char **argv) {
    int lo = argc > 1 ? atoi(argv[1]) : 1, hi = argc > 2 ? atoi(argv[2]) : 7;
    for (int bits = lo; bits <= hi; bits++) {
        SeqHeader sh;
        memset(&sh, 0, sizeof sh);
        sh.order_hint_info.enable_order_hint = 1;
        sh.order_hint_info.order_hint_bits   = bits;
        OrderHintInfo oh = sh.order_hint_info;
        for (int a = 0; a < (1 << bits); a++)
            for (int b = 0; b < (1 << bits); b++)
                printf("{\"bits\":%d,\"a\":%d,\"b\":%d,\"r\":[%d,%d,%d,%d,%d]}\n", bits, a, b, get_relative_dist_enc(&sh, a, b),
                       svt_verif_reldist_amvp(bits, a, b), svt_verif_reldist_pd(bits, a, b), svt_verif_reldist_mdc(bits, a, b),
                       dec_get_relative_dist(&oh, a, b));
    }
    return 0;
}
