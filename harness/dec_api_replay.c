/* Direction A for the decoder half of C14 / C15 / C16: executes one call program generated from the state graph of
 * specs/DecApi.tla against the real decoder library, one call per line, and reports the outcome class of every call,
 * crashes, calls that do not return, and -- through the link-time ledger -- what is still allocated after teardown.
 *
 * usage: dec_api_replay <program-file> <out-ndjson> --pkts FILE [--threads N] [--fail callIndex:k] [--count callIndex] [--sites per]
 * Teardown (dec_deinit ; dec_deinit_handle) is appended automatically when the program leaves a handle alive.
 */
#define _GNU_SOURCE
#include <dirent.h>
#include <signal.h>
#include <stdio.h>
#include <stdlib.h>
#include <string.h>
#include <unistd.h>
#include "EbSvtAv1Dec.h"
#include "EbSvtAv1ErrorCodes.h"
#include "verif_rt.h"

static FILE *      g_out;
static const char *g_cur = "-";
static int         g_idx = -1;

static int n_tasks(void) {
    DIR *d = opendir("/proc/self/task");
    int  n = 0;
    if (!d)
        return -1;
    struct dirent *e;
    while ((e = readdir(d)))
        if (e->d_name[0] != '.')
            n++;
    closedir(d);
    return n;
}

static void on_sig(int sig) {
    if (sig == SIGALRM && vrt_alarm_should_wait(20, 12))
        return; /* slow or starved, not stuck: keep waiting (bounded) */
    if (g_out) {
        fprintf(g_out, "{\"ev\":\"%s\",\"sig\":%d,\"call\":\"%s\",\"idx\":%d,\"site\":\"%p\"}\n", sig == SIGALRM ? "Blocked" : "Crash", sig, g_cur, g_idx,
                vrt_fail_site());
        fflush(g_out);
    }
    _exit(sig == SIGALRM ? 124 : 139);
}

static const char *cls(EbErrorType rc) {
    if (rc == EB_ErrorNone)
        return "ok";
    if (rc == EB_DecNoOutputPicture)
        return "empty";
    return "err";
}

typedef struct Pk {
    uint32_t len;
    uint8_t *data;
} Pk;

int main(int argc, char **argv) {
    if (argc < 3)
        return 2;
    int         fail_idx = -1, count_idx = -1, sites_per = 0, threads = 1, w = 64, h = 64;
    long        fail_k = 0;
    const char *pkf    = NULL;
    for (int i = 3; i < argc; i++) {
        if (!strcmp(argv[i], "--threads") && i + 1 < argc) threads = atoi(argv[++i]);
        else if (!strcmp(argv[i], "--fail") && i + 1 < argc) sscanf(argv[++i], "%d:%ld", &fail_idx, &fail_k);
        else if (!strcmp(argv[i], "--count") && i + 1 < argc) count_idx = atoi(argv[++i]);
        else if (!strcmp(argv[i], "--sites") && i + 1 < argc) sites_per = atoi(argv[++i]);
        else if (!strcmp(argv[i], "--pkts") && i + 1 < argc) pkf = argv[++i];
        else if (!strcmp(argv[i], "--size") && i + 1 < argc) sscanf(argv[++i], "%dx%d", &w, &h);
    }
    FILE *pf = fopen(argv[1], "r");
    g_out    = fopen(argv[2], "w");
    if (!pf || !g_out || !pkf)
        return 2;
    /* the temporal units */
    Pk   pk[64];
    int  npk = 0;
    FILE *f  = fopen(pkf, "rb");
    if (!f)
        return 2;
    while (npk < 64) {
        uint32_t n, w32[5];
        uint64_t pts;
        if (fread(&n, 4, 1, f) != 1 || fread(&pts, 8, 1, f) != 1 || fread(w32, 4, 5, f) != 5)
            break;
        pk[npk].len  = n;
        pk[npk].data = malloc(n ? n : 1);
        if (fread(pk[npk].data, 1, n, f) != n)
            break;
        npk++;
    }
    fclose(f);
    signal(SIGSEGV, on_sig), signal(SIGBUS, on_sig), signal(SIGABRT, on_sig), signal(SIGFPE, on_sig), signal(SIGALRM, on_sig);
    int         tasks0 = n_tasks();
    static char prog[64][256];
    int         nprog = 0;
    while (nprog < 64 && fgets(prog[nprog], 256, pf)) {
        prog[nprog][strcspn(prog[nprog], "\n")] = 0;
        if (!prog[nprog][0])
            break;
        nprog++;
    }
    fclose(pf);
    EbBufferHeaderType buf;
    EbSvtIOFormat      io;
    memset(&buf, 0, sizeof buf);
    memset(&io, 0, sizeof io);
    buf.p_buffer = (uint8_t *)&io;
    size_t ysz   = (size_t)(w + 16) * (size_t)(h + 16);
    io.luma = malloc(ysz), io.cb = malloc(ysz / 4 + 64), io.cr = malloc(ysz / 4 + 64);
    io.y_stride  = (uint32_t)w;
    io.cb_stride = io.cr_stride = (uint32_t)(w / 2);
    io.width = (uint32_t)w, io.height = (uint32_t)h;
    io.bit_depth = EB_EIGHT_BIT;
    io.color_fmt = EB_YUV420;
    EbAV1StreamInfo si;
    EbAV1FrameInfo  fi;
    fprintf(g_out, "{\"ev\":\"Start\",\"calls\":%d,\"tus\":%d}\n", nprog, npk);
    fflush(g_out);
    vrt_ledger_start();
    EbComponentType *        H = NULL;
    EbSvtAv1DecConfiguration CFG;
    memset(&CFG, 0, sizeof CFG);
    int destroyed = 0, deinited = 0, next_tu = 0, idx = 0;
    for (idx = 0; idx < nprog; idx++) {
        char *c = prog[idx];
        g_cur = c, g_idx = idx;
        EbErrorType rc = EB_ErrorNone;
        if (idx == fail_idx)
            vrt_fail_at(fail_k);
        else if (idx == count_idx) {
            vrt_fail_at(0);
            if (sites_per)
                vrt_site_log_start();
        }
        alarm(20);
        if (!strcmp(c, "dec_init_handle(&h,cfg)")) rc = svt_av1_dec_init_handle(&H, NULL, &CFG);
        else if (!strcmp(c, "dec_init_handle(NULL,cfg)")) rc = svt_av1_dec_init_handle(NULL, NULL, &CFG);
        else if (!strcmp(c, "dec_set_parameter(h,cfg)")) {
            CFG.threads           = (uint32_t)threads;
            CFG.max_picture_width = (uint32_t)w, CFG.max_picture_height = (uint32_t)h;
            CFG.max_bit_depth    = EB_EIGHT_BIT;
            CFG.max_color_format = EB_YUV420;
            rc                   = svt_av1_dec_set_parameter(H, &CFG);
        } else if (!strcmp(c, "dec_set_parameter(h,NULL)")) rc = svt_av1_dec_set_parameter(H, NULL);
        else if (!strcmp(c, "dec_set_parameter(NULL,cfg)")) rc = svt_av1_dec_set_parameter(NULL, &CFG);
        else if (!strcmp(c, "dec_init(h)")) rc = svt_av1_dec_init(H);
        else if (!strcmp(c, "dec_init(NULL)")) rc = svt_av1_dec_init(NULL);
        else if (!strcmp(c, "dec_frame(h,tu)")) {
            if (next_tu < npk) {
                rc = svt_av1_dec_frame(H, pk[next_tu].data, pk[next_tu].len, 0);
                next_tu++;
            } else
                rc = EB_ErrorMax;
        } else if (!strcmp(c, "dec_frame(h,NULL,0)")) rc = svt_av1_dec_frame(H, NULL, 0, 0);
        else if (!strcmp(c, "dec_frame(NULL,tu)")) rc = svt_av1_dec_frame(NULL, pk[0].data, pk[0].len, 0);
        else if (!strcmp(c, "dec_get_picture(h,buf)")) rc = svt_av1_dec_get_picture(H, &buf, &si, &fi);
        else if (!strcmp(c, "dec_get_picture(h,NULL)")) rc = svt_av1_dec_get_picture(H, NULL, &si, &fi);
        else if (!strcmp(c, "dec_get_picture(NULL,buf)")) rc = svt_av1_dec_get_picture(NULL, &buf, &si, &fi);
        else if (!strcmp(c, "dec_deinit(h)")) { rc = svt_av1_dec_deinit(H); deinited = 1; }
        else if (!strcmp(c, "dec_deinit(NULL)")) rc = svt_av1_dec_deinit(NULL);
        else if (!strcmp(c, "dec_deinit_handle(h)")) { rc = svt_av1_dec_deinit_handle(H); destroyed = 1; H = NULL; }
        else if (!strcmp(c, "dec_deinit_handle(NULL)")) rc = svt_av1_dec_deinit_handle(NULL);
        else { fprintf(g_out, "{\"ev\":\"BadProgram\",\"call\":\"%s\"}\n", c); return 2; }
        alarm(0);
        long  cnt   = (idx == fail_idx || idx == count_idx) ? vrt_fail_count() : -1;
        int   fired = idx == fail_idx ? vrt_fail_fired() : 0;
        void *site  = idx == fail_idx ? vrt_fail_site() : NULL;
        if (idx == count_idx && sites_per)
            vrt_site_log_dump(g_out, sites_per);
        if (idx == fail_idx || idx == count_idx) vrt_fail_at(0);
        fprintf(g_out, "{\"ev\":\"Call\",\"idx\":%d,\"call\":\"%s\",\"rc\":%d,\"class\":\"%s\",\"fallible\":%ld,\"fired\":%d,\"handle\":%d,\"site\":\"%p\"}\n", idx, c,
                (int)rc, cls(rc), cnt, fired, H != NULL, site);
        fflush(g_out);
        if (!strcmp(c, "dec_init_handle(&h,cfg)") && rc != EB_ErrorNone) H = NULL;
    }
    if (H && !destroyed) {
        if (!deinited) {
            g_cur = "dec_deinit(h) [auto]", g_idx = idx;
            alarm(30);
            EbErrorType rc = svt_av1_dec_deinit(H);
            alarm(0);
            fprintf(g_out, "{\"ev\":\"Call\",\"idx\":%d,\"call\":\"dec_deinit(h)\",\"rc\":%d,\"class\":\"%s\",\"auto\":1}\n", idx++, (int)rc, cls(rc));
            fflush(g_out);
        }
        g_cur = "dec_deinit_handle(h) [auto]", g_idx = idx;
        alarm(30);
        EbErrorType rc = svt_av1_dec_deinit_handle(H);
        alarm(0);
        fprintf(g_out, "{\"ev\":\"Call\",\"idx\":%d,\"call\":\"dec_deinit_handle(h)\",\"rc\":%d,\"class\":\"%s\",\"auto\":1}\n", idx++, (int)rc, cls(rc));
        H = NULL;
    }
    vrt_ledger_stop();
    VrtLedger L;
    vrt_ledger_get(&L);
    usleep(2000);
    fprintf(g_out, "{\"ev\":\"Ledger\",\"mem\":%ld,\"mutex\":%ld,\"sem\":%ld,\"thread\":%ld,\"tasks_before\":%d,\"tasks_after\":%d}\n", L.mem, L.mutex,
            L.sem, L.thread, tasks0, n_tasks());
    if (L.mem || L.mutex || L.sem || L.thread)
        vrt_ledger_dump(g_out, 12);
    fprintf(g_out, "{\"ev\":\"End\"}\n");
    fclose(g_out);
    return 0;
}
