/* Link-time interposition on allocation and OS-object creation: resource ledger + fault injection.
 * -Wl,--wrap=malloc,--wrap=calloc,--wrap=realloc,--wrap=posix_memalign,--wrap=free,--wrap=svt_create_mutex,
 *  --wrap=svt_destroy_mutex,--wrap=svt_create_semaphore,--wrap=svt_destroy_semaphore,--wrap=svt_create_thread,--wrap=svt_destroy_thread */
#define _GNU_SOURCE
#include "verif_rt.h"
#include <errno.h>
#include <pthread.h>
#include <sched.h>
#include <stdlib.h>
#include <string.h>
#include <unistd.h>
extern __thread int vrt_internal;
#define t_internal vrt_internal
typedef void *EbHandle;
typedef int   EbErr;
EbHandle __real_svt_create_mutex(void);
EbErr    __real_svt_destroy_mutex(EbHandle h);
EbHandle __real_svt_create_semaphore(uint32_t a, uint32_t b);
EbErr    __real_svt_destroy_semaphore(EbHandle h);
EbHandle __real_svt_create_thread(void *f(void *), void *ctx);
EbErr    __real_svt_destroy_thread(EbHandle h);
void *   __real_malloc(size_t n);
void *   __real_calloc(size_t a, size_t b);
void *   __real_realloc(void *p, size_t n);
int      __real_posix_memalign(void **p, size_t al, size_t n);
void     __real_free(void *p);
/* ------------------------------------------------------------------------------------------ */
/* ledger and fault injection                                                                   */
enum { K_MEM = 1, K_MUTEX, K_SEM, K_THREAD };
#define LG_SIZE (1 << 21)
static struct {
    void *p;
    void *site;
    int   kind;
} g_lg[LG_SIZE];
#define LG_TOMB ((void *)1)
static pthread_spinlock_t g_lg_lock;
static int                g_lg_init;
static volatile int       g_tracking;
static VrtLedger          g_led;
static volatile long      g_fail_k, g_fail_cnt;
static volatile int       g_fail_fired;
static void *volatile g_fail_site;

static void lg_init(void) {
    if (!g_lg_init) {
        pthread_spin_init(&g_lg_lock, 0);
        g_lg_init = 1;
    }
}

static void lg_add(void *p, int kind, void *site) {
    if (!p || !g_tracking || t_internal)
        return;
    pthread_spin_lock(&g_lg_lock);
    uint64_t h = ((uint64_t)(uintptr_t)p >> 4) * 0x9E3779B97F4A7C15ull;
    for (unsigned k = 0; k < LG_SIZE; k++) {
        unsigned i = (unsigned)((h >> 24) + k) & (LG_SIZE - 1);
        if (!g_lg[i].p || g_lg[i].p == LG_TOMB) {
            g_lg[i].p    = p;
            g_lg[i].kind = kind;
            g_lg[i].site = site;
            break;
        }
    }
    switch (kind) {
    case K_MEM: g_led.mem++; break;
    case K_MUTEX: g_led.mutex++; break;
    case K_SEM: g_led.sem++; break;
    case K_THREAD: g_led.thread++; break;
    }
    pthread_spin_unlock(&g_lg_lock);
}

/* returns 1 if p was tracked (and removes it) */
static int lg_del(void *p, int kind) {
    if (!p || !g_lg_init)
        return 0;
    int found = 0;
    pthread_spin_lock(&g_lg_lock);
    uint64_t h = ((uint64_t)(uintptr_t)p >> 4) * 0x9E3779B97F4A7C15ull;
    for (unsigned k = 0; k < LG_SIZE; k++) {
        unsigned i = (unsigned)((h >> 24) + k) & (LG_SIZE - 1);
        if (!g_lg[i].p)
            break;
        if (g_lg[i].p == p) {
            int kd    = g_lg[i].kind;
            g_lg[i].p = LG_TOMB;
            found     = 1;
            switch (kd) {
            case K_MEM: g_led.mem--; break;
            case K_MUTEX: g_led.mutex--; break;
            case K_SEM: g_led.sem--; break;
            case K_THREAD: g_led.thread--; break;
            }
            (void)kind;
            break;
        }
    }
    pthread_spin_unlock(&g_lg_lock);
    return found;
}

void vrt_ledger_start(void) {
    lg_init();
    pthread_spin_lock(&g_lg_lock);
    memset(g_lg, 0, sizeof g_lg);
    memset(&g_led, 0, sizeof g_led);
    pthread_spin_unlock(&g_lg_lock);
    g_tracking = 1;
}
void vrt_ledger_stop(void) { g_tracking = 0; }
void vrt_ledger_get(VrtLedger *out) {
    lg_init();
    pthread_spin_lock(&g_lg_lock);
    *out = g_led;
    pthread_spin_unlock(&g_lg_lock);
}
void vrt_ledger_dump(FILE *f, int max) {
    int n = 0;
    t_internal++;
    for (unsigned i = 0; i < LG_SIZE && n < max; i++)
        if (g_lg[i].p && g_lg[i].p != LG_TOMB) {
            fprintf(f, "  outstanding kind=%d ptr=%p site=%p\n", g_lg[i].kind, g_lg[i].p, g_lg[i].site);
            n++;
        }
    t_internal--;
}

void vrt_fail_at(long k) {
    lg_init();
    g_fail_cnt   = 0;
    g_fail_fired = 0;
    g_fail_site  = NULL;
    g_fail_k     = k;
}
long  vrt_fail_count(void) { return g_fail_cnt; }
int   vrt_fail_fired(void) { return g_fail_fired; }
void *vrt_fail_site(void) { return g_fail_site; }

/* site log: return address of every fallible call, indexed by its K (for site-directed fault selection) */
#define SITE_LOG_MAX (4 * 1024 * 1024)
static void **volatile g_site_log;
void vrt_site_log_start(void) {
    t_internal++;
    if (!g_site_log)
        g_site_log = (void **)__real_calloc(SITE_LOG_MAX, sizeof(void *));
    t_internal--;
}
/* one line per distinct call site: "site <addr> <count> <K1> <K2> ..." with up to `per` indices spread over its calls */
void vrt_site_log_dump(FILE *f, int per) {
    long n = g_fail_cnt < SITE_LOG_MAX ? g_fail_cnt : SITE_LOG_MAX;
    if (!g_site_log)
        return;
    t_internal++;
    char *done = (char *)__real_calloc((size_t)n + 1, 1);
    long *ks   = (long *)__real_calloc((size_t)n + 1, sizeof(long));
    for (long i = 0; i < n; i++) {
        if (done[i])
            continue;
        void *s = g_site_log[i];
        long  m = 0;
        for (long j = i; j < n; j++)
            if (g_site_log[j] == s) {
                done[j] = 1;
                ks[m++] = j + 1;
            }
        fprintf(f, "site %p %ld", s, m);
        int want = per < 1 ? 1 : per;
        if (m <= want)
            for (long q = 0; q < m; q++) fprintf(f, " %ld", ks[q]);
        else
            for (int q = 0; q < want; q++) fprintf(f, " %ld", ks[(long)((double)q * (double)(m - 1) / (double)(want - 1 ? want - 1 : 1))]);
        fprintf(f, "\n");
    }
    __real_free(done);
    __real_free(ks);
    t_internal--;
}

/* one fallible call: returns 1 if it must fail */
static int fallible(void *site) {
    if (t_internal)
        return 0;
    long c = __sync_add_and_fetch(&g_fail_cnt, 1);
    if (g_site_log && c <= SITE_LOG_MAX)
        g_site_log[c - 1] = site;
    if (g_tracking)
        __sync_add_and_fetch(&g_led.n_alloc_calls, 1);
    if (g_fail_k && c == g_fail_k) {
        g_fail_fired = 1;
        g_fail_site  = site;
        return 1;
    }
    return 0;
}

void *__wrap_malloc(size_t n) {
    void *site = __builtin_return_address(0);
    if (fallible(site)) {
        errno = ENOMEM;
        return NULL;
    }
    void *p = __real_malloc(n);
    lg_add(p, K_MEM, site);
    return p;
}
void *__wrap_calloc(size_t a, size_t b) {
    void *site = __builtin_return_address(0);
    if (fallible(site)) {
        errno = ENOMEM;
        return NULL;
    }
    void *p = __real_calloc(a, b);
    lg_add(p, K_MEM, site);
    return p;
}
void *__wrap_realloc(void *old, size_t n) {
    void *site = __builtin_return_address(0);
    if (fallible(site)) {
        errno = ENOMEM;
        return NULL;
    }
    int   was = t_internal ? 0 : lg_del(old, K_MEM);
    void *p   = __real_realloc(old, n);
    if (was || !old)
        lg_add(p, K_MEM, site);
    return p;
}
int __wrap_posix_memalign(void **pp, size_t al, size_t n) {
    void *site = __builtin_return_address(0);
    if (fallible(site))
        return ENOMEM;
    int r = __real_posix_memalign(pp, al, n);
    if (!r)
        lg_add(*pp, K_MEM, site);
    return r;
}
void __wrap_free(void *p) {
    if (p && !t_internal && g_lg_init) {
        if (!lg_del(p, K_MEM) && g_tracking) {
            /* not tracked: allocated before tracking started, by the runtime, or freed twice */
        }
    }
    __real_free(p);
}

EbHandle __wrap_svt_create_mutex(void) {
    void *site = __builtin_return_address(0);
    if (fallible(site))
        return NULL;
    t_internal++;
    EbHandle h = __real_svt_create_mutex();
    t_internal--;
    lg_add(h, K_MUTEX, site);
    return h;
}
EbErr __wrap_svt_destroy_mutex(EbHandle h) {
    lg_del(h, K_MUTEX);
    t_internal++;
    EbErr r = __real_svt_destroy_mutex(h);
    t_internal--;
    return r;
}
EbHandle __wrap_svt_create_semaphore(uint32_t a, uint32_t b) {
    void *site = __builtin_return_address(0);
    if (fallible(site))
        return NULL;
    t_internal++;
    EbHandle h = __real_svt_create_semaphore(a, b);
    t_internal--;
    lg_add(h, K_SEM, site);
    return h;
}
EbErr __wrap_svt_destroy_semaphore(EbHandle h) {
    lg_del(h, K_SEM);
    t_internal++;
    EbErr r = __real_svt_destroy_semaphore(h);
    t_internal--;
    return r;
}
EbHandle __wrap_svt_create_thread(void *f(void *), void *ctx) {
    void *site = __builtin_return_address(0);
    if (fallible(site))
        return NULL;
    t_internal++;
    EbHandle h = __real_svt_create_thread(f, ctx);
    t_internal--;
    lg_add(h, K_THREAD, site);
    return h;
}
EbErr __wrap_svt_destroy_thread(EbHandle h) {
    lg_del(h, K_THREAD);
    t_internal++;
    EbErr r = __real_svt_destroy_thread(h);
    t_internal--;
    return r;
}
