/* Decoder-side recorder: feeds the packets recorded by enc_record (<prefix>.pkts) to
 *   - libaom 3.6.0 (independent reference decoder; runtime library only, hand-declared ABI, dlopen)
 *   - the SVT-AV1 decoder of /repo (threads / 16-bit pipeline configurable)
 * and writes one NDJSON line per output picture with a canonical digest (w, h, then Y,U,V visible
 * samples as uint16) so that the Observe specification can compare observers.  Optionally computes
 * the SSE between each decoded picture and the regenerated source picture (C26 oracle).
 *
 * usage: dec_record --pkts FILE --out FILE [--aom] [--svt] [--threads N] [--16bit 0|1] [--from K]
 *                   [--src kind,cseed,bits] [--trace streams --trace-out FILE] [--perturb s:pm:us]
 */
#define _GNU_SOURCE
#include <dlfcn.h>
#include <signal.h>
#include <stdio.h>
#include <stdlib.h>
#include <string.h>
#include <unistd.h>
#include "EbSvtAv1Dec.h"
#include "gen_video.h"
#include "verif_rt.h"

/* ---- libaom 3.6.0 ABI (decoder ABI version 22) ---- */
typedef struct AomImage {
    int            fmt, cp, tc, mc, monochrome, csp, range;
    unsigned int   w, h, bit_depth, d_w, d_h, r_w, r_h, x_chroma_shift, y_chroma_shift;
    unsigned char *planes[3];
    int            stride[3];
    size_t         sz;
    int            bps, temporal_id, spatial_id;
    void *         user_priv;
    unsigned char *img_data;
    int            img_data_owner, self_allocd;
    void *         metadata;
    void *         fb_priv;
} AomImage;
typedef struct AomDecCfg {
    unsigned int threads, w, h, allow_lowbitdepth;
} AomDecCfg;
typedef struct AomCtx {
    char raw[512];
} AomCtx;
#define AOM_IMG_FMT_HIGHBITDEPTH 0x800
static void *(*aom_dx)(void);
static int (*aom_init)(AomCtx *, void *, const AomDecCfg *, long, int);
static int (*aom_decode)(AomCtx *, const uint8_t *, size_t, void *);
static AomImage *(*aom_get_frame)(AomCtx *, void **);
static int (*aom_destroy)(AomCtx *);
static const char *(*aom_error)(AomCtx *);
static const char *(*aom_error_detail)(AomCtx *);

static int aom_load(void) {
    void *h = dlopen("libaom.so.3", RTLD_NOW | RTLD_LOCAL);
    if (!h)
        h = dlopen("/usr/lib/x86_64-linux-gnu/libaom.so.3", RTLD_NOW | RTLD_LOCAL);
    if (!h)
        return -1;
    aom_dx           = dlsym(h, "aom_codec_av1_dx");
    aom_init         = dlsym(h, "aom_codec_dec_init_ver");
    aom_decode       = dlsym(h, "aom_codec_decode");
    aom_get_frame    = dlsym(h, "aom_codec_get_frame");
    aom_destroy      = dlsym(h, "aom_codec_destroy");
    aom_error        = dlsym(h, "aom_codec_error");
    aom_error_detail = dlsym(h, "aom_codec_error_detail");
    const char *(*ver)(void) = dlsym(h, "aom_codec_version_str");
    if (!aom_dx || !aom_init || !aom_decode || !aom_get_frame || !aom_destroy || !ver)
        return -1;
    if (strncmp(ver(), "3.6", 3) && strncmp(ver(), "v3.6", 4))
        return -2; /* struct layouts above are for 3.6.x */
    return 0;
}

/* ---- packets ---- */
typedef struct Pkt {
    uint32_t len, flags, pic_type, sse[3];
    int64_t  pts;
    uint8_t *data;
} Pkt;
static Pkt *g_pk;
static int  g_npk;

static int g_buf_slack; /* bytes allocated beyond each temporal unit (0: the buffer is exactly data_size long) */
static int load_pkts(const char *path) {
    FILE *f = fopen(path, "rb");
    if (!f)
        return -1;
    int cap = 0;
    for (;;) {
        uint32_t n, rest[5];
        int64_t  pts;
        if (fread(&n, 4, 1, f) != 1)
            break;
        if (fread(&pts, 8, 1, f) != 1 || fread(rest, 4, 5, f) != 5)
            break;
        if (g_npk == cap) {
            cap  = cap ? cap * 2 : 64;
            g_pk = realloc(g_pk, sizeof(Pkt) * (size_t)cap);
        }
        Pkt *p = &g_pk[g_npk];
        p->len = n, p->pts = pts, p->flags = rest[0], p->pic_type = rest[1];
        p->sse[0] = rest[2], p->sse[1] = rest[3], p->sse[2] = rest[4];
        p->data = malloc((n ? n : 1) + (size_t)g_buf_slack);
        memset(p->data + n, 0, (size_t)g_buf_slack);
        if (fread(p->data, 1, n, f) != n)
            break;
        g_npk++;
    }
    fclose(f);
    return 0;
}

static volatile long g_progress; /* pictures output so far */
static FILE *   g_out;
static int      g_src_kind = -1, g_src_bits = 8;
static uint32_t g_src_seed;

/* digest + optional SSE against the regenerated source picture number `disp` */
static void report(const char *who, int idx, int pkt, int w, int h, int bits, const uint8_t *pl[3], const int stride_bytes[3],
                   int bytes_per_sample, int disp) {
    Dig d;
    dig_init(&d);
    dig_u16(&d, (uint16_t)w);
    dig_u16(&d, (uint16_t)h);
    uint64_t sse[3] = {0, 0, 0};
    for (int p = 0; p < 3; p++) {
        int pw = p ? w / 2 : w, ph = p ? h / 2 : h;
        for (int y = 0; y < ph; y++) {
            const uint8_t *row = pl[p] + (size_t)y * (size_t)stride_bytes[p];
            for (int x = 0; x < pw; x++) {
                uint16_t v = bytes_per_sample == 1 ? row[x] : (uint16_t)(row[2 * x] | (row[2 * x + 1] << 8));
                dig_u16(&d, v);
                if (g_src_kind >= 0) {
                    int s = gv_sample(g_src_kind, g_src_seed, g_src_bits, disp, p, x, y, p ? (w + 1) / 2 : w, p ? (h + 1) / 2 : h);
                    int e = (int)v - s;
                    sse[p] += (uint64_t)(e * e);
                }
            }
        }
    }
    char hx[33];
    dig_hex(&d, hx);
    g_progress++;
    fprintf(g_out, "{\"ev\":\"Dec\",\"who\":\"%s\",\"i\":%d,\"pkt\":%d,\"w\":%d,\"h\":%d,\"bits\":%d,\"dig\":\"%s\"", who, idx, pkt, w, h, bits, hx);
    if (g_src_kind >= 0)
        fprintf(g_out, ",\"sse\":[%llu,%llu,%llu]", (unsigned long long)(sse[0] & 0xFFFFFFFFu), (unsigned long long)(sse[1] & 0xFFFFFFFFu),
                (unsigned long long)(sse[2] & 0xFFFFFFFFu));
    fprintf(g_out, "}\n");
}

static const char *g_phase = "start";
static unsigned      g_alarm_period = 120;
static void on_alarm(int s) {
    (void)s;
    /* keep waiting (bounded) only while pictures keep coming: the decoder's stages spin on plain flags, so a stuck
     * multi-threaded decode looks busy */
    static long last_progress = -1;
    if (g_progress != last_progress && vrt_alarm_should_wait(g_alarm_period, 6)) {
        last_progress = g_progress;
        return;
    }
    if (g_out) {
        fprintf(g_out, "{\"ev\":\"Timeout\",\"phase\":\"%s\"}\n", g_phase);
        fflush(g_out);
    }
    vrt_trace_close();
    _exit(124);
}

static int run_aom(int from) {
    int rc = aom_load();
    if (rc) {
        fprintf(g_out, "{\"ev\":\"OracleUnavailable\",\"who\":\"aom\",\"rc\":%d}\n", rc);
        return 0;
    }
    AomCtx ctx;
    memset(&ctx, 0, sizeof ctx);
    AomDecCfg cfg = {1, 0, 0, 1};
    if (aom_init(&ctx, aom_dx(), &cfg, 0, 22)) {
        fprintf(g_out, "{\"ev\":\"OracleUnavailable\",\"who\":\"aom\",\"rc\":-3}\n");
        return 0;
    }
    int n = 0, err = 0;
    for (int k = from; k < g_npk; k++) {
        g_phase = "aom_decode";
        int e   = aom_decode(&ctx, g_pk[k].data, g_pk[k].len, NULL);
        if (e) {
            const char *det = aom_error_detail ? aom_error_detail(&ctx) : NULL;
            fprintf(g_out, "{\"ev\":\"DecError\",\"who\":\"aom\",\"pkt\":%d,\"code\":%d,\"msg\":\"%s / %s\"}\n", k, e,
                    aom_error ? aom_error(&ctx) : "", det ? det : "");
            err = 1;
            break;
        }
        void *    it = NULL;
        AomImage *im;
        while ((im = aom_get_frame(&ctx, &it))) {
            int            bps         = (im->fmt & AOM_IMG_FMT_HIGHBITDEPTH) ? 2 : 1;
            const uint8_t *pl[3]       = {im->planes[0], im->planes[1], im->planes[2]};
            int            st[3]       = {im->stride[0], im->stride[1], im->stride[2]};
            report("aom", n, k, (int)im->d_w, (int)im->d_h, (int)im->bit_depth, pl, st, bps, n + 0);
            n++;
        }
    }
    aom_destroy(&ctx);
    fprintf(g_out, "{\"ev\":\"DecEnd\",\"who\":\"aom\",\"frames\":%d,\"err\":%d,\"from\":%d}\n", n, err, from);
    return err;
}

static int run_svt(int from, int threads, int pipe16, const char *who, int maxw, int maxh, int bits, int frames_parallel) {
    EbSvtAv1DecConfiguration cfg;
    memset(&cfg, 0, sizeof cfg);
    EbComponentType *h = NULL;
    g_phase            = "svt_init_handle";
    if (svt_av1_dec_init_handle(&h, NULL, &cfg) != EB_ErrorNone) {
        fprintf(g_out, "{\"ev\":\"DecError\",\"who\":\"%s\",\"pkt\":-1,\"code\":-1,\"msg\":\"init_handle\"}\n", who);
        return 1;
    }
    cfg.threads           = (uint32_t)threads;
    cfg.is_16bit_pipeline = (EbBool)pipe16;
    cfg.max_picture_width = (uint32_t)maxw, cfg.max_picture_height = (uint32_t)maxh;
    cfg.max_bit_depth    = bits > 8 ? EB_TEN_BIT : EB_EIGHT_BIT;
    cfg.max_color_format = EB_YUV420;
    cfg.skip_film_grain  = 0;
    if (frames_parallel > 0)
        cfg.num_p_frames = (uint32_t)frames_parallel;
    EbErrorType e = svt_av1_dec_set_parameter(h, &cfg);
    g_phase       = "svt_init";
    if (e == EB_ErrorNone)
        e = svt_av1_dec_init(h);
    if (e != EB_ErrorNone) {
        fprintf(g_out, "{\"ev\":\"DecError\",\"who\":\"%s\",\"pkt\":-1,\"code\":%d,\"msg\":\"init\"}\n", who, (int)e);
        svt_av1_dec_deinit_handle(h);
        return 1;
    }
    int                bps = bits > 8 ? 2 : 1;
    EbBufferHeaderType buf;
    EbSvtIOFormat      io;
    memset(&buf, 0, sizeof buf);
    memset(&io, 0, sizeof io);
    buf.p_buffer = (uint8_t *)&io;
    size_t ysz   = (size_t)(maxw + 16) * (size_t)(maxh + 16) * (size_t)bps;
    io.luma = malloc(ysz), io.cb = malloc(ysz / 4 + 64), io.cr = malloc(ysz / 4 + 64);
    io.y_stride  = (uint32_t)maxw;
    io.cb_stride = io.cr_stride = (uint32_t)(maxw / 2);
    io.width = (uint32_t)maxw, io.height = (uint32_t)maxh;
    io.bit_depth = bits > 8 ? EB_TEN_BIT : EB_EIGHT_BIT;
    io.color_fmt = EB_YUV420;
    EbAV1StreamInfo si;
    EbAV1FrameInfo  fi;
    int             n = 0, err = 0;
    for (int k = from; k < g_npk; k++) {
        g_phase = "svt_dec_frame";
        e       = svt_av1_dec_frame(h, g_pk[k].data, g_pk[k].len, 0);
        if (e != EB_ErrorNone) {
            fprintf(g_out, "{\"ev\":\"DecError\",\"who\":\"%s\",\"pkt\":%d,\"code\":%d,\"msg\":\"dec_frame\"}\n", who, k, (int)e);
            err = 1;
            break;
        }
        g_phase = "svt_get_picture";
        while (svt_av1_dec_get_picture(h, &buf, &si, &fi) != EB_DecNoOutputPicture) {
            const uint8_t *pl[3] = {io.luma, io.cb, io.cr};
            int            st[3] = {(int)io.y_stride * bps, (int)io.cb_stride * bps, (int)io.cr_stride * bps};
            report(who, n, k, (int)io.width, (int)io.height, bits, pl, st, bps, n);
            n++;
            break; /* one picture per temporal unit */
        }
    }
    fprintf(g_out, "{\"ev\":\"DecEnd\",\"who\":\"%s\",\"frames\":%d,\"err\":%d,\"from\":%d}\n", who, n, err, from);
    fflush(g_out);
    g_phase = "svt_deinit";
    e       = svt_av1_dec_deinit(h);
    g_phase = "svt_deinit_handle";
    e |= svt_av1_dec_deinit_handle(h);
    fprintf(g_out, "{\"ev\":\"DecTeardown\",\"who\":\"%s\",\"rc\":%d}\n", who, (int)e);
    free(io.luma), free(io.cb), free(io.cr);
    return err;
}

int main(int argc, char **argv) {
    const char *pk = NULL, *out = NULL, *trace_out = NULL, *streams = NULL, *who = "svt";
    int         do_aom = 0, do_svt = 0, threads = 1, p16 = 0, from = 0, w = 0, h = 0, bits = 8, timeout_s = 120, pf = 0;
    uint32_t    pt_seed = 0;
    int         pt_pm = 0, pt_us = 0;
    for (int i = 1; i < argc; i++) {
        const char *a = argv[i];
#define NEXT (i + 1 < argc ? argv[++i] : "")
        if (!strcmp(a, "--pkts")) pk = NEXT;
        else if (!strcmp(a, "--out")) out = NEXT;
        else if (!strcmp(a, "--aom")) do_aom = 1;
        else if (!strcmp(a, "--svt")) do_svt = 1;
        else if (!strcmp(a, "--who")) who = NEXT;
        else if (!strcmp(a, "--threads")) threads = atoi(NEXT);
        else if (!strcmp(a, "--pframes")) pf = atoi(NEXT);
        else if (!strcmp(a, "--16bit")) p16 = atoi(NEXT);
        else if (!strcmp(a, "--from")) from = atoi(NEXT);
        else if (!strcmp(a, "-w")) w = atoi(NEXT);
        else if (!strcmp(a, "-h")) h = atoi(NEXT);
        else if (!strcmp(a, "--bits")) bits = atoi(NEXT);
        else if (!strcmp(a, "--buf-slack")) g_buf_slack = atoi(NEXT);
        else if (!strcmp(a, "--timeout")) timeout_s = atoi(NEXT);
        else if (!strcmp(a, "--src")) {
            char kind[32];
            if (sscanf(NEXT, "%31[^,],%u,%d", kind, &g_src_seed, &g_src_bits) == 3) g_src_kind = gv_kind(kind);
        } else if (!strcmp(a, "--trace")) streams = NEXT;
        else if (!strcmp(a, "--trace-jitter")) { unsigned js = 0; int jp = 0, ju = 0; sscanf(NEXT, "%u:%d:%d", &js, &jp, &ju); vrt_trace_jitter(js, jp, ju); }
        else if (!strcmp(a, "--trace-out")) trace_out = NEXT;
        else if (!strcmp(a, "--perturb")) sscanf(NEXT, "%u:%d:%d", &pt_seed, &pt_pm, &pt_us);
        else { fprintf(stderr, "unknown option %s\n", a); return 2; }
    }
    if (!pk || !out || load_pkts(pk)) { fprintf(stderr, "usage\n"); return 2; }
    g_out = fopen(out, "w");
    if (!g_out) return 2;
    if (trace_out && vrt_trace_open(trace_out, streams)) return 2;
    signal(SIGALRM, on_alarm);
    g_alarm_period = (unsigned)timeout_s;
    alarm((unsigned)timeout_s);
    if (pt_pm) vrt_perturb(pt_seed, pt_pm, pt_us);
    int err = 0;
    if (do_aom) err |= run_aom(from);
    if (do_svt) err |= run_svt(from, threads, p16, who, w, h, bits, pf);
    fclose(g_out);
    vrt_trace_close();
    return err ? 3 : 0;
}
