/* Deterministic synthetic video content shared by the recorders (so that the decoder-side harness can
 * regenerate the submitted pictures, e.g. for the SSE oracle of C26). Samples are produced as uint16. */
#ifndef GEN_VIDEO_H
#define GEN_VIDEO_H
#include <stdint.h>
#include <string.h>

enum { GV_NOISE = 0, GV_FLAT, GV_GRAD, GV_EXTREME, GV_EDGES, GV_SCREEN, GV_MOTION, GV_LOPSIDED, GV_PAN, GV_FASTPAN, GV_DESKTOP, GV_PALSWEEP, GV_NKINDS };
static const char *gv_names[] = {"noise", "flat", "grad", "extreme", "edges", "screen", "motion", "lopsided", "pan", "fastpan", "desktop", "palsweep"};

static inline int gv_kind(const char *s) {
    for (int i = 0; i < GV_NKINDS; i++)
        if (!strcmp(s, gv_names[i]))
            return i;
    return -1;
}

static inline uint32_t gv_hash(uint32_t a, uint32_t b, uint32_t c, uint32_t d) {
    uint32_t h = a * 0x9E3779B1u ^ (b + 0x7F4A7C15u) * 0x85EBCA6Bu ^ (c + 0x165667B1u) * 0xC2B2AE35u ^
        (d + 0x27D4EB2Fu) * 0x2545F491u;
    h ^= h >> 15;
    h *= 0x2C1B3C6Du;
    h ^= h >> 12;
    h *= 0x297A2D39u;
    h ^= h >> 15;
    return h;
}

/* integer sine: argument in 1/256 turns, result -127..127 */
static inline int gv_isin(int t) {
    static const signed char q[65] = {0, 3, 6, 9, 12, 16, 19, 22, 25, 28, 31, 34, 37, 40, 43, 46, 49, 51, 54, 57, 60, 63, 65, 68, 71, 73, 76, 78, 81, 83, 85, 88, 90, 92, 94, 96, 98, 100, 102, 104, 106, 107, 109, 111, 112, 113, 115, 116, 117, 118, 120, 121, 122, 122, 123, 124, 125, 125, 126, 126, 126, 127, 127, 127, 127};
    t &= 255;
    int neg = t >= 128;
    t &= 127;
    int v = t <= 64 ? q[t] : q[128 - t];
    return neg ? -v : v;
}

/* sample of plane p (0=Y,1=U,2=V) at (x,y) of frame k; plane dims are the plane's own */
static inline uint16_t gv_sample(int kind, uint32_t seed, int bits, int k, int p, int x, int y, int pw, int ph) {
    const int maxv = (1 << bits) - 1;
    int       v;
    switch (kind) {
    case GV_NOISE: v = (int)(gv_hash(seed, (uint32_t)k * 3u + (uint32_t)p, (uint32_t)x, (uint32_t)y) & (uint32_t)maxv); break;
    case GV_FLAT: v = (int)((gv_hash(seed, (uint32_t)p, 0, 0) & (uint32_t)maxv) / 2 + maxv / 4); break;
    case GV_GRAD: {
        int g = ((x + 2 * k) * maxv / (pw + 40) + y * maxv / (2 * ph + 1)) / 2;
        int n = (int)(gv_hash(seed, (uint32_t)k * 3u + (uint32_t)p, (uint32_t)x, (uint32_t)y) & 7u) - 3;
        v     = g + n * (1 << (bits - 8)); /* same value as the former shift, without shifting a negative number */
        break;
    }
    case GV_EXTREME: {
        int bx = (x + k) >> 3, by = y >> 3;
        uint32_t r = gv_hash(seed, (uint32_t)p, (uint32_t)bx, (uint32_t)by);
        v = (r & 1u) ? maxv : 0;
        if ((r & 0x30u) == 0x30u)
            v = (int)(gv_hash(seed, (uint32_t)k, (uint32_t)x, (uint32_t)y) & 1u) ? maxv : 0;
        break;
    }
    case GV_EDGES: {
        int e = ((x + 3 * k) / 12 + (y + k) / 20) & 1;
        v     = e ? (maxv * 3) / 4 : maxv / 5;
        if (p)
            v = e ? maxv / 3 : (maxv * 2) / 3;
        break;
    }
    case GV_SCREEN: { /* few colours, sharp rectangles, mostly static, small moving cursor */
        int      cx = x >> (p ? 2 : 3), cy = y >> (p ? 2 : 3);
        uint32_t r  = gv_hash(seed, 77u, (uint32_t)cx / 3u, (uint32_t)cy / 2u) % 5u;
        static const int pal[5] = {16, 235, 128, 60, 200};
        v = pal[r] << (bits - 8);
        int mx = (k * 5) % (pw > 8 ? pw - 8 : 1), my = (k * 3) % (ph > 8 ? ph - 8 : 1);
        if (x >= mx && x < mx + 6 && y >= my && y < my + 6)
            v = (p ? 90 : 250) << (bits - 8);
        break;
    }
    case GV_LOPSIDED: { /* diagonal sinusoidal stripes whose direction and phase change every frame (directional intra
                         * prediction across superblock rows) + weak noise in the left third, strong noise elsewhere:
                         * tile columns of very different decode cost */
        int a16 = 72 + gv_isin(k * 53) * 46 / 127, b16 = 59 + gv_isin(k * 37 + 64) * 52 / 127; /* 1/4096 turn per pixel */
        int ph  = k * 85;
        int s1  = gv_isin(((a16 * x + b16 * y) >> 4) + ph), s2 = gv_isin(((33 * x - 85 * y) >> 4) + k * 60);
        int amp = (3 * x < pw) ? 2 : 24;
        int n   = (int)(gv_hash(seed, (uint32_t)k * 3u + (uint32_t)p, (uint32_t)x, (uint32_t)y) % (uint32_t)(2 * amp + 1)) - amp;
        int v8  = p ? 128 + gv_isin(((p == 1 ? 52 : 39) * x + (p == 1 ? 33 : -46) * y) / 16 + ph + (p == 1 ? 0 : 64)) * 50 / 127
                    : 128 + s1 * 55 / 127 + s2 * 35 / 127 + n;
        v       = v8 * (1 << (bits - 8));
        break;
    }
    case GV_PAN: { /* smooth texture panning slowly (3/4, 1/4 pixel per frame) with a small block moving the other way: long
                    * runs of skip / skip-mode blocks with several distinct references */
        int sc = p ? 2 : 1;                                  /* chroma planes are half size */
        int x4 = 4 * x * sc + 3 * k, y4 = 4 * y * sc + k;    /* position in quarter pixels */
        int v8;
        if (p == 0) {
            /* 0.21 rad/px = 8.56/256 turn per px = 2.14 per quarter px; 0.17 -> 1.73; 0.05 -> 0.51 */
            int a = gv_isin((x4 * 214) / 100), b = gv_isin((y4 * 173) / 100 + 64), c = gv_isin(((x4 + y4) * 51) / 100);
            v8 = 128 + (60 * a / 127) * b / 127 + 30 * c / 127;
            int bx = ((pw - 16) * (127 + gv_isin(k * 4) * 115 / 127)) / 254, by = ((ph - 16) * (127 + gv_isin(k * 3 + 64) * 115 / 127)) / 254;
            if (x >= bx && x < bx + 16 && y >= by && y < by + 16)
                v8 = 200 + 40 * ((((x - bx) >> 2) + ((y - by) >> 2)) & 1);
        } else if (p == 1)
            v8 = 128 + 40 * gv_isin((x4 * 92) / 100) / 127;
        else
            v8 = 128 + 40 * gv_isin((y4 * 112) / 100 + 64) / 127;
        (void)seed;
        v = v8 * (1 << (bits - 8));
        break;
    }
    case GV_FASTPAN: { /* textured background translating 13 / 5 pixels per frame: motion beyond small search ranges */
        int sx = x + 13 * k, sy = y + 5 * k;
        int t  = (int)(gv_hash(seed, (uint32_t)p, (uint32_t)sx >> 3, (uint32_t)sy >> 3) & 0xFFu);
        int g  = gv_isin((sx * 3 + sy * 2) & 255) * 30 / 127;
        int n  = (int)(gv_hash(seed, (uint32_t)k * 3u + (uint32_t)p, (uint32_t)x, (uint32_t)y) & 3u);
        v      = ((t * 5) / 8 + 40 + g + n) * (1 << (bits - 8));
        break;
    }
    case GV_DESKTOP: { /* screen content made of 16x16 tiles scrolling 4 lines per frame: about a third two-colour "text" tiles
                        * (they make the screen-content detector fire), the rest with a skewed distribution of close values
                        * (noisy background cluster, sparse bright strokes, rare mid tones): blocks for which the palette
                        * search has to run k-means, with many near-ties; chroma is flat */
        if (p) {
            v = 128 * (1 << (bits - 8));
            break;
        }
        int      Y    = y + 4 * k;
        uint32_t cell = gv_hash(seed, 311u, (uint32_t)x >> 4, (uint32_t)Y >> 4);
        static const int bgs[4] = {16, 24, 40, 235};
        static const int fgs[3] = {200, 220, 240};
        int      bg = bgs[cell & 3u], fg = bg > 128 ? 255 - bg : fgs[(cell >> 2) % 3u];
        uint32_t r  = gv_hash(seed ^ 0x5bd1e995u, cell, (uint32_t)x, (uint32_t)Y);
        int      v8;
        if ((cell >> 8) % 100u < 35u)
            v8 = (((x * 7 + Y * 3) % 11 < 3) && (r % 10u < 8u)) ? fg : bg;
        else {
            uint32_t q = r % 100u;
            if (q < 80u) v8 = bg + (int)((r >> 8) % 6u);
            else if (q < 95u) v8 = fg - (int)((r >> 8) % 4u);
            else v8 = (bg + fg) / 2 + (int)((r >> 8) % 5u) - 2;
        }
        v = v8 * (1 << (bits - 8));
        break;
    }
    case GV_PALSWEEP: { /* screen content of 16x16 three-level "text" cells (renewed every 3 pictures) whose levels sweep the
                         * sample range: low, a middle level L and a brighter level; a third of the cells put L at a
                         * power-of-two distance below the maximum (where the width of the delta-coded palette colours
                         * changes), the others anywhere in the upper half.  Chroma: two-level cells the same way */
        uint32_t cell = gv_hash(seed, 911u + (uint32_t)p, ((uint32_t)x >> (p ? 3 : 4)) + 64u * (uint32_t)(k / 3), (uint32_t)y >> (p ? 3 : 4));
        uint32_t r    = gv_hash(seed ^ 0x1234567u, cell, (uint32_t)x, (uint32_t)y) % 10u;
        int      low  = (int)(cell % (uint32_t)(maxv / 4 + 1));
        int      mid  = (cell >> 8) % 3u == 0 ? maxv - (1 << ((cell >> 10) % (uint32_t)bits)) : maxv / 2 + (int)((cell >> 10) % (uint32_t)(maxv / 2));
        int      top  = mid + 1 + (int)((cell >> 20) % (uint32_t)(maxv - mid));
        v             = r < 5u ? low : (r < 8u ? mid : top);
        break;
    }
    default: { /* GV_MOTION: textured background translating + noise, exercises inter tools */
        int sx = x + 2 * k, sy = y + k;
        int t  = (int)(gv_hash(seed, (uint32_t)p, (uint32_t)sx >> 2, (uint32_t)sy >> 2) & 0xFFu);
        int n  = (int)(gv_hash(seed, (uint32_t)k * 3u + (uint32_t)p, (uint32_t)x, (uint32_t)y) & 3u);
        v      = ((t * 3) / 4 + 24 + n) << (bits - 8);
        break;
    }
    }
    if (v < 0)
        v = 0;
    if (v > maxv)
        v = maxv;
    return (uint16_t)v;
}

/* 128-bit digest (two independent 64-bit FNV-1a style lanes) over uint16 samples */
typedef struct Dig {
    uint64_t a, b;
} Dig;
static inline void dig_init(Dig *d) {
    d->a = 0xcbf29ce484222325ull;
    d->b = 0x84222325cbf29ce4ull;
}
static inline void dig_u16(Dig *d, uint16_t v) {
    d->a = (d->a ^ v) * 0x100000001b3ull;
    d->b = (d->b + v + 0x9E37u) * 0xff51afd7ed558ccdull;
    d->b ^= d->b >> 29;
}
static inline void dig_bytes(Dig *d, const uint8_t *p, size_t n) {
    for (size_t i = 0; i < n; i++) dig_u16(d, p[i]);
}
static inline void dig_hex(const Dig *d, char out[33]) {
    static const char *hx = "0123456789abcdef";
    uint64_t           v[2] = {d->a, d->b};
    for (int i = 0; i < 2; i++)
        for (int j = 0; j < 16; j++) out[i * 16 + j] = hx[(v[i] >> (60 - 4 * j)) & 15];
    out[32] = 0;
}
#endif
