/* Runtime shared by all /verif harnesses; see verif_rt.h.
 *
 * Trace line format (one event per line, later converted to NDJSON by tools/trace.py):
 *     <seq> <tid> <stream> <instance-id> <event> <arg0> <arg1> ...
 * seq is drawn under one global lock inside the emit call, i.e. inside the critical section of the
 * library that protects the state the event describes, so the order of the file is consistent with
 * every lock order of the library.  No wall-clock time is used anywhere.
 */
#define _GNU_SOURCE
#include "verif_rt.h"
#include <errno.h>
#include <pthread.h>
#include <sched.h>
#include <stdarg.h>
#include <stdlib.h>
#include <string.h>
#include <unistd.h>
#include <time.h>

typedef void (*SvtVerifEmitFn)(const char *stream, const void *obj, const char *ev, int nargs,
                               const long long *args);
extern void svt_verif_set_tracer(SvtVerifEmitFn fn) __attribute__((weak));

/* ------------------------------------------------------------------------------------------ */
/* tracer                                                                                      */
static pthread_mutex_t g_tr_lock = PTHREAD_MUTEX_INITIALIZER;
static FILE *          g_tr_file;
static long long       g_seq;
static char            g_streams[256];
static int             g_next_tid;
static __thread int    t_tid = -1;
__thread int           vrt_internal; /* >0: inside runtime / create wrappers, do not track */
#define t_internal vrt_internal

#define IDMAP_SIZE (1 << 16)
static struct {
    const void *p;
    char        s[8];
    int         id;
} g_idmap[IDMAP_SIZE];
static int g_next_id[16];
static char g_stream_names[16][8];

void vrt_set_tid(int t) { t_tid = t; }
int vrt_tid(void) {
    if (t_tid < 0)
        t_tid = __sync_fetch_and_add(&g_next_tid, 1);
    return t_tid;
}

static int stream_index(const char *s) {
    for (int i = 0; i < 16; i++) {
        if (!g_stream_names[i][0]) {
            strncpy(g_stream_names[i], s, 7);
            return i;
        }
        if (!strncmp(g_stream_names[i], s, 7))
            return i;
    }
    return 15;
}

/* called with g_tr_lock held */
static int obj_id(const char *stream, const void *p, int fresh) {
    if (!p)
        return 0;
    int      si = stream_index(stream);
    uint64_t h  = ((uint64_t)(uintptr_t)p >> 4) * 0x9E3779B97F4A7C15ull + (uint64_t)si * 7919u;
    for (unsigned k = 0; k < IDMAP_SIZE; k++) {
        unsigned i = (unsigned)((h >> 20) + k) & (IDMAP_SIZE - 1);
        if (g_idmap[i].p == p && !strncmp(g_idmap[i].s, stream, 7)) {
            if (fresh)
                g_idmap[i].id = ++g_next_id[si];
            return g_idmap[i].id;
        }
        if (!g_idmap[i].p) {
            g_idmap[i].p = p;
            strncpy(g_idmap[i].s, stream, 7);
            g_idmap[i].id = ++g_next_id[si];
            return g_idmap[i].id;
        }
    }
    return -1;
}

static int stream_enabled(const char *s) {
    if (!g_streams[0])
        return 1;
    const char *p = g_streams;
    size_t      n = strlen(s);
    while (*p) {
        const char *e = strchr(p, ',');
        size_t      m = e ? (size_t)(e - p) : strlen(p);
        if (m == n && !strncmp(p, s, n))
            return 1;
        if (!e)
            break;
        p = e + 1;
    }
    return 0;
}

/* event-point jitter: after an event was written (outside the trace lock) the emitting thread sleeps now and then, so that
 * threads drift against each other between their linearization points (e.g. a row worker falls behind the row below) */
static volatile unsigned g_jit_seed;
static volatile int      g_jit_permille, g_jit_maxus;
static __thread unsigned t_jit;
void vrt_trace_jitter(unsigned seed, int permille, int max_us) { g_jit_seed = seed, g_jit_permille = permille, g_jit_maxus = max_us; }
static void jitter_point(int tid) {
    if (!g_jit_permille)
        return;
    if (!t_jit)
        t_jit = ((g_jit_seed * 2654435761u) ^ ((unsigned)(tid + 1) * 40503u)) | 1u;
    t_jit ^= t_jit << 13, t_jit ^= t_jit >> 17, t_jit ^= t_jit << 5;
    if ((int)(t_jit % 1000u) < g_jit_permille)
        usleep(1 + (t_jit >> 10) % (unsigned)(g_jit_maxus > 0 ? g_jit_maxus : 1));
}

void vrt_emit(const char *stream, const void *obj, const char *ev, int nargs, const long long *args) {
    if (!g_tr_file || !stream_enabled(stream))
        return;
    int tid = vrt_tid();
    t_internal++;
    pthread_mutex_lock(&g_tr_lock);
    if (g_tr_file) {
        /* an event whose name starts with "Ctor" or "Init" opens a new instance of the object at this address */
        int  id = obj_id(stream, obj, !strncmp(ev, "Ctor", 4) || !strncmp(ev, "Init", 4));
        char buf[512];
        int  n = snprintf(buf, sizeof buf, "%lld %d %s %d %s", ++g_seq, tid, stream, id, ev);
        for (int i = 0; i < nargs && n < (int)sizeof buf - 24; i++)
            n += snprintf(buf + n, sizeof buf - n, " %lld", args[i]);
        buf[n++] = '\n';
        fwrite(buf, 1, (size_t)n, g_tr_file);
    }
    pthread_mutex_unlock(&g_tr_lock);
    t_internal--;
    jitter_point(tid);
}

void vrt_note(const char *fmt, ...) {
    if (!g_tr_file)
        return;
    t_internal++;
    pthread_mutex_lock(&g_tr_lock);
    if (g_tr_file) {
        va_list ap;
        va_start(ap, fmt);
        fputs("# ", g_tr_file);
        vfprintf(g_tr_file, fmt, ap);
        fputc('\n', g_tr_file);
        va_end(ap);
    }
    pthread_mutex_unlock(&g_tr_lock);
    t_internal--;
}

int vrt_trace_open(const char *path, const char *streams) {
    t_internal++;
    FILE *f = fopen(path, "w");
    if (f)
        setvbuf(f, NULL, _IOFBF, 1 << 20);
    t_internal--;
    if (!f)
        return -1;
    g_streams[0] = 0;
    if (streams)
        strncpy(g_streams, streams, sizeof g_streams - 1);
    pthread_mutex_lock(&g_tr_lock);
    g_tr_file = f;
    pthread_mutex_unlock(&g_tr_lock);
    if (svt_verif_set_tracer)
        svt_verif_set_tracer(vrt_emit);
    return 0;
}

void vrt_trace_close(void) {
    if (svt_verif_set_tracer)
        svt_verif_set_tracer(NULL);
    pthread_mutex_lock(&g_tr_lock);
    FILE *f   = g_tr_file;
    g_tr_file = NULL;
    pthread_mutex_unlock(&g_tr_lock);
    if (f) {
        t_internal++;
        fclose(f);
        t_internal--;
    }
}


/* ---- timeout discrimination (see verif_rt.h) ---- */
#include <dirent.h>
#include <sys/syscall.h>
static int vrt_others_active(void) {
    long me = (long)syscall(SYS_gettid);
    DIR *d  = opendir("/proc/self/task");
    if (!d)
        return 0;
    int            active = 0;
    struct dirent *e;
    while ((e = readdir(d))) {
        if (e->d_name[0] == '.')
            continue;
        if (atol(e->d_name) == me)
            continue;
        char path[96], buf[512];
        snprintf(path, sizeof path, "/proc/self/task/%s/stat", e->d_name);
        FILE *f = fopen(path, "r");
        if (!f)
            continue;
        size_t n = fread(buf, 1, sizeof buf - 1, f);
        fclose(f);
        buf[n]  = 0;
        char *r = strrchr(buf, ')'); /* "pid (comm) S ..." */
        if (r && r[1] == ' ' && (r[2] == 'R' || r[2] == 'D'))
            active = 1;
    }
    closedir(d);
    return active;
}
static double vrt_cpu_s(void) {
    struct timespec ts;
    if (clock_gettime(CLOCK_PROCESS_CPUTIME_ID, &ts))
        return 0;
    return (double)ts.tv_sec + (double)ts.tv_nsec * 1e-9;
}
int vrt_alarm_should_wait(unsigned period_s, int max_extensions) {
    static int    used;
    static double cpu_last;
    if (used >= max_extensions)
        return 0;
    double cpu   = vrt_cpu_s();
    double spent = cpu - cpu_last; /* CPU the whole process consumed during the period that just expired */
    cpu_last     = cpu;
    int a        = vrt_others_active();
    if (!a) {
        struct timespec ts = {0, 300 * 1000 * 1000};
        nanosleep(&ts, NULL);
        a = vrt_others_active();
    }
    if (!a && spent < 0.05 * (double)period_s) {
        /* nobody else is runnable and the process (including the interrupted thread) used next to no CPU: stuck --
         * unless the machine is so overloaded that a runnable thread may simply not have been scheduled */
        double la = 0;
        FILE * f  = fopen("/proc/loadavg", "r");
        if (f) {
            if (fscanf(f, "%lf", &la) != 1)
                la = 0;
            fclose(f);
        }
        long ncpu = sysconf(_SC_NPROCESSORS_ONLN);
        if (!(la > 2.0 * (double)(ncpu > 0 ? ncpu : 1) && used < 2))
            return 0;
    }
    used++;
    alarm(period_s);
    return 1;
}
