/* Direction A for C12: executes the configurations enumerated by TLC from specs/ParamDomain.tla on the real
 * library.  One case per input line:  name=value name[i]=value ...   (keys mps_decode_order / mps_temporal_layer /
 * mps_ref0 modify entry 0 of the manual prediction structure).
 * Per case, in a forked child: svt_av1_enc_init_handle, base (64x64), apply, svt_av1_enc_set_parameter,
 * svt_av1_enc_deinit_handle; one NDJSON row: the configuration exactly as stored in the structure handed to the
 * library (int32 reinterpretation, arrays as lists), the return code, returned=0 with the signal on crash/timeout. */
#include <stdio.h>
#include <stdlib.h>
#include <string.h>
#include <unistd.h>
#include <signal.h>
#include <sys/wait.h>
#include <sys/mman.h>

static volatile int *phase; /* shared with the parent: 0 nothing written, 1 configuration written, 2 row complete */
#include "EbSvtAv1Enc.h"
#include "gen/cfg_fields.h"
#include "verif_rt.h"

static unsigned g_period = 20;
static void on_alarm(int s) {
    (void)s;
    if (vrt_alarm_should_wait(g_period, 8))
        return;
    signal(SIGALRM, SIG_DFL);
    raise(SIGALRM);
}

static const CfgField *find_field(const char *name) {
    for (size_t i = 0; i < CFG_NFIELDS; i++)
        if (!strcmp(cfg_fields[i].name, name))
            return &cfg_fields[i];
    return NULL;
}
static void put_int(EbSvtAv1EncConfiguration *c, const CfgField *f, size_t idx, long long v) {
    uint8_t *p = (uint8_t *)c + f->off + idx * f->elem;
    switch (f->elem) {
    case 1: *(uint8_t *)p = (uint8_t)v; break;
    case 2: *(uint16_t *)p = (uint16_t)v; break;
    case 4: *(uint32_t *)p = (uint32_t)v; break;
    default: *(uint64_t *)p = (uint64_t)v; break;
    }
}
/* stored value as int32 (TLC integers are 32 bit): 4/8-byte fields are reinterpreted, smaller ones keep their value */
static int get_i32(const EbSvtAv1EncConfiguration *c, const CfgField *f, size_t idx) {
    const uint8_t *p = (const uint8_t *)c + f->off + idx * f->elem;
    switch (f->elem) {
    case 1: return f->is_signed ? (int)*(const int8_t *)p : (int)*(const uint8_t *)p;
    case 2: return f->is_signed ? (int)*(const int16_t *)p : (int)*(const uint16_t *)p;
    case 4: return (int)*(const int32_t *)p;
    default: return (int)(int32_t)(*(const uint64_t *)p & 0xffffffffu);
    }
}
static int apply_set(EbSvtAv1EncConfiguration *c, const char *kv) {
    char        name[128];
    const char *eq = strchr(kv, '=');
    if (!eq || (size_t)(eq - kv) >= sizeof name)
        return -1;
    memcpy(name, kv, (size_t)(eq - kv));
    name[eq - kv] = 0;
    long long v   = strtoll(eq + 1, NULL, 0);
    if (!strcmp(name, "mps_decode_order")) { c->pred_struct[0].decode_order = (uint32_t)v; return 0; }
    if (!strcmp(name, "mps_temporal_layer")) { c->pred_struct[0].temporal_layer_index = (uint32_t)v; return 0; }
    if (!strcmp(name, "mps_ref0")) { c->pred_struct[0].ref_list0[0] = (int32_t)v; return 0; }
    size_t idx = 0;
    char * br  = strchr(name, '[');
    if (br) {
        idx = (size_t)strtoul(br + 1, NULL, 0);
        *br = 0;
    }
    const CfgField *f = find_field(name);
    if (!f || f->kind != 0 || idx >= f->count)
        return -1;
    put_int(c, f, idx, v);
    return 0;
}
static void dump_cfg(FILE *o, const EbSvtAv1EncConfiguration *c) {
    int first = 1;
    fprintf(o, "{");
    for (size_t i = 0; i < CFG_NFIELDS; i++) {
        const CfgField *f = &cfg_fields[i];
        if (f->kind != 0)
            continue;
        fprintf(o, "%s\"%s\":", first ? "" : ",", f->name);
        first = 0;
        if (f->count == 1)
            fprintf(o, "%d", get_i32(c, f, 0));
        else {
            fprintf(o, "[");
            for (size_t k = 0; k < f->count; k++) fprintf(o, "%s%d", k ? "," : "", get_i32(c, f, k));
            fprintf(o, "]");
        }
    }
    fprintf(o, ",\"mps_decode_order\":%d,\"mps_temporal_layer\":%d,\"mps_ref0\":%d}", (int)c->pred_struct[0].decode_order,
            (int)c->pred_struct[0].temporal_layer_index, (int)c->pred_struct[0].ref_list0[0]);
}

static void run_case(char *line, FILE *o, int idx) {
    EbComponentType *        h = NULL;
    EbSvtAv1EncConfiguration cfg;
    memset(&cfg, 0, sizeof cfg);
    EbErrorType e = svt_av1_enc_init_handle(&h, NULL, &cfg);
    if (e != EB_ErrorNone || !h) {
        fprintf(o, "{\"i\":%d,\"returned\":1,\"ret\":%d,\"init_failed\":1,\"cfg\":{}}\n", idx, (int)e);
        *phase = 2;
        return;
    }
    cfg.source_width  = 64;
    cfg.source_height = 64;
    /* a well-formed manual prediction structure in every entry (only used when the case enables it) */
    for (int i = 0; i < (1 << (MAX_HIERARCHICAL_LEVEL - 1)); i++) {
        memset(&cfg.pred_struct[i], 0, sizeof cfg.pred_struct[i]);
        cfg.pred_struct[i].decode_order = (uint32_t)i;
        cfg.pred_struct[i].ref_list0[0] = 1;
    }
    int bad = 0;
    for (char *t = strtok(line, " \n"); t; t = strtok(NULL, " \n"))
        if (apply_set(&cfg, t))
            bad = 1;
    if (bad) {
        fprintf(o, "{\"i\":%d,\"returned\":1,\"ret\":0,\"harness_error\":1,\"cfg\":{}}\n", idx);
        *phase = 2;
        return;
    }
    /* the row is written BEFORE the call as well, so that a crash leaves the configuration behind */
    fprintf(o, "{\"i\":%d,\"cfg\":", idx);
    dump_cfg(o, &cfg);
    fflush(o);
    *phase = 1;
    e = svt_av1_enc_set_parameter(h, &cfg);
    fprintf(o, ",\"returned\":1,\"ret\":%d}\n", (int)e);
    fflush(o);
    *phase = 2;
    svt_av1_enc_deinit_handle(h);
}

int main(int argc, char **argv) {
    int   tmo = argc > 1 ? atoi(argv[1]) : 20;
    char *line = NULL;
    size_t cap = 0;
    /* the library prints diagnostics on stderr/stdout through SVT_LOG: rows go to fd 3 if open, else stdout */
    FILE *o = fdopen(3, "w");
    if (!o)
        o = stdout;
    phase = mmap(NULL, sizeof(int), PROT_READ | PROT_WRITE, MAP_SHARED | MAP_ANONYMOUS, -1, 0);
    int idx = 0;
    while (getline(&line, &cap, stdin) > 0) {
        idx++;
        fflush(o);
        *phase = 0;
        pid_t pid = fork();
        if (pid == 0) {
            g_period = (unsigned)tmo;
            signal(SIGALRM, on_alarm);
            alarm((unsigned)tmo);
            run_case(line, o, idx);
            fflush(o);
            _exit(0);
        }
        int st = 0;
        waitpid(pid, &st, 0);
        if (!(WIFEXITED(st) && WEXITSTATUS(st) == 0)) {
            int sg = WIFSIGNALED(st) ? WTERMSIG(st) : -WEXITSTATUS(st);
            if (*phase == 1) /* finish the row the child left open */
                fprintf(o, ",\"returned\":0,\"ret\":0,\"signal\":%d}\n", sg);
            else if (*phase == 0)
                fprintf(o, "{\"i\":%d,\"cfg\":{},\"returned\":0,\"ret\":0,\"signal\":%d,\"before_call\":1}\n", idx, sg);
            else /* crash in deinit_handle after a complete row: reported separately */
                fprintf(o, "{\"i\":%d,\"cfg\":{},\"returned\":0,\"ret\":0,\"signal\":%d,\"in_deinit\":1}\n", idx, sg);
            fflush(o);
        }
    }
    return 0;
}
