/* Direction A for C25: writes symbol sequences with the REAL arithmetic writer (aom_write_symbol / aom_write /
 * aom_write_literal, Common/Codec/EbBitstreamUnit.[ch]) and reads them back with the REAL decoder-side reader
 * (Decoder/Codec/EbDecBitstreamUnit.h, EbDecBitReader.h -- header-only), logging after every symbol the writer's
 * and the reader's range and both CDF arrays; specs/RangeCoderTrace.tla judges every step.
 *
 * Sequences are read from stdin, one per line:
 *    S <nsyms> <adapt 0|1> <cdfkind> <len> s1 s2 ...      symbols with a CDF of the given family
 *    B <len> p1 b1 p2 b2 ...                               booleans with probability p (1..255, aom_write)
 *    L <bits> <value>                                      literal
 */
#include <stdio.h>
#include <stdlib.h>
#include <string.h>
#include "EbDefinitions.h"
#include "EbBitstreamUnit.h"
#include "EbCabacContextModel.h"
#include "EbDecBitstreamUnit.h"
#include "EbDecBitReader.h"

/* CDF families (icdf form as the library stores them: 32768 - cumulative), nsyms+1 entries (last = counter) */
static void make_cdf(AomCdfProb *c, int n, int kind) {
    int cum[17];
    for (int i = 0; i < n; i++) {
        switch (kind) {
        case 0: cum[i] = (32768 * (i + 1)) / n; break;                       /* uniform */
        case 1: cum[i] = i == n - 1 ? 32768 : 32768 - (n - 1 - i); break;    /* (almost) all mass on symbol 0, minimal steps after */
        case 2: cum[i] = i == n - 1 ? 32768 : (i + 1); break;                /* all mass on the last symbol */
        case 3: cum[i] = i == n - 1 ? 32768 : 32768; break;                  /* zero probability for every symbol but the first */
        case 4: cum[i] = i == n - 1 ? 32768 : 1; break;                      /* 1/32768 for symbol 0, zero for the middle ones, the rest on the last */
        default: cum[i] = i == n - 1 ? 32768 : (32768 * (i + 1) * (i + 1)) / (n * n); break; /* skewed */
        }
    }
    cum[n - 1] = 32768;
    for (int i = 0; i < n; i++) c[i] = (AomCdfProb)(32768 - cum[i]);
    c[n] = 0;
}

static void pr_cdf(const AomCdfProb *c, int n) {
    printf("[");
    for (int i = 0; i <= n; i++) printf("%s%d", i ? "," : "", (int)c[i]);
    printf("]");
}

int main(void) {
    char line[4096];
    static uint8_t buf[1 << 16];
    while (fgets(line, sizeof line, stdin)) {
        char kind = line[0];
        int  vals[1024], nv = 0;
        for (char *t = strtok(line + 1, " \n"); t && nv < 1024; t = strtok(NULL, " \n")) vals[nv++] = atoi(t);
        AomWriter w;
        memset(&w, 0, sizeof w);
        aom_start_encode(&w, buf);
        AomCdfProb cw[18], cr[18];
        int        n = 0, adapt = 0, ck = 0, len = 0;
        int        wr_rng[1024];
        static AomCdfProb wr_cdf[1024][18];
        if (kind == 'S') {
            n = vals[0], adapt = vals[1], ck = vals[2], len = vals[3];
            make_cdf(cw, n, ck);
            memcpy(cr, cw, sizeof cw);
            w.allow_update_cdf = (uint8_t)adapt;
            for (int i = 0; i < len; i++) {
                aom_write_symbol(&w, vals[4 + i], cw, n);
                wr_rng[i] = w.ec.rng;
                memcpy(wr_cdf[i], cw, sizeof cw);
            }
        } else if (kind == 'B') {
            len = vals[0];
            for (int i = 0; i < len; i++) {
                aom_write(&w, vals[2 + 2 * i], vals[1 + 2 * i]);
                wr_rng[i] = w.ec.rng;
            }
        } else if (kind == 'L') {
            len = vals[0];
            aom_write_literal(&w, vals[1], vals[0]);
            wr_rng[0] = w.ec.rng;
        } else
            continue;
        int tell_before = svt_od_ec_enc_tell(&w.ec);
        int nbits       = aom_stop_encode(&w);
        int bytes       = (int)w.pos;
        /* read back */
        SvtReader r;
        memset(&r, 0, sizeof r);
        svt_reader_init(&r, buf, (size_t)bytes);
        r.allow_update_cdf = (uint8_t)adapt;
        printf("{\"kind\":\"%c\",\"n\":%d,\"adapt\":%d,\"ck\":%d,\"len\":%d,\"bytes\":%d,\"tell\":%d,\"nbits\":%d", kind, n, adapt, ck, len, bytes, tell_before, nbits);
        if (kind == 'S') {
            AomCdfProb c0[18];
            make_cdf(c0, n, ck);
            printf(",\"cdf0\":");
            pr_cdf(c0, n);
            printf(",\"steps\":[");
            for (int i = 0; i < len; i++) {
                int s = aom_read_symbol_(&r, cr, n);
                printf("%s{\"s\":%d,\"d\":%d,\"wr\":%d,\"rr\":%d,\"wc\":", i ? "," : "", vals[4 + i], s, wr_rng[i], (int)r.ec.rng);
                pr_cdf(wr_cdf[i], n);
                printf(",\"rc\":");
                pr_cdf(cr, n);
                printf("}");
            }
            printf("]");
        } else if (kind == 'B') {
            printf(",\"steps\":[");
            for (int i = 0; i < len; i++) {
                int b = aom_read_(&r, vals[1 + 2 * i]);
                printf("%s{\"p\":%d,\"s\":%d,\"d\":%d,\"wr\":%d,\"rr\":%d}", i ? "," : "", vals[1 + 2 * i], vals[2 + 2 * i], b, wr_rng[i], (int)r.ec.rng);
            }
            printf("]");
        } else {
            int v = aom_read_literal_(&r, vals[0]);
            printf(",\"steps\":[{\"bits\":%d,\"s\":%d,\"d\":%d,\"wr\":%d,\"rr\":%d}]", vals[0], vals[1], v, wr_rng[0], (int)r.ec.rng);
        }
        printf("}\n");
    }
    return 0;
}
