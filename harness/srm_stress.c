/* Stress driver for the system resource manager (C23, direction B).
 * Well-behaved clients hammer one real EbSystemResource under seeded schedule perturbation; every
 * critical section emits an event (hooks in EbSystemResourceManager.c); the trace is validated
 * against specs/SRMTrace.tla.
 *
 * usage: srm_stress <trace> <seed> <nObj> <nProd> <nCons> <opsPerProducer> <nonblocking 0|1> <maxInc>
 */
#define _GNU_SOURCE
#include <pthread.h>
#include <stdio.h>
#include <stdlib.h>
#include <string.h>
#include <unistd.h>
#include "EbSystemResourceManager.h"
#include "verif_rt.h"

typedef struct Payload {
    EbDctor dctor;
    int     releases; /* how many svt_release_object calls the consumer owes */
    int     serial;
} Payload;

static EbErrorType payload_creator(EbPtr *obj_dbl_ptr, EbPtr init) {
    (void)init;
    Payload *p   = (Payload *)calloc(1, sizeof(Payload));
    *obj_dbl_ptr = p;
    return p ? EB_ErrorNone : EB_ErrorInsufficientResources;
}
static void payload_destroyer(EbPtr p) { free(p); }

static EbSystemResource *g_res;
static int               g_ops, g_nb, g_max_inc, g_ncons;
static volatile int      g_consumed, g_bad;

typedef struct Arg {
    int      idx;
    uint32_t rng;
} Arg;
static uint32_t rnd(uint32_t *s) {
    *s ^= *s << 13;
    *s ^= *s >> 17;
    *s ^= *s << 5;
    return *s;
}

static void *producer(void *a_) {
    Arg *   a    = (Arg *)a_;
    EbFifo *fifo = svt_system_resource_get_producer_fifo(g_res, a->idx);
    for (int i = 0; i < g_ops; i++) {
        EbObjectWrapper *w = NULL;
        svt_get_empty_object(fifo, &w);
        if (!w) {
            g_bad = 1;
            break;
        }
        Payload *p  = (Payload *)w->object_ptr;
        int      inc = g_max_inc ? (int)(rnd(&a->rng) % (uint32_t)(g_max_inc + 1)) : 0;
        p->releases = inc ? inc : 1;
        p->serial   = a->idx * 100000 + i;
        if (inc)
            svt_object_inc_live_count(w, (uint32_t)inc);
        int nrel = p->releases; /* the payload may be rewritten by the next holder once released */
        if (g_ncons)
            svt_post_full_object(w);
        else
            for (int r = 0; r < nrel; r++) svt_release_object(w);
        if (rnd(&a->rng) % 7 == 0)
            sched_yield();
    }
    return NULL;
}

static void *consumer(void *a_) {
    Arg *   a    = (Arg *)a_;
    EbFifo *fifo = svt_system_resource_get_consumer_fifo(g_res, a->idx);
    for (;;) {
        EbObjectWrapper *w = NULL;
        EbErrorType      e;
        if (g_nb && rnd(&a->rng) % 2) {
            e = svt_get_full_object_non_blocking(fifo, &w);
            if (!w) {
                /* either nothing there or shutting down: use a blocking get every now and then so the
                 * thread terminates on shutdown */
                if (rnd(&a->rng) % 4)
                    continue;
                e = svt_get_full_object(fifo, &w);
            }
        } else
            e = svt_get_full_object(fifo, &w);
        if (e == EB_NoErrorFifoShutdown)
            break;
        if (!w) {
            g_bad = 2;
            break;
        }
        Payload *p = (Payload *)w->object_ptr;
        int      n = p->releases;
        if (rnd(&a->rng) % 5 == 0)
            sched_yield();
        for (int r = 0; r < n; r++) svt_release_object(w);
        __sync_fetch_and_add(&g_consumed, 1);
    }
    return NULL;
}

int main(int argc, char **argv) {
    if (argc < 9) {
        fprintf(stderr, "usage\n");
        return 2;
    }
    const char *trace = argv[1];
    uint32_t    seed  = (uint32_t)strtoul(argv[2], 0, 0);
    int         nobj = atoi(argv[3]), nprod = atoi(argv[4]), ncons = atoi(argv[5]);
    g_ops     = atoi(argv[6]);
    g_nb      = atoi(argv[7]);
    g_max_inc = atoi(argv[8]);
    g_ncons   = ncons;
    if (vrt_trace_open(trace, "srm"))
        return 2;
    vrt_perturb(seed, 300, 50);
    alarm(60);
    EbSystemResource *res = (EbSystemResource *)calloc(1, sizeof(*res));
    if (svt_system_resource_ctor(res, nobj, nprod, ncons, payload_creator, NULL, payload_destroyer) !=
        EB_ErrorNone)
        return 2;
    g_res = res;
    pthread_t tp[64], tc[64];
    Arg       ap[64], ac[64];
    for (int i = 0; i < ncons; i++) {
        ac[i].idx = i;
        ac[i].rng = seed * 31u + 977u * (uint32_t)(i + 1);
        pthread_create(&tc[i], NULL, consumer, &ac[i]);
    }
    for (int i = 0; i < nprod; i++) {
        ap[i].idx = i;
        ap[i].rng = seed * 17u + 131u * (uint32_t)(i + 1);
        pthread_create(&tp[i], NULL, producer, &ap[i]);
    }
    for (int i = 0; i < nprod; i++) pthread_join(tp[i], NULL);
    /* all producers are done; shut down at a seeded moment: consumers may still be busy */
    if (seed % 3)
        usleep(seed % 400);
    svt_shutdown_process(res);
    for (int i = 0; i < ncons; i++) pthread_join(tc[i], NULL);
    res->dctor(res);
    free(res);
    vrt_trace_close();
    if (g_bad) {
        fprintf(stderr, "driver saw NULL wrapper (%d)\n", g_bad);
        return 3;
    }
    printf("ok consumed=%d\n", g_consumed);
    return 0;
}
