/* Recorder for real encodes (direction B): drives the public encoder API along a given call pattern,
 * records application-level events (NDJSON, <out>.ev), the packets (<out>.pkts) and -- through the
 * guarded hooks -- the library's internal events (<out>.trc).
 *
 * Everything that is random derives from explicit seeds given on the command line.
 */
#define _GNU_SOURCE
#include <errno.h>
#include <pthread.h>
#include <signal.h>
#include <stdio.h>
#include <stdlib.h>
#include <string.h>
#include <unistd.h>
#include "EbSvtAv1Enc.h"
#include "EbSvtAv1ErrorCodes.h"
#include "gen/cfg_fields.h"
#include "gen_video.h"
#include "verif_rt.h"

/* ledger functions exist only when the allocation wrappers are linked (verif_wrap_alloc.c) */
extern void vrt_ledger_start(void) __attribute__((weak));
extern void vrt_ledger_stop(void) __attribute__((weak));
extern void vrt_ledger_get(VrtLedger *out) __attribute__((weak));
extern void vrt_ledger_dump(FILE *f, int max) __attribute__((weak));
#include <dirent.h>
static int n_tasks(void) {
    DIR *d = opendir("/proc/self/task");
    int  n = 0;
    if (!d) return -1;
    struct dirent *e;
    while ((e = readdir(d))) if (e->d_name[0] != '.') n++;
    closedir(d);
    return n;
}
static FILE *g_ev, *g_pk;
static const char *g_phase = "start";
static int g_sent, g_pkts, g_recons;

static unsigned g_alarm_period = 120;
static void on_alarm(int sig) {
    (void)sig;
    /* keep waiting (bounded) only while the session makes progress: the recorder's own polling loops burn CPU, so "the
     * process is busy" alone does not mean the library is getting anywhere */
    static long last_progress = -1;
    long        progress      = (long)g_sent + g_pkts + g_recons;
    if (progress != last_progress && vrt_alarm_should_wait(g_alarm_period, 6)) {
        last_progress = progress;
        return;
    }
    /* async-signal-unsafe stdio is acceptable here: the process is about to exit */
    if (g_ev) {
        fprintf(g_ev, "{\"ev\":\"Timeout\",\"phase\":\"%s\",\"sent\":%d,\"pkts\":%d,\"recons\":%d}\n", g_phase, g_sent, g_pkts, g_recons);
        fflush(g_ev);
    }
    if (g_pk)
        fflush(g_pk);
    vrt_trace_close();
    _exit(124);
}

static uint32_t rnd(uint32_t *s) {
    *s ^= *s << 13;
    *s ^= *s >> 17;
    *s ^= *s << 5;
    return *s;
}

/* ---- configuration by field name ---- */
static const CfgField *find_field(const char *name) {
    for (size_t i = 0; i < CFG_NFIELDS; i++)
        if (!strcmp(cfg_fields[i].name, name))
            return &cfg_fields[i];
    return NULL;
}
static void put_int(EbSvtAv1EncConfiguration *c, const CfgField *f, size_t idx, long long v) {
    uint8_t *p = (uint8_t *)c + f->off + idx * f->elem;
    switch (f->elem) {
    case 1: *(uint8_t *)p = (uint8_t)v; break;
    case 2: *(uint16_t *)p = (uint16_t)v; break;
    case 4: *(uint32_t *)p = (uint32_t)v; break;
    default: *(uint64_t *)p = (uint64_t)v; break;
    }
}
static long long get_int(const EbSvtAv1EncConfiguration *c, const CfgField *f, size_t idx) {
    const uint8_t *p = (const uint8_t *)c + f->off + idx * f->elem;
    switch (f->elem) {
    case 1: return f->is_signed ? (long long)*(const int8_t *)p : (long long)*(const uint8_t *)p;
    case 2: return f->is_signed ? (long long)*(const int16_t *)p : (long long)*(const uint16_t *)p;
    case 4: return f->is_signed ? (long long)*(const int32_t *)p : (long long)*(const uint32_t *)p;
    default: return (long long)*(const int64_t *)p;
    }
}
/* "name=value" or "name[i]=value" */
static int apply_set(EbSvtAv1EncConfiguration *c, const char *kv) {
    char name[128];
    const char *eq = strchr(kv, '=');
    if (!eq || (size_t)(eq - kv) >= sizeof name)
        return -1;
    memcpy(name, kv, (size_t)(eq - kv));
    name[eq - kv] = 0;
    size_t idx = 0;
    char * br  = strchr(name, '[');
    if (br) {
        idx = (size_t)strtoul(br + 1, NULL, 0);
        *br = 0;
    }
    const CfgField *f = find_field(name);
    if (!f || f->kind != 0 || idx >= f->count)
        return -1;
    put_int(c, f, idx, strtoll(eq + 1, NULL, 0));
    return 0;
}
static void dump_cfg(FILE *o, const char *ev, const EbSvtAv1EncConfiguration *c) {
    fprintf(o, "{\"ev\":\"%s\"", ev);
    for (size_t i = 0; i < CFG_NFIELDS; i++) {
        const CfgField *f = &cfg_fields[i];
        if (f->kind == 0 && f->count == 1)
            fprintf(o, ",\"%s\":%lld", f->name, get_int(c, f, 0));
        else if (f->kind == 0) {
            fprintf(o, ",\"%s\":[", f->name);
            for (size_t k = 0; k < f->count; k++) fprintf(o, "%s%lld", k ? "," : "", get_int(c, f, k));
            fprintf(o, "]");
        } else {
            Dig d;
            dig_init(&d);
            dig_bytes(&d, (const uint8_t *)c + f->off, f->elem);
            char hx[33];
            dig_hex(&d, hx);
            fprintf(o, ",\"%s\":\"%s\"", f->name, hx);
        }
    }
    fprintf(o, "}\n");
}

/* ---- pictures ---- */
typedef struct Pic {
    EbBufferHeaderType hdr;
    EbSvtIOFormat      io;
    uint8_t *          mem[3];
    size_t             sz[3];
} Pic;

static int g_w, g_h, g_bits, g_kind, g_stride_extra, g_pad_mode; /* pad_mode: -1 random, else byte */
static int g_stride_cb = -1, g_stride_cr = -1;                      /* extra samples per chroma row; -1: half of the luma extra (both planes equal) */
#define STRIDE_EXTRA(pl) ((pl) == 0 ? g_stride_extra : (pl) == 1 ? (g_stride_cb >= 0 ? g_stride_cb : g_stride_extra / 2) : (g_stride_cr >= 0 ? g_stride_cr : g_stride_extra / 2))
static uint32_t g_cseed;

static void pic_alloc(Pic *p) {
    int bps = g_bits > 8 ? 2 : 1;
    for (int pl = 0; pl < 3; pl++) {
        int pw = pl ? (g_w + 1) / 2 : g_w, ph = pl ? (g_h + 1) / 2 : g_h;
        int stride = pw + STRIDE_EXTRA(pl);
        p->sz[pl]  = (size_t)stride * (size_t)ph * (size_t)bps;
        p->mem[pl] = (uint8_t *)malloc(p->sz[pl] + 64);
    }
}
static void pic_free(Pic *p) {
    for (int pl = 0; pl < 3; pl++) {
        free(p->mem[pl]);
        p->mem[pl] = NULL;
    }
}
static void pic_fill(Pic *p, int k) {
    int      bps = g_bits > 8 ? 2 : 1;
    uint32_t pr  = g_cseed * 7919u + (uint32_t)k * 104729u + 17u;
    for (int pl = 0; pl < 3; pl++) {
        int pw = pl ? (g_w + 1) / 2 : g_w, ph = pl ? (g_h + 1) / 2 : g_h;
        int stride = pw + STRIDE_EXTRA(pl);
        for (int y = 0; y < ph; y++) {
            uint8_t *row = p->mem[pl] + (size_t)y * (size_t)stride * (size_t)bps;
            for (int x = 0; x < stride; x++) {
                uint16_t v;
                if (x < pw)
                    v = gv_sample(g_kind, g_cseed, g_bits, k, pl, x, y, pw, ph);
                else if (g_pad_mode < 0)
                    v = (uint16_t)(rnd(&pr) & ((1u << g_bits) - 1u));
                else
                    v = (uint16_t)(g_pad_mode & ((1 << g_bits) - 1));
                if (bps == 1)
                    row[x] = (uint8_t)v;
                else {
                    row[2 * x]     = (uint8_t)(v & 0xFF);
                    row[2 * x + 1] = (uint8_t)(v >> 8);
                }
            }
        }
    }
    memset(&p->io, 0, sizeof p->io);
    p->io.luma      = p->mem[0];
    p->io.cb        = p->mem[1];
    p->io.cr        = p->mem[2];
    p->io.y_stride  = (uint32_t)(g_w + g_stride_extra);
    p->io.cb_stride = (uint32_t)((g_w + 1) / 2 + STRIDE_EXTRA(1));
    p->io.cr_stride = (uint32_t)((g_w + 1) / 2 + STRIDE_EXTRA(2));
    p->io.width     = (uint32_t)g_w;
    p->io.height    = (uint32_t)g_h;
    p->io.color_fmt = EB_YUV420;
    p->io.bit_depth = g_bits > 8 ? EB_TEN_BIT : EB_EIGHT_BIT;
}
static void pic_scribble(Pic *p, uint32_t s) {
    for (int pl = 0; pl < 3; pl++)
        for (size_t i = 0; i < p->sz[pl]; i++) p->mem[pl][i] = (uint8_t)(rnd(&s) >> 8);
}

/* ---- output handling ---- */
static EbComponentType *g_h_enc;
static EbBufferHeaderType g_recon_hdr;
static int g_recon_on, g_got_eos_pkt, g_got_eos_recon, g_err;

static void put_u32(FILE *f, uint32_t v) { fwrite(&v, 4, 1, f); }
static void put_u64(FILE *f, uint64_t v) { fwrite(&v, 8, 1, f); }

static void digest_recon(const uint8_t *buf, Dig *d) {
    /* canonical digest: w, h, then Y, U, V visible samples as uint16 */
    int bps = g_bits > 8 ? 2 : 1;
    dig_init(d);
    dig_u16(d, (uint16_t)g_w);
    dig_u16(d, (uint16_t)g_h);
    size_t n = (size_t)g_w * (size_t)g_h + 2 * (size_t)(g_w / 2) * (size_t)(g_h / 2);
    if (bps == 1)
        for (size_t i = 0; i < n; i++) dig_u16(d, buf[i]);
    else
        for (size_t i = 0; i < n; i++) dig_u16(d, (uint16_t)(buf[2 * i] | (buf[2 * i + 1] << 8)));
}

/* one get_packet call; returns 1 if a packet was received */
static int get_one_packet(int blocking) {
    EbBufferHeaderType *pkt = NULL;
    g_phase                 = blocking ? "get_packet_blocking" : "get_packet";
    EbErrorType rc          = svt_av1_enc_get_packet(g_h_enc, &pkt, (unsigned char)blocking);
    if (rc == EB_NoErrorEmptyQueue || !pkt)
        return 0;
    Dig d;
    dig_init(&d);
    if (pkt->p_buffer)
        dig_bytes(&d, pkt->p_buffer, pkt->n_filled_len);
    char hx[33];
    dig_hex(&d, hx);
    fprintf(g_ev,
            "{\"ev\":\"Packet\",\"i\":%d,\"rc\":%d,\"pts\":%lld,\"dts\":%lld,\"flags\":%u,\"pic_type\":%u,"
            "\"len\":%u,\"dig\":\"%s\",\"priv\":%lld,\"qp\":%u,\"sse\":[%u,%u,%u],\"after_send\":%d}\n",
            g_pkts, (int)rc, (long long)pkt->pts, (long long)pkt->dts, pkt->flags, pkt->pic_type, pkt->n_filled_len,
            hx, (long long)(intptr_t)pkt->p_app_private, pkt->qp, pkt->luma_sse, pkt->cb_sse, pkt->cr_sse, g_sent);
    if (g_pk && pkt->p_buffer) {
        put_u32(g_pk, pkt->n_filled_len);
        put_u64(g_pk, (uint64_t)pkt->pts);
        put_u32(g_pk, pkt->flags);
        put_u32(g_pk, pkt->pic_type);
        put_u32(g_pk, pkt->luma_sse);
        put_u32(g_pk, pkt->cb_sse);
        put_u32(g_pk, pkt->cr_sse);
        fwrite(pkt->p_buffer, 1, pkt->n_filled_len, g_pk);
    }
    long long a[6] = {g_pkts, pkt->pts, pkt->dts, pkt->flags, pkt->pic_type, pkt->n_filled_len};
    vrt_emit("app", NULL, "GetPacket", 6, a);
    g_pkts++;
    if (rc == EB_ErrorMax)
        g_err = 1;
    if (pkt->flags & EB_BUFFERFLAG_EOS)
        g_got_eos_pkt = 1;
    svt_av1_enc_release_out_buffer(&pkt);
    return 1;
}
static int get_one_recon(void) {
    if (!g_recon_on)
        return 0;
    g_phase        = "get_recon";
    EbErrorType rc = svt_av1_get_recon(g_h_enc, &g_recon_hdr);
    if (rc == EB_NoErrorEmptyQueue)
        return 0;
    if (rc == EB_ErrorMax && g_recon_hdr.n_filled_len == 0) {
        fprintf(g_ev, "{\"ev\":\"ReconError\",\"rc\":%d}\n", (int)rc);
        g_err = 1;
        return 0;
    }
    Dig d;
    digest_recon(g_recon_hdr.p_buffer, &d);
    char hx[33];
    dig_hex(&d, hx);
    fprintf(g_ev, "{\"ev\":\"Recon\",\"i\":%d,\"rc\":%d,\"pts\":%lld,\"flags\":%u,\"len\":%u,\"dig\":\"%s\",\"after_send\":%d}\n", g_recons,
            (int)rc, (long long)g_recon_hdr.pts, g_recon_hdr.flags, g_recon_hdr.n_filled_len, hx, g_sent);
    long long a[3] = {g_recons, g_recon_hdr.pts, g_recon_hdr.flags};
    vrt_emit("app", NULL, "GetRecon", 3, a);
    g_recons++;
    if (g_recon_hdr.flags & EB_BUFFERFLAG_EOS)
        g_got_eos_recon = 1;
    return 1;
}

int main(int argc, char **argv) {
    const char *out = NULL, *streams = "pipe,app", *policy = "each", *prefill = "00", *ptsmode = "seq";
    int         n = 10, timeout_s = 120, scribble = 0, stop_after = -1, trace_on = 0, send_eos = 1, hdr = 1;
    int         skip_init = 0;
    const char *stats_out = NULL, *stats_in = NULL;
    void *      stats_buf = NULL;
    uint32_t    pt_seed = 0;
    int         pt_pm = 0, pt_us = 0, pt_target = 0;
    unsigned long role_lo = 0, role_hi = 0;
    int           role_pm = 0, role_us = 0, role_where = 0;
    const char *sets[256];
    int         nsets = 0;
    g_w = 64, g_h = 64, g_bits = 8, g_kind = GV_MOTION, g_cseed = 1, g_pad_mode = 0;
    for (int i = 1; i < argc; i++) {
        const char *a = argv[i];
#define NEXT (i + 1 < argc ? argv[++i] : "")
        if (!strcmp(a, "--out")) out = NEXT;
        else if (!strcmp(a, "--trace")) { trace_on = 1; streams = NEXT; }
        else if (!strcmp(a, "-w")) g_w = atoi(NEXT);
        else if (!strcmp(a, "-h")) g_h = atoi(NEXT);
        else if (!strcmp(a, "-n")) n = atoi(NEXT);
        else if (!strcmp(a, "--bits")) g_bits = atoi(NEXT);
        else if (!strcmp(a, "--content")) g_kind = gv_kind(NEXT);
        else if (!strcmp(a, "--cseed")) g_cseed = (uint32_t)strtoul(NEXT, 0, 0);
        else if (!strcmp(a, "--set")) sets[nsets++] = NEXT;
        else if (!strcmp(a, "--policy")) policy = NEXT;
        else if (!strcmp(a, "--stride-extra")) { /* E  or  Y:CB:CR (independent strides for the three planes) */
            const char *v = NEXT;
            int         y = 0, cb = -1, cr = -1;
            if (sscanf(v, "%d:%d:%d", &y, &cb, &cr) == 3) g_stride_extra = y, g_stride_cb = cb, g_stride_cr = cr;
            else g_stride_extra = atoi(v) & ~1;
        }
        else if (!strcmp(a, "--pad")) { const char *v = NEXT; g_pad_mode = !strcmp(v, "rand") ? -1 : (int)strtol(v, 0, 0); }
        else if (!strcmp(a, "--scribble")) scribble = atoi(NEXT);
        else if (!strcmp(a, "--prefill")) prefill = NEXT;
        else if (!strcmp(a, "--slow-kernel")) { sscanf(NEXT, "%lx:%lx:%d:%d:%d", &role_lo, &role_hi, &role_pm, &role_us, &role_where); } /* code range of one kernel's thread function : permille : microseconds */
        else if (!strcmp(a, "--perturb")) { sscanf(NEXT, "%u:%d:%d:%d", &pt_seed, &pt_pm, &pt_us, &pt_target); }
        else if (!strcmp(a, "--pts")) ptsmode = NEXT;
        else if (!strcmp(a, "--stop-after")) stop_after = atoi(NEXT);
        else if (!strcmp(a, "--no-eos")) send_eos = 0;
        else if (!strcmp(a, "--no-header")) hdr = 0;
        else if (!strcmp(a, "--skip-init")) skip_init = 1;
        else if (!strcmp(a, "--stats-out")) stats_out = NEXT;   /* first pass: rc_firstpass_stats_out = 1, statistics written to this file */
        else if (!strcmp(a, "--stats-in")) stats_in = NEXT;     /* second pass: rc_twopass_stats_in read from this file */
        else if (!strcmp(a, "--timeout")) timeout_s = atoi(NEXT);
        else { fprintf(stderr, "unknown option %s\n", a); return 2; }
    }
    if (!out || g_kind < 0) { fprintf(stderr, "usage: enc_record --out PREFIX ...\n"); return 2; }
    char path[1024];
    snprintf(path, sizeof path, "%s.ev", out);
    g_ev = fopen(path, "w");
    snprintf(path, sizeof path, "%s.pkts", out);
    g_pk = fopen(path, "wb");
    if (!g_ev || !g_pk) return 2;
    if (trace_on) {
        snprintf(path, sizeof path, "%s.trc", out);
        if (vrt_trace_open(path, streams)) return 2;
    }
    signal(SIGALRM, on_alarm);
    g_alarm_period = (unsigned)timeout_s;
    alarm((unsigned)timeout_s);
    vrt_tid(); /* the application thread is thread 0 */
    if (pt_pm) { vrt_perturb_target(pt_target); vrt_perturb(pt_seed, pt_pm, pt_us); }
    if (role_hi) vrt_perturb_role_where(role_where), vrt_perturb_role((uintptr_t)role_lo, (uintptr_t)role_hi, role_pm, role_us);

    /* configuration memory with the requested prior contents */
    EbSvtAv1EncConfiguration *cfg = (EbSvtAv1EncConfiguration *)malloc(sizeof *cfg);
    if (!strcmp(prefill, "00")) memset(cfg, 0, sizeof *cfg);
    else if (!strcmp(prefill, "ff")) memset(cfg, 0xFF, sizeof *cfg);
    else if (!strcmp(prefill, "aa")) memset(cfg, 0xAA, sizeof *cfg);
    else if (!strncmp(prefill, "rand:", 5)) {
        uint32_t s = (uint32_t)strtoul(prefill + 5, 0, 0) | 1u;
        for (size_t i = 0; i < sizeof *cfg; i++) ((uint8_t *)cfg)[i] = (uint8_t)(rnd(&s) >> 11);
    } else if (!strcmp(prefill, "used")) {
        /* left over from another, non-default configuration */
        memset(cfg, 0, sizeof *cfg);
        for (size_t i = 0; i < CFG_NFIELDS; i++)
            if (cfg_fields[i].kind == 0)
                for (size_t k = 0; k < cfg_fields[i].count; k++) put_int(cfg, &cfg_fields[i], k, 3 + (long long)(i % 5));
    }
    int tasks0 = n_tasks();
    fprintf(g_ev, "{\"ev\":\"Begin\"}\n");
    fflush(g_ev);
    fflush(g_pk);
    if (vrt_ledger_start) vrt_ledger_start();
    g_phase        = "init_handle";
    EbErrorType rc = svt_av1_enc_init_handle(&g_h_enc, NULL, cfg);
    fprintf(g_ev, "{\"ev\":\"InitHandle\",\"rc\":%d}\n", (int)rc);
    if (rc != EB_ErrorNone) { fclose(g_ev); return 3; }
    dump_cfg(g_ev, "Defaults", cfg);
    cfg->source_width  = (uint32_t)g_w;
    cfg->source_height = (uint32_t)g_h;
    cfg->encoder_bit_depth = (uint32_t)g_bits;
    for (int i = 0; i < nsets; i++)
        if (apply_set(cfg, sets[i])) { fprintf(stderr, "bad --set %s\n", sets[i]); return 2; }
    if (stats_out)
        cfg->rc_firstpass_stats_out = EB_TRUE;
    if (stats_in) {
        FILE *sf = fopen(stats_in, "rb");
        if (!sf) { fprintf(stderr, "cannot read %s\n", stats_in); return 2; }
        fseek(sf, 0, SEEK_END);
        long ssz = ftell(sf);
        fseek(sf, 0, SEEK_SET);
        cfg->rc_twopass_stats_in.buf = malloc(ssz > 0 ? (size_t)ssz : 1);
        cfg->rc_twopass_stats_in.sz  = fread(cfg->rc_twopass_stats_in.buf, 1, (size_t)ssz, sf);
        stats_buf                    = cfg->rc_twopass_stats_in.buf;
        fclose(sf);
    }
    g_recon_on = (int)cfg->recon_enabled;
    dump_cfg(g_ev, "Cfg", cfg);
    fprintf(g_ev, "{\"ev\":\"Run\",\"w\":%d,\"h\":%d,\"bits\":%d,\"n\":%d,\"content\":\"%s\",\"cseed\":%u,\"policy\":\"%s\",\"stride_extra\":%d,\"pad\":%d,\"scribble\":%d,\"prefill\":\"%s\",\"perturb\":[%u,%d,%d]}\n",
            g_w, g_h, g_bits, n, gv_names[g_kind], g_cseed, policy, g_stride_extra, g_pad_mode, scribble, prefill, pt_seed, pt_pm, pt_us);
    g_phase = "set_parameter";
    rc      = svt_av1_enc_set_parameter(g_h_enc, cfg);
    fprintf(g_ev, "{\"ev\":\"SetParameter\",\"rc\":%d}\n", (int)rc);
    fflush(g_ev);
    if (rc != EB_ErrorNone) {
        g_phase = "deinit_handle";
        rc      = svt_av1_enc_deinit_handle(g_h_enc);
        fprintf(g_ev, "{\"ev\":\"DeinitHandle\",\"rc\":%d}\n", (int)rc);
        fclose(g_ev);
        vrt_trace_close();
        return 4;
    }
    if (!skip_init) {
        g_phase = "init";
        rc      = svt_av1_enc_init(g_h_enc);
        fprintf(g_ev, "{\"ev\":\"Init\",\"rc\":%d}\n", (int)rc);
        fflush(g_ev);
        if (rc != EB_ErrorNone) {
            svt_av1_enc_deinit(g_h_enc);
            svt_av1_enc_deinit_handle(g_h_enc);
            fclose(g_ev);
            vrt_trace_close();
            return 5;
        }
    }
    if (hdr && !skip_init) {
        EbBufferHeaderType *sh = NULL;
        g_phase                = "stream_header";
        rc                     = svt_av1_enc_stream_header(g_h_enc, &sh);
        if (rc == EB_ErrorNone && sh) {
            Dig d;
            dig_init(&d);
            dig_bytes(&d, sh->p_buffer, sh->n_filled_len);
            char hx[33];
            dig_hex(&d, hx);
            fprintf(g_ev, "{\"ev\":\"StreamHeader\",\"rc\":%d,\"len\":%u,\"dig\":\"%s\",\"hex\":\"", (int)rc, sh->n_filled_len, hx);
            for (uint32_t i = 0; i < sh->n_filled_len; i++) fprintf(g_ev, "%02x", sh->p_buffer[i]);
            fprintf(g_ev, "\"}\n");
            svt_av1_enc_stream_header_release(sh);
        } else
            fprintf(g_ev, "{\"ev\":\"StreamHeader\",\"rc\":%d,\"len\":0}\n", (int)rc);
    }
    /* recon buffer */
    size_t recon_sz       = ((size_t)g_w * (size_t)g_h * 3 / 2 + 64) * (g_bits > 8 ? 2 : 1);
    memset(&g_recon_hdr, 0, sizeof g_recon_hdr);
    g_recon_hdr.size        = sizeof(EbBufferHeaderType);
    g_recon_hdr.p_buffer    = (uint8_t *)malloc(recon_sz);
    g_recon_hdr.n_alloc_len = (uint32_t)recon_sz;

    /* policy */
    int      every = 0;
    uint32_t prng  = 1;
    if (!strncmp(policy, "every:", 6)) every = atoi(policy + 6);
    if (!strncmp(policy, "random:", 7)) prng = (uint32_t)strtoul(policy + 7, 0, 0) * 2654435761u | 1u;

    Pic pic;
    memset(&pic, 0, sizeof pic);
    pic_alloc(&pic);
    int nsend = (stop_after >= 0 && stop_after < n) ? stop_after : n;
    for (int k = 0; k < nsend && !skip_init; k++) {
        if (scribble == 2 && k) { pic_free(&pic); pic_alloc(&pic); }
        pic_fill(&pic, k);
        memset(&pic.hdr, 0, sizeof pic.hdr);
        pic.hdr.size          = sizeof(EbBufferHeaderType);
        pic.hdr.p_buffer      = (uint8_t *)&pic.io;
        pic.hdr.n_filled_len  = (uint32_t)(pic.sz[0] + pic.sz[1] + pic.sz[2]);
        pic.hdr.n_alloc_len   = pic.hdr.n_filled_len;
        pic.hdr.p_app_private = (void *)(intptr_t)(k + 1);
        pic.hdr.pic_type      = EB_AV1_INVALID_PICTURE;
        long long pts = k;
        if (!strcmp(ptsmode, "x3")) pts = 1000 + 3LL * k;
        else if (!strcmp(ptsmode, "dup")) pts = k / 2;
        else if (!strcmp(ptsmode, "dec")) pts = 100000 - 7LL * k;
        else if (!strcmp(ptsmode, "big")) pts = 0x123456789LL + 90000LL * k;
        pic.hdr.pts = pts;
        g_phase     = "send_picture";
        long long a[3] = {k, pts, k + 1};
        vrt_emit("app", NULL, "Send", 3, a);
        rc = svt_av1_enc_send_picture(g_h_enc, &pic.hdr);
        g_sent++;
        fprintf(g_ev, "{\"ev\":\"Send\",\"k\":%d,\"pts\":%lld,\"priv\":%d,\"rc\":%d}\n", k, pts, k + 1, (int)rc);
        if (scribble) pic_scribble(&pic, (uint32_t)k * 31u + 7u);
        /* retrieval between sends */
        int mode; /* 0 none, 1 drain all, 2 one */
        if (!strcmp(policy, "each")) mode = 1;
        else if (!strcmp(policy, "none")) mode = 0;
        else if (every) mode = ((k + 1) % every == 0) ? 1 : 0;
        else if (!strncmp(policy, "random:", 7)) mode = (int)(rnd(&prng) % 3u);
        else mode = 1;
        if (mode == 1) {
            while (get_one_packet(0)) {}
            while (get_one_recon()) {}
        } else if (mode == 2) {
            get_one_packet(0);
            get_one_recon();
        }
        if (!strncmp(policy, "random:", 7) && (rnd(&prng) % 5u) == 0) usleep(rnd(&prng) % 3000u);
    }
    int drained = 0;
    if (!skip_init && send_eos && stop_after < 0) {
        EbBufferHeaderType eos;
        memset(&eos, 0, sizeof eos);
        eos.size     = sizeof eos;
        eos.flags    = EB_BUFFERFLAG_EOS;
        eos.pic_type = EB_AV1_INVALID_PICTURE;
        g_phase      = "send_eos";
        vrt_emit("app", NULL, "SendEos", 0, NULL);
        rc = svt_av1_enc_send_picture(g_h_enc, &eos);
        fprintf(g_ev, "{\"ev\":\"SendEos\",\"rc\":%d}\n", (int)rc);
        fflush(g_ev);
        /* drain: alternate so that neither output pool can fill up while the other is being waited on */
        if (n > 0) {
            while (!g_got_eos_pkt || (g_recon_on && !g_got_eos_recon)) {
                int got = 0;
                if (!g_got_eos_pkt) got |= get_one_packet(g_recon_on ? 0 : 1);
                if (g_recon_on && !g_got_eos_recon) got |= get_one_recon();
                if (!got) usleep(200);
            }
            /* nothing may follow the EOS packet: poll a little */
            g_phase = "post_eos_poll";
            for (int i = 0; i < 20; i++) {
                if (get_one_packet(0)) fprintf(g_ev, "{\"ev\":\"PacketAfterEos\"}\n");
                if (get_one_recon()) fprintf(g_ev, "{\"ev\":\"ReconAfterEos\"}\n");
                usleep(100);
            }
        }
        drained = 1;
    }
    if (stats_out && drained) {
        SvtAv1FixedBuf fp;
        memset(&fp, 0, sizeof fp);
        g_phase        = "get_stream_info";
        EbErrorType sr = svt_av1_enc_get_stream_info(g_h_enc, SVT_AV1_STREAM_INFO_FIRST_PASS_STATS_OUT, &fp);
        fprintf(g_ev, "{\"ev\":\"FirstPassStats\",\"rc\":%d,\"size\":%llu}\n", (int)sr, (unsigned long long)fp.sz);
        if (sr == EB_ErrorNone && fp.buf) {
            FILE *sf = fopen(stats_out, "wb");
            if (sf) {
                fwrite(fp.buf, 1, (size_t)fp.sz, sf);
                fclose(sf);
            }
        }
    }
    fprintf(g_ev, "{\"ev\":\"Drained\",\"ok\":%d,\"sent\":%d,\"pkts\":%d,\"recons\":%d,\"err\":%d}\n", drained, g_sent, g_pkts, g_recons, g_err);
    fflush(g_ev);
    fflush(g_pk);
    if (!skip_init) {
        g_phase = "deinit";
        vrt_emit("app", NULL, "Deinit", 0, NULL);
        rc = svt_av1_enc_deinit(g_h_enc);
        fprintf(g_ev, "{\"ev\":\"Deinit\",\"rc\":%d}\n", (int)rc);
        fflush(g_ev);
    }
    g_phase = "deinit_handle";
    rc      = svt_av1_enc_deinit_handle(g_h_enc);
    fprintf(g_ev, "{\"ev\":\"DeinitHandle\",\"rc\":%d}\n", (int)rc);
    vrt_emit("app", NULL, "DeinitHandle", 0, NULL);
    pic_free(&pic);
    free(g_recon_hdr.p_buffer);
    free(cfg);
    if (vrt_ledger_get) {
        VrtLedger L;
        vrt_ledger_stop();
        usleep(2000);
        vrt_ledger_get(&L);
        fprintf(g_ev, "{\"ev\":\"Ledger\",\"mem\":%ld,\"mutex\":%ld,\"sem\":%ld,\"thread\":%ld,\"tasks_before\":%d,\"tasks_after\":%d}\n", L.mem,
                L.mutex, L.sem, L.thread, tasks0, n_tasks());
        if (L.mem || L.mutex || L.sem || L.thread) vrt_ledger_dump(g_ev, 10);
    }
    fclose(g_ev);
    fclose(g_pk);
    free(stats_buf); /* the recorder's own copy of the first-pass statistics */
    vrt_trace_close();
    return g_err ? 6 : 0;
}
