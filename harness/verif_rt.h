/* Runtime shared by all /verif harnesses: event tracer, schedule perturbation, resource ledger and
 * fault injection (link-time interposition with -Wl,--wrap=...). */
#ifndef VERIF_RT_H
#define VERIF_RT_H
#include <stdint.h>
#include <stdio.h>
#ifdef __cplusplus
extern "C" {
/* Timeout discrimination.  Called from a SIGALRM handler with the period that just expired: returns 1 (and re-arms
 * alarm(period)) while some OTHER thread of the process is runnable or in disk wait -- the run is slow or starved of
 * CPU, not stuck -- up to `max_extensions` times; returns 0 when every other thread sleeps in two looks 300 ms apart
 * (deadlock / lost wake-up) or the extensions are used up (livelock): only then is the timeout an observation. */
int vrt_alarm_should_wait(unsigned period_s, int max_extensions);
#endif

/* ---- tracer ---- */
/* Opens the trace file and installs the emit function into the library (svt_verif_set_tracer).
 * streams: comma separated list of stream names to record ("srm,seg,pipe"), NULL = all. */
int  vrt_trace_open(const char *path, const char *streams);
void vrt_trace_close(void);
/* application-level event (same format, same global sequence) */
void vrt_emit(const char *stream, const void *obj, const char *ev, int nargs, const long long *args);
void vrt_note(const char *fmt, ...); /* free-form "#" comment line in the trace */
int  vrt_tid(void);
void vrt_set_tid(int t); /* harness threads may choose a small stable id (e.g. worker index) */

/* ---- schedule perturbation (effective only when the sync wrappers are linked) ---- */
void vrt_perturb(uint32_t seed, int permille, int max_usleep); /* permille=0 disables */
void vrt_perturb_target(int target);
void vrt_trace_jitter(unsigned seed, int permille, int max_us); /* random sleeps of the emitting thread after trace events */
void vrt_perturb_role_where(int where); /* 0 (default): delay after each semaphore wait; 1: after each semaphore post */
void vrt_perturb_role(uintptr_t lo, uintptr_t hi, int permille, int usleep_us); /* delay only the threads whose stack contains code in [lo,hi) after each semaphore wait */ /* 0 = all threads, 1 = only the thread that first used the runtime (the application thread), 2 = all others */

/* ---- ledger / fault injection (effective only when the alloc wrappers are linked) ---- */
typedef struct VrtLedger {
    long mem, mutex, sem, thread;        /* currently outstanding, created while tracking */
    long n_alloc_calls;                  /* fallible calls seen while tracking/counting */
    long double_free, foreign_free;
} VrtLedger;
void vrt_ledger_start(void);             /* start tracking (clears the table) */
void vrt_ledger_stop(void);
void vrt_ledger_get(VrtLedger *out);
void vrt_ledger_dump(FILE *f, int max);  /* list outstanding entries with call sites */
/* fail the k-th (1-based) fallible call issued from now on by the calling thread's process;
 * k = 0 disables. Counter restarts at every call of this function. */
void vrt_fail_at(long k);
long vrt_fail_count(void);               /* fallible calls counted since vrt_fail_at */
int  vrt_fail_fired(void);
void *vrt_fail_site(void);               /* return address of the failed call */
void vrt_site_log_start(void);           /* record the return address of every fallible call from now on (indexed by K) */
void vrt_site_log_dump(FILE *f, int per); /* "site <addr> <count> <K...>": up to `per` indices spread over each distinct site */

#ifdef __cplusplus
}
#endif
#endif
