/* Direction A for C24: drive the REAL enc_dec_segments_init and assign_enc_dec_segments (with a real
 * system resource as feedback FIFO) over every grid W<=maxW, H<=maxH, requested segment grid SC<=W,
 * SR<=H (and ctor row caps), with K worker threads under seeded schedule perturbation.  The hooks of the
 * library emit the table / assignment events; this harness emits the SbStart/SbEnd events with a
 * transcription of the kernel's superblock loop (the kernel's own loop is bound by real-encode traces).
 * The resulting trace is validated by specs/EncDecSegTrace.tla.
 *
 * usage: seg_replay <trace> <seed> <maxW> <maxH> <workers> [capMode]
 */
#define _GNU_SOURCE
#include <pthread.h>
#include <stdio.h>
#include <stdlib.h>
#include <string.h>
#include <unistd.h>
#include "EbEncDecSegments.h"
#include "EbEncDecTasks.h"
#include "EbSystemResourceManager.h"
#include "verif_rt.h"

extern EbBool assign_enc_dec_segments(EncDecSegments *segmentPtr, uint16_t *segmentInOutIndex, EncDecTasks *taskPtr,
                                      EbFifo *srmFifoPtr);

static EncDecSegments *  g_seg;
static EbSystemResource *g_tasks;
static int               g_w;
static volatile int      g_sb_done, g_sb_total, g_stop;

static void process_segment(EncDecSegments *s, uint16_t seg) {
    unsigned x_start = s->x_start_array[seg], y_start = s->y_start_array[seg];
    unsigned cnt = s->valid_sb_count_array[seg];
    unsigned row = seg / s->segment_band_count, band = seg - row * s->segment_band_count;
    unsigned band_size = (s->sb_band_count * (band + 1) + s->segment_band_count - 1) / s->segment_band_count;
    unsigned i = 0;
    for (unsigned y = y_start; i < cnt && y < 4096; ++y) {
        for (unsigned x = x_start; x < (unsigned)g_w && (x + y < band_size) && i < cnt; ++x, ++i) {
            long long a[3] = {seg, x, y};
            vrt_emit("seg", s, "SbStart", 3, a);
            sched_yield();
            vrt_emit("seg", s, "SbEnd", 3, a);
            __sync_fetch_and_add(&g_sb_done, 1);
        }
        x_start = (x_start > 0) ? x_start - 1 : 0;
    }
}

typedef struct WArg {
    int idx;
} WArg;

static void *worker(void *a_) {
    WArg *  a       = (WArg *)a_;
    vrt_set_tid(a->idx + 1);
    EbFifo *in_fifo = svt_system_resource_get_consumer_fifo(g_tasks, a->idx);
    EbFifo *fb_fifo = svt_system_resource_get_producer_fifo(g_tasks, 1 + a->idx);
    for (;;) {
        EbObjectWrapper *w = NULL;
        if (svt_get_full_object(in_fifo, &w) == EB_NoErrorFifoShutdown || !w)
            break;
        EncDecTasks *task = (EncDecTasks *)w->object_ptr;
        uint16_t     seg  = 0;
        while (assign_enc_dec_segments(g_seg, &seg, task, fb_fifo) == EB_TRUE) process_segment(g_seg, seg);
        svt_release_object(w);
    }
    return NULL;
}

int main(int argc, char **argv) {
    if (argc < 6)
        return 2;
    uint32_t seed = (uint32_t)strtoul(argv[2], 0, 0);
    int      maxw = atoi(argv[3]), maxh = atoi(argv[4]), nw = atoi(argv[5]);
    int      capmode = argc > 6 ? atoi(argv[6]) : 0;
    if (vrt_trace_open(argv[1], "seg"))
        return 2;
    vrt_perturb(seed, 300, 30);
    alarm(240);
    int grids = 0;
    for (int W = 1; W <= maxw; W++)
        for (int H = 1; H <= maxh; H++)
            for (int SC = 1; SC <= W; SC++)
                for (int SR = 1; SR <= H; SR++) {
                    /* the constructor caps the number of segment rows (segment_max_row_count) */
                    int cap_rows = capmode ? (SR > 1 ? SR - 1 : 1) : SR, cap_cols = SC;
                    EncDecSegments *s = (EncDecSegments *)calloc(1, sizeof(*s));
                    if (enc_dec_segments_ctor(s, (uint32_t)cap_cols, (uint32_t)cap_rows) != EB_ErrorNone)
                        return 3;
                    EncDecTasksInitData idata = {(unsigned)cap_rows};
                    EbSystemResource *  res   = (EbSystemResource *)calloc(1, sizeof(*res));
                    if (svt_system_resource_ctor(res, (uint32_t)(H + 2), (uint32_t)(nw + 1), (uint32_t)nw, enc_dec_tasks_creator,
                                                 &idata, NULL) != EB_ErrorNone)
                        return 3;
                    g_seg = s, g_tasks = res, g_w = W, g_sb_done = 0, g_sb_total = W * H;
                    enc_dec_segments_init(s, (uint32_t)SC, (uint32_t)SR, (uint32_t)W, (uint32_t)H);
                    pthread_t th[16];
                    WArg      wa[16];
                    for (int i = 0; i < nw; i++) {
                        wa[i].idx = i;
                        pthread_create(&th[i], NULL, worker, &wa[i]);
                    }
                    /* the MDC task that starts the picture */
                    EbObjectWrapper *w = NULL;
                    svt_get_empty_object(svt_system_resource_get_producer_fifo(res, 0), &w);
                    EncDecTasks *t         = (EncDecTasks *)w->object_ptr;
                    t->input_type          = ENCDEC_TASKS_MDC_INPUT;
                    t->enc_dec_segment_row = 0;
                    t->tile_group_index    = 0;
                    t->pcs_wrapper_ptr     = NULL;
                    svt_post_full_object(w);
                    /* wait for completion (or give up: the trace then lacks EndSeg and is rejected) */
                    int spins = 0, completed = 1;
                    while (g_sb_done < g_sb_total) {
                        usleep(50);
                        if (++spins > 40000) {
                            completed = 0;
                            break;
                        }
                    }
                    usleep(20);
                    svt_shutdown_process(res);
                    for (int i = 0; i < nw; i++) pthread_join(th[i], NULL);
                    if (completed)
                        vrt_emit("seg", s, "EndSeg", 0, NULL);
                    else
                        vrt_emit("seg", s, "Stuck", 0, NULL);
                    res->dctor(res);
                    free(res);
                    s->dctor(s);
                    free(s);
                    grids++;
                }
    vrt_trace_close();
    printf("grids=%d\n", grids);
    return 0;
}
