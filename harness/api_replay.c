/* Direction A for C14 / C15 / C16: executes one call program (generated from the state graph of
 * specs/Api.tla) against the real encoder library, one call per line of the program file, and reports
 * the outcome class of every call, crashes, calls that do not return, and -- through the link-time
 * ledger -- what is still allocated after teardown.
 *
 * usage: api_replay <program-file> <out-ndjson> [--lp N] [--fail callIndex:k] [--count callIndex] [--frames-w W]
 * Teardown (deinit ; deinit_handle) is appended automatically when the program leaves a handle alive.
 */
#define _GNU_SOURCE
#include <dirent.h>
#include <signal.h>
#include <stdio.h>
#include <stdlib.h>
#include <string.h>
#include <unistd.h>
#include "EbSvtAv1Enc.h"
#include "EbSvtAv1ErrorCodes.h"
#include "verif_rt.h"

static FILE *      g_out;
static const char *g_cur = "-";
static int         g_idx = -1;

static int n_tasks(void) {
    DIR *d = opendir("/proc/self/task");
    int  n = 0;
    if (!d)
        return -1;
    struct dirent *e;
    while ((e = readdir(d)))
        if (e->d_name[0] != '.')
            n++;
    closedir(d);
    return n;
}

static void on_sig(int sig) {
    if (sig == SIGALRM && vrt_alarm_should_wait(20, 12))
        return; /* slow or starved, not stuck: keep waiting (bounded) */
    if (g_out) {
        fprintf(g_out, "{\"ev\":\"%s\",\"sig\":%d,\"call\":\"%s\",\"idx\":%d,\"site\":\"%p\"}\n", sig == SIGALRM ? "Blocked" : "Crash", sig, g_cur, g_idx,
                vrt_fail_site());
        fflush(g_out);
    }
    _exit(sig == SIGALRM ? 124 : 139);
}

static const char *cls(EbErrorType rc) {
    if (rc == EB_ErrorNone)
        return "ok";
    if (rc == EB_NoErrorEmptyQueue)
        return "empty";
    return "err";
}

static EbComponentType *         H;
static EbSvtAv1EncConfiguration  CFG;
static EbBufferHeaderType *      HDR;
static int                       g_lp = 2, g_w = 64, g_h = 64;
static uint8_t *                 g_pix;

static void fill_valid(EbSvtAv1EncConfiguration *c) {
    c->source_width       = (uint32_t)g_w;
    c->source_height      = (uint32_t)g_h;
    c->enc_mode           = 8;
    c->logical_processors = (uint32_t)g_lp;
    c->encoder_bit_depth  = 8;
}

static EbErrorType do_send(EbComponentType *h, int null_buf, int eos) {
    static EbBufferHeaderType hd;
    static EbSvtIOFormat      io;
    if (null_buf)
        return svt_av1_enc_send_picture(h, NULL);
    memset(&hd, 0, sizeof hd);
    hd.size = sizeof hd;
    if (eos) {
        hd.flags    = EB_BUFFERFLAG_EOS;
        hd.pic_type = EB_AV1_INVALID_PICTURE;
        return svt_av1_enc_send_picture(h, &hd);
    }
    memset(&io, 0, sizeof io);
    io.luma = g_pix, io.cb = g_pix + g_w * g_h, io.cr = g_pix + g_w * g_h * 5 / 4;
    io.y_stride = (uint32_t)g_w, io.cb_stride = io.cr_stride = (uint32_t)g_w / 2;
    io.width = (uint32_t)g_w, io.height = (uint32_t)g_h;
    io.color_fmt = EB_YUV420, io.bit_depth = EB_EIGHT_BIT;
    hd.p_buffer     = (uint8_t *)&io;
    hd.n_filled_len = (uint32_t)(g_w * g_h * 3 / 2);
    hd.pic_type     = EB_AV1_INVALID_PICTURE;
    static int64_t pts;
    hd.pts = pts++;
    return svt_av1_enc_send_picture(h, &hd);
}

int main(int argc, char **argv) {
    if (argc < 3)
        return 2;
    int  fail_idx = -1, count_idx = -1, repeat = 1, sites_per = 0;
    long fail_k = 0;
    for (int i = 3; i < argc; i++) {
        if (!strcmp(argv[i], "--lp") && i + 1 < argc) g_lp = atoi(argv[++i]);
        else if (!strcmp(argv[i], "--fail") && i + 1 < argc) sscanf(argv[++i], "%d:%ld", &fail_idx, &fail_k);
        else if (!strcmp(argv[i], "--count") && i + 1 < argc) count_idx = atoi(argv[++i]);
        else if (!strcmp(argv[i], "--sites") && i + 1 < argc) sites_per = atoi(argv[++i]);
        else if (!strcmp(argv[i], "--size") && i + 1 < argc) sscanf(argv[++i], "%dx%d", &g_w, &g_h);
        else if (!strcmp(argv[i], "--repeat") && i + 1 < argc) repeat = atoi(argv[++i]);
    }
    FILE *pf = fopen(argv[1], "r");
    g_out    = fopen(argv[2], "w");
    if (!pf || !g_out)
        return 2;
    signal(SIGSEGV, on_sig), signal(SIGBUS, on_sig), signal(SIGABRT, on_sig), signal(SIGFPE, on_sig), signal(SIGALRM, on_sig);
    int tasks0 = n_tasks();
    static char prog[64][256];
    int         nprog = 0;
    while (nprog < 64 && fgets(prog[nprog], 256, pf)) {
        prog[nprog][strcspn(prog[nprog], "\n")] = 0;
        if (!prog[nprog][0])
            break;
        nprog++;
    }
    fclose(pf);
    int  destroyed = 0, deinited = 0, had_init = 0;
    EbBufferHeaderType recon;
    memset(&recon, 0, sizeof recon);
    recon.size        = sizeof recon;
    recon.p_buffer    = malloc(64 * 64 * 3);
    recon.n_alloc_len = 64 * 64 * 3;
    g_pix             = malloc((size_t)g_w * g_h * 3 / 2);
    for (int i = 0; i < g_w * g_h * 3 / 2; i++) g_pix[i] = (uint8_t)(i * 7 + (i >> 6));
    fprintf(g_out, "{\"ev\":\"Start\",\"calls\":%d}\n", nprog);
    fflush(g_out);
    /* everything the harness itself allocates exists now: start the ledger */
    vrt_ledger_start();
    int idx = 0;
  for (int rep = 0; rep < repeat; rep++) {
    destroyed = deinited = 0;
    for (idx = 0; idx < nprog; idx++) {
        char *line = prog[idx];
        g_cur = line, g_idx = idx;
        EbErrorType rc = EB_ErrorNone;
        const char *c  = line;
        int         extra = -1;
        if (idx == fail_idx)
            vrt_fail_at(fail_k);
        else if (idx == count_idx) {
            vrt_fail_at(0);
            if (sites_per)
                vrt_site_log_start();
        }
        alarm(20);
        if (!strcmp(c, "init_handle(&h,cfg)")) rc = svt_av1_enc_init_handle(&H, NULL, &CFG);
        else if (!strcmp(c, "init_handle(NULL,cfg)")) rc = svt_av1_enc_init_handle(NULL, NULL, &CFG);
        else if (!strcmp(c, "set_parameter(h,valid)")) { fill_valid(&CFG); CFG.encoder_bit_depth = 8; rc = svt_av1_enc_set_parameter(H, &CFG); }
        else if (!strcmp(c, "set_parameter(h,invalid)")) { fill_valid(&CFG); CFG.encoder_bit_depth = 9; rc = svt_av1_enc_set_parameter(H, &CFG); CFG.encoder_bit_depth = 8; }
        else if (!strcmp(c, "set_parameter(h,NULL)")) rc = svt_av1_enc_set_parameter(H, NULL);
        else if (!strcmp(c, "set_parameter(NULL,cfg)")) rc = svt_av1_enc_set_parameter(NULL, &CFG);
        else if (!strcmp(c, "init(h)")) { rc = svt_av1_enc_init(H); had_init = 1; }
        else if (!strcmp(c, "init(NULL)")) rc = svt_av1_enc_init(NULL);
        else if (!strcmp(c, "stream_header(h,&p)")) {
            EbBufferHeaderType *p = NULL;
            rc                    = svt_av1_enc_stream_header(H, &p);
            if (p && HDR) svt_av1_enc_stream_header_release(p); /* the harness keeps one header at most */
            else if (p) HDR = p;
        }
        else if (!strcmp(c, "stream_header(h,NULL)")) rc = svt_av1_enc_stream_header(H, NULL);
        else if (!strcmp(c, "stream_header(NULL,&p)")) { EbBufferHeaderType *p = NULL; rc = svt_av1_enc_stream_header(NULL, &p); }
        else if (!strcmp(c, "stream_header_release(p)")) { rc = svt_av1_enc_stream_header_release(HDR); HDR = NULL; }
        else if (!strcmp(c, "stream_header_release(NULL)")) rc = svt_av1_enc_stream_header_release(NULL);
        else if (!strcmp(c, "send_picture(h,pic)")) rc = do_send(H, 0, 0);
        else if (!strcmp(c, "send_picture(h,eos)")) rc = do_send(H, 0, 1);
        else if (!strcmp(c, "send_picture(h,NULL)")) rc = do_send(H, 1, 0);
        else if (!strcmp(c, "send_picture(NULL,pic)")) rc = do_send(NULL, 0, 0);
        else if (!strcmp(c, "get_packet(h,&p,0)")) {
            EbBufferHeaderType *p = NULL;
            rc                    = svt_av1_enc_get_packet(H, &p, 0);
            if (p && rc != EB_NoErrorEmptyQueue) svt_av1_enc_release_out_buffer(&p);
        } else if (!strcmp(c, "get_packet(h,NULL,0)")) rc = svt_av1_enc_get_packet(H, NULL, 0);
        else if (!strcmp(c, "get_packet(NULL,&p,0)")) { EbBufferHeaderType *p = NULL; rc = svt_av1_enc_get_packet(NULL, &p, 0); }
        else if (!strcmp(c, "drain_packets(h)")) {
            int n = 0;
            for (;;) {
                EbBufferHeaderType *p = NULL;
                alarm(20);
                rc = svt_av1_enc_get_packet(H, &p, 1);
                if (rc != EB_ErrorNone || !p) break;
                n++;
                int e = p->flags & EB_BUFFERFLAG_EOS;
                svt_av1_enc_release_out_buffer(&p);
                if (e) break;
            }
            extra = n;
        } else if (!strcmp(c, "release_out_buffer(NULL)")) { svt_av1_enc_release_out_buffer(NULL); rc = EB_ErrorNone; }
        else if (!strcmp(c, "get_recon(h,buf)")) rc = svt_av1_get_recon(H, &recon);
        else if (!strcmp(c, "get_recon(h,NULL)")) rc = svt_av1_get_recon(H, NULL);
        else if (!strcmp(c, "get_recon(NULL,buf)")) rc = svt_av1_get_recon(NULL, &recon);
        else if (!strcmp(c, "deinit(h)")) { rc = svt_av1_enc_deinit(H); deinited = 1; }
        else if (!strcmp(c, "deinit(NULL)")) rc = svt_av1_enc_deinit(NULL);
        else if (!strcmp(c, "deinit_handle(h)")) { rc = svt_av1_enc_deinit_handle(H); destroyed = 1; H = NULL; }
        else if (!strcmp(c, "deinit_handle(NULL)")) rc = svt_av1_enc_deinit_handle(NULL);
        else { fprintf(g_out, "{\"ev\":\"BadProgram\",\"call\":\"%s\"}\n", c); return 2; }
        alarm(0);
        long cnt   = (idx == fail_idx || idx == count_idx) ? vrt_fail_count() : -1;
        int  fired = idx == fail_idx ? vrt_fail_fired() : 0;
        void *site = idx == fail_idx ? vrt_fail_site() : NULL;
        if (idx == count_idx && sites_per)
            vrt_site_log_dump(g_out, sites_per);
        if (idx == fail_idx || idx == count_idx) vrt_fail_at(0);
        fprintf(g_out, "{\"ev\":\"Call\",\"idx\":%d,\"call\":\"%s\",\"rc\":%d,\"class\":\"%s\",\"n\":%d,\"fallible\":%ld,\"fired\":%d,\"handle\":%d,\"site\":\"%p\"}\n", idx, c,
                (int)rc, cls(rc), extra, cnt, fired, H != NULL, site);
        fflush(g_out);
        if (!strcmp(c, "init_handle(&h,cfg)") && rc != EB_ErrorNone) H = NULL;
    }
    /* teardown from wherever the program stopped */
    if (H && !destroyed) {
        if (!deinited) {
            g_cur = "deinit(h) [auto]", g_idx = idx;
            alarm(30);
            EbErrorType rc = svt_av1_enc_deinit(H);
            alarm(0);
            fprintf(g_out, "{\"ev\":\"Call\",\"idx\":%d,\"call\":\"deinit(h)\",\"rc\":%d,\"class\":\"%s\",\"auto\":1}\n", idx++, (int)rc, cls(rc));
            fflush(g_out);
        }
        g_cur = "deinit_handle(h) [auto]", g_idx = idx;
        alarm(30);
        EbErrorType rc = svt_av1_enc_deinit_handle(H);
        alarm(0);
        fprintf(g_out, "{\"ev\":\"Call\",\"idx\":%d,\"call\":\"deinit_handle(h)\",\"rc\":%d,\"class\":\"%s\",\"auto\":1}\n", idx++, (int)rc, cls(rc));
        H = NULL;
    }
    if (repeat > 1) {
        VrtLedger Lr;
        vrt_ledger_get(&Lr);
        fprintf(g_out, "{\"ev\":\"Cycle\",\"rep\":%d,\"mem\":%ld,\"mutex\":%ld,\"sem\":%ld,\"thread\":%ld,\"tasks\":%d}\n", rep, Lr.mem, Lr.mutex, Lr.sem,
                Lr.thread, n_tasks());
    }
  }
    if (HDR) { svt_av1_enc_stream_header_release(HDR); HDR = NULL; }
    (void)had_init;
    vrt_ledger_stop();
    VrtLedger L;
    vrt_ledger_get(&L);
    usleep(2000);
    fprintf(g_out, "{\"ev\":\"Ledger\",\"mem\":%ld,\"mutex\":%ld,\"sem\":%ld,\"thread\":%ld,\"tasks_before\":%d,\"tasks_after\":%d}\n", L.mem, L.mutex,
            L.sem, L.thread, tasks0, n_tasks());
    if (L.mem || L.mutex || L.sem || L.thread)
        vrt_ledger_dump(g_out, 12);
    fprintf(g_out, "{\"ev\":\"End\"}\n");
    fclose(g_out);
    free(recon.p_buffer);
    return 0;
}
