"""Shared machinery for /verif checks: builds, TLC runs, trace conversion, evidence, findings.

Stdlib only (system python3)."""
import atexit
import hashlib
import json
import os
import re
import shutil
import signal
import subprocess
import sys
import time

ROOT = os.path.dirname(os.path.dirname(os.path.abspath(__file__)))
REPO = os.environ.get("VERIF_REPO", "/repo")
BUILD = os.environ.get("VERIF_BUILD", os.path.join(ROOT, ".build"))   # (VERIF_REPO / VERIF_BUILD: judge another checkout, e.g. one with a seeded change, without touching /repo)
SPECS = os.path.join(ROOT, "specs")
HARNESS = os.path.join(ROOT, "harness")
REPLAYS = os.path.join(ROOT, "replays")
NCPU = os.cpu_count() or 4

_tmp = None


def tmpdir():
    """Scratch directory under /verif/.build/tmp/<pid>, removed at exit."""
    global _tmp
    if _tmp is None:
        _tmp = os.path.join(BUILD, "tmp", str(os.getpid()))
        os.makedirs(_tmp, exist_ok=True)
        atexit.register(lambda: shutil.rmtree(_tmp, ignore_errors=True))
    return _tmp


class ModelFailure(Exception):
    """Infrastructure failure (TLC crashed, build failed, ...): never a property verdict."""


def log(*a):
    print(*a, flush=True)


def sh(cmd, timeout=None, env=None, cwd=None, stdin=None):
    """Run a command (list), return (rc, stdout+stderr). rc = -9 on timeout (whole group killed)."""
    e = dict(os.environ)
    if env:
        e.update(env)
    p = subprocess.Popen(cmd, stdout=subprocess.PIPE, stderr=subprocess.STDOUT, env=e, cwd=cwd,
                         stdin=subprocess.DEVNULL if stdin is None else stdin,
                         start_new_session=True)
    try:
        out, _ = p.communicate(timeout=timeout)
        return p.returncode, out.decode("utf-8", "replace")
    except subprocess.TimeoutExpired:
        try:
            os.killpg(p.pid, signal.SIGKILL)
        except ProcessLookupError:
            pass
        out, _ = p.communicate()
        return -9, out.decode("utf-8", "replace")


# --------------------------------------------------------------------------------------------
# builds of /repo's current working tree (out of tree, nothing is written into /repo)

VARIANTS = {
    # name: (build type, c flags, linker flags)
    "hooks": ("Release", "-DSVT_AV1_VERIF -g1", ""),
    "asan": ("Release",
             "-DSVT_AV1_VERIF -g1 -fsanitize=address,undefined -fno-sanitize-recover=undefined "
             "-fno-omit-frame-pointer -fno-sanitize=alignment,shift-base,shift-exponent",
             "-fsanitize=address,undefined"),
    # ASan stops at the first report, UBSan reports every site once and continues (C11 collects all sites of a run)
    "san": ("Release",
            "-DSVT_AV1_VERIF -g1 -fsanitize=address,undefined -fsanitize-recover=undefined "
            "-fno-omit-frame-pointer -fno-sanitize=alignment,shift-base,shift-exponent",
            "-fsanitize=address,undefined"),
    # ThreadSanitizer: used by C17 to enumerate process-global state that instances of one process touch without synchronisation
    "tsan": ("Release", "-DSVT_AV1_VERIF -g1 -fsanitize=thread -fno-omit-frame-pointer", "-fsanitize=thread"),
    "nohooks": ("Release", "-g1", ""),
}

_built = set()
import threading
_build_lock = threading.RLock()
_harness_built = {}


def build_lib(variant="hooks"):
    """Configure (once) and incrementally build the static libraries of /repo. Returns out dir."""
    d = os.path.join(BUILD, variant)
    out = os.path.join(d, "out")
    with _build_lock:
        return _build_lib(variant, d, out)


def _build_lib(variant, d, out):
    if variant in _built:
        return out
    btype, cflags, ldflags = VARIANTS[variant]
    os.makedirs(BUILD, exist_ok=True)
    lock = open(os.path.join(BUILD, variant + ".lock"), "w")
    import fcntl
    fcntl.flock(lock, fcntl.LOCK_EX)
    try:
        if not os.path.exists(os.path.join(d, "build.ninja")):
            cmd = ["cmake", "-G", "Ninja", "-S", REPO, "-B", d, "-DCMAKE_BUILD_TYPE=" + btype,
                   "-DBUILD_TESTING=OFF", "-DBUILD_SHARED_LIBS=OFF", "-DBUILD_APPS=OFF",
                   "-DCMAKE_OUTPUT_DIRECTORY=" + out + "/",
                   "-DCMAKE_C_FLAGS=" + cflags, "-DCMAKE_CXX_FLAGS=" + cflags]
            if ldflags:
                cmd.append("-DCMAKE_EXE_LINKER_FLAGS=" + ldflags)
            rc, o = sh(cmd, timeout=600)
            if rc != 0:
                raise ModelFailure("cmake configure failed for %s:\n%s" % (variant, o[-3000:]))
        rc, o = sh(["ninja", "-C", d], timeout=3000)
        if rc != 0:
            raise ModelFailure("build failed for %s:\n%s" % (variant, o[-6000:]))
    finally:
        fcntl.flock(lock, fcntl.LOCK_UN)
        lock.close()
    _built.add(variant)
    return out


WRAP_SYNC = ["svt_block_on_mutex", "svt_release_mutex", "svt_block_on_semaphore", "svt_post_semaphore"]
WRAP_ALLOC = ["malloc", "calloc", "realloc", "posix_memalign", "free", "svt_create_mutex",
              "svt_destroy_mutex", "svt_create_semaphore", "svt_destroy_semaphore", "svt_create_thread",
              "svt_destroy_thread"]


def build_harness(name, srcs, variant="hooks", sync=True, alloc=False, libs=("enc",), extra=(),
                  cxx=False):
    """Compile a harness program against the static libraries of `variant`. Returns binary path."""
    with _build_lock:
        key = (name, variant)
        if key not in _harness_built:
            _harness_built[key] = _build_harness(name, srcs, variant, sync, alloc, libs, extra, cxx)
        return _harness_built[key]


def _build_harness(name, srcs, variant, sync, alloc, libs, extra, cxx):
    out = build_lib(variant)
    exe = os.path.join(BUILD, "%s.%s" % (name, variant))
    S = os.path.join(REPO, "Source")
    inc = ["-I" + os.path.join(S, "API"), "-I" + os.path.join(S, "Lib/Common/Codec"),
           "-I" + os.path.join(S, "Lib/Common/C_DEFAULT"), "-I" + os.path.join(S, "Lib/Encoder/Codec"),
           "-I" + os.path.join(S, "Lib/Encoder/Globals"), "-I" + os.path.join(S, "Lib/Encoder/C_DEFAULT"),
           "-I" + os.path.join(S, "Lib/Decoder/Codec"),
           "-I" + os.path.join(S, "Lib/Common/ASM_SSE2"), "-I" + os.path.join(S, "Lib/Common/ASM_AVX2"),
           "-I" + HARNESS]
    btype, cflags, ldflags = VARIANTS[variant]
    srcs = [os.path.join(HARNESS, s) for s in srcs] + [os.path.join(HARNESS, "verif_rt.c")]
    wraps = []
    if sync:
        srcs.append(os.path.join(HARNESS, "verif_wrap_sync.c"))
        wraps += WRAP_SYNC
    if alloc:
        srcs.append(os.path.join(HARNESS, "verif_wrap_alloc.c"))
        wraps += WRAP_ALLOC
    cmd = ["g++" if cxx else "gcc", "-O1", "-g", "-w", "-no-pie"] + cflags.split() + inc + srcs + ["-o", exe + ".tmp"]
    if wraps:
        cmd.append("-Wl," + ",".join("--wrap=" + w for w in wraps))
    for l in libs:
        cmd.append(os.path.join(out, {"enc": "libSvtAv1Enc.a", "dec": "libSvtAv1Dec.a"}[l]))
    cmd += ldflags.split() + list(extra) + ["-lpthread", "-lm", "-ldl"]
    rc, o = sh(cmd, timeout=900)
    if rc != 0:
        raise ModelFailure("harness build failed (%s):\n%s" % (name, o[-4000:]))
    os.replace(exe + ".tmp", exe)
    return exe


# --------------------------------------------------------------------------------------------
# TLC

_TLC_JAR = "/opt/veriftools/tla/tla2tools.jar:/opt/veriftools/tla/CommunityModules-deps.jar"


def tlc(module, cfg, workers=None, env=None, timeout=1800, simulate=None, depth=None, heap="8g",
        extra=(), deque=False, seed=None):
    """Run TLC on specs/<module>.tla with specs/<cfg>. Returns dict with parsed statistics.
    ok = completed without error; violated = name of violated invariant/property (or 'postcondition',
    'deadlock'); anything else raises ModelFailure."""
    md = os.path.join(tmpdir(), "tlc_%d_%d" % (os.getpid(), int(time.time() * 1e6) % 10**9))
    java = ["java", "-XX:+UseParallelGC", "-Xmx" + heap]
    if deque:
        java.append("-Dtlc2.tool.queue.IStateQueue=StateDeque")
    cmd = java + ["-cp", _TLC_JAR, "tlc2.TLC", "-metadir", md, "-workers", str(workers or NCPU),
                  "-config", cfg, "-noGenerateSpecTE"]
    if simulate:
        cmd += ["-simulate", "num=%d" % simulate]
    if depth:
        cmd += ["-depth", str(depth)]
    if seed is not None:
        cmd += ["-seed", str(seed)]
    cmd += list(extra) + [module + ".tla"]
    t0 = time.time()
    rc, out = sh(cmd, timeout=timeout, env=env, cwd=SPECS)
    shutil.rmtree(md, ignore_errors=True)
    r = {"rc": rc, "out": out, "wall_s": time.time() - t0, "module": module, "cfg": cfg,
         "generated": 0, "distinct": 0, "depth": 0, "ok": False, "violated": None}
    m = re.findall(r"(\d[\d,]*) states generated, (\d[\d,]*) distinct states found", out)
    if m:
        r["generated"] = int(m[-1][0].replace(",", ""))
        r["distinct"] = int(m[-1][1].replace(",", ""))
    m = re.search(r"depth of the complete state graph search is (\d+)", out)
    if m:
        r["depth"] = int(m.group(1))
    if rc == -9:
        raise ModelFailure("TLC timed out after %ss on %s/%s" % (timeout, module, cfg))
    if "Model checking completed. No error has been found" in out or \
            (simulate and "Error" not in out and rc == 0):
        r["ok"] = True
        return r
    m = re.search(r"Invariant (\S+) is violated", out)
    if m:
        r["violated"] = m.group(1)
        return r
    if "Temporal properties were violated" in out:
        r["violated"] = "temporal"
        return r
    if "Postcondition" in out and "is false" in out:
        r["violated"] = "postcondition"
        return r
    if "Deadlock reached" in out:
        r["violated"] = "deadlock"
        return r
    m = re.search(r"Action property (\S+) is violated", out)
    if m:
        r["violated"] = m.group(1)
        return r
    i = out.find("Error:")
    raise ModelFailure("TLC failed on %s/%s (rc=%s):\n%s\n...\n%s" % (module, cfg, rc, out[i:i + 1500] if i >= 0 else "", out[-1500:]))


def tlc_trace(module, cfg, ndjson, timeout=1800, heap="8g", deque=False, env=None):
    """Validate one NDJSON trace file. Returns (accepted, consumed_events, result dict).
    A rejection is only reported if a second run rejects again."""
    e = {"TRACE": ndjson}
    if env:
        e.update(env)
    r = tlc(module, cfg, workers=1, env=e, timeout=timeout, heap=heap, deque=deque)
    if r["ok"]:
        return True, r["depth"] - 1, r
    r2 = tlc(module, cfg, workers=1, env=e, timeout=timeout, heap=heap, deque=deque)
    if r2["ok"]:
        raise ModelFailure("TLC verdict not reproducible on %s" % ndjson)
    return False, r2["depth"] - 1, r2


# --------------------------------------------------------------------------------------------
# traces

def symbolize(exe, addrs):
    """addr2line -f for a list of hex addresses; returns {addr: function name}."""
    addrs = sorted({a for a in addrs if a and a not in ("(nil)", "0x0")})
    if not addrs:
        return {}
    rc, out = sh(["addr2line", "-f", "-e", exe] + addrs, timeout=120)
    lines = out.splitlines()
    return {a: (lines[2 * i] if 2 * i < len(lines) else "?") for i, a in enumerate(addrs)}


def read_trace(path, stream=None):
    """Parse a raw trace file written by verif_rt.c. Yields (seq, tid, stream, inst, ev, [args])."""
    with open(path) as f:
        for line in f:
            if not line or line[0] == "#":
                continue
            p = line.split()
            if len(p) < 5:
                continue
            if stream is not None and p[2] != stream:
                continue
            yield int(p[0]), int(p[1]), p[2], int(p[3]), p[4], [int(x) for x in p[5:]]


def write_ndjson(path, records):
    with open(path, "w") as f:
        for r in records:
            f.write(json.dumps(r, separators=(",", ":")))
            f.write("\n")


def sha(b):
    return hashlib.sha256(b).hexdigest()[:16]


# --------------------------------------------------------------------------------------------
# known findings

def load_findings():
    p = os.path.join(ROOT, "known_findings.json")
    if not os.path.exists(p):
        return {"findings": [], "fixed": []}
    return json.load(open(p))


def match_finding(prop, key):
    """key: dict describing the observed violation. A finding matches if every (k, v) of its
    'key' equals the observed one (lists = any-of)."""
    for f in load_findings().get("findings", []):
        if f["property"] != prop:
            continue
        ok = True
        for k, v in f["key"].items():
            ov = key.get(k)
            if isinstance(v, list):
                if ov not in v:
                    ok = False
            elif ov != v:
                ok = False
        if ok:
            return f
    return None


# --------------------------------------------------------------------------------------------
# result collection

class Result:
    """Collects what one check run covered; the driver turns it into evidence + exit code."""

    def __init__(self, prop, tier, seed, level):
        self.prop, self.tier, self.seed, self.level = prop, tier, seed, level
        self.cov = {"samples": []}
        self.assumptions = []
        self.violations = []   # (what, replay_path)
        self.known = []        # finding texts
        self.t0 = time.time()
        self.distinct = set()

    def add(self, key, n=1):
        self.cov[key] = self.cov.get(key, 0) + n

    def sample(self, s, cap=6):
        if len(self.cov["samples"]) < cap:
            self.cov["samples"].append(s)

    def case(self, key, nontrivial=True):
        self.add("evaluations")
        if nontrivial:
            self.distinct.add(key if isinstance(key, str) else json.dumps(key, sort_keys=True))

    def tlc_stats(self, r):
        self.add("states", r["distinct"])
        self.add("transitions", r["generated"])
        self.cov.setdefault("tlc_runs", []).append(
            {"module": r["module"], "cfg": r["cfg"], "distinct": r["distinct"],
             "generated": r["generated"], "depth": r["depth"], "wall_s": round(r["wall_s"], 1)})

    def violation(self, what, replay_text=None, key=None):
        """Report a violation; if it matches a known finding it is downgraded to KNOWN-FINDING."""
        if key is not None:
            f = match_finding(self.prop, key)
            if f:
                txt = "%s [%s]" % (f["what"], json.dumps(f["key"], sort_keys=True))
                if txt not in self.known:
                    self.known.append(txt)
                self.cov.setdefault("known_finding_hits", []).append(key)
                return False
        os.makedirs(os.path.join(REPLAYS, self.prop), exist_ok=True)
        path = os.path.join(REPLAYS, self.prop, "%s_%d_%d.txt" % (self.tier, self.seed, len(self.violations)))
        with open(path, "w") as f:
            f.write("property=%s tier=%s seed=%d\n%s\n\n%s\n" % (self.prop, self.tier, self.seed, what, replay_text or ""))
        self.violations.append((what, path))
        log("  violation: %s" % what)
        return True

    def evidence(self):
        cov = dict(self.cov)
        cov["distinct_nontrivial"] = len(self.distinct)
        cov.setdefault("evaluations", 0)
        cov.setdefault("rule", "")
        if self.level == "model_checking":
            cov.setdefault("states", 0)
            cov.setdefault("transitions", 0)
            cov.setdefault("traces_validated_against_impl", 0)
        if not cov["samples"]:
            cov["samples"] = ["(none)"]
        return {"property_id": self.prop, "tier": self.tier, "seed": self.seed, "level": self.level,
                "coverage": cov, "assumptions": self.assumptions,
                "wall_s": round(time.time() - self.t0, 1), "violations": len(self.violations),
                "known_findings_reported": self.known}
