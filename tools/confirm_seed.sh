#!/bin/bash
# Confirms a seeded change delivered by a sub-agent in scratch worktree $2 and stores it as /verif/seeded/$1/:
#  with the change: builds, SvtAv1ApiTests pass-list unchanged, demo fails; without: demo passes.
id=$1; wt=$2
set -u
dst=/verif/seeded/$id
mkdir -p $dst
cd $wt || exit 2
git diff -- Source > $dst/patch.diff
[ -s $dst/patch.diff ] || cp MUTATION/patch.diff $dst/patch.diff
log=$dst/confirm.log; : > $log
ninja -C _b SvtAv1ApiTests SvtAv1EncApp SvtAv1DecApp >> $log 2>&1 || { echo "BUILD FAILED with change"; exit 1; }
timeout 600 Bin/Release/SvtAv1ApiTests 2>/dev/null | grep -E "^\[       OK|^\[  FAILED" | sed 's/ (.*//' | sort -u > /tmp/api_with_$id.txt
( timeout 900 bash MUTATION/demo.sh $wt >> $log 2>&1 ); with=$?
git apply -R $dst/patch.diff   # (no git stash: the stash is shared by all worktrees of the repository)
ninja -C _b SvtAv1ApiTests SvtAv1EncApp SvtAv1DecApp >> $log 2>&1
timeout 600 Bin/Release/SvtAv1ApiTests 2>/dev/null | grep -E "^\[       OK|^\[  FAILED" | sed 's/ (.*//' | sort -u > /tmp/api_without_$id.txt
( timeout 900 bash MUTATION/demo.sh $wt >> $log 2>&1 ); without=$?
git apply $dst/patch.diff
same=no; cmp -s /tmp/api_with_$id.txt /tmp/api_without_$id.txt && same=yes
nok=$(grep -c "OK" /tmp/api_with_$id.txt)
echo "demo_with_change_exit=$with demo_without_change_exit=$without api_lists_identical=$same api_ok_with_change=$nok"
cp -r MUTATION/. $dst/demo/ 2>/dev/null
rm -f $dst/demo/patch.diff
echo "{\"demo_with_change_exit\": $with, \"demo_without_change_exit\": $without, \"api_lists_identical\": \"$same\", \"api_ok_with_change\": $nok}" > $dst/confirm.json
