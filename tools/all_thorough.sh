#!/bin/bash
# runs the thorough tier of every claimed check in turn (used with `vp run`); prints one summary line per check
cd "$(dirname "$0")/.."
for p in ${1:-C11 C17 C14 C15 C12 C03 C04 C05 C09 C19 C27 C01 C08 C02 C18 C20 C21 C22 C13 C06 C26 C25 C24 C23 C16}; do
  s=$(date +%s); out=$(timeout 14000 ./check $p --tier thorough 2>&1); rc=$?; e=$(date +%s)
  echo "$p rc=$rc $((e-s))s :: $(echo "$out" | tail -1 | cut -c1-160)"
  if [ $rc -ne 0 ]; then echo "$out" | grep -v "^KNOWN" | grep "violation:\|MODEL-FAILURE" | cut -c1-500 | head -40; fi
done
echo ALLDONE
