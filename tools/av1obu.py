"""Independent AV1 OBU / sequence header / frame header parser (written from the AV1 bitstream
specification, sections 5.3 - 5.9), used as the observer for bitstream-level events.  Shares no code
with the encoder or decoder under test.  Stdlib only.

parse_stream(list_of_packets) -> list of packet records; each packet record:
  {"obus": [ {type, has_size, size, hdr_len, ext, payload_len, ...parsed fields...} ], "errors": [...]}
"""
import hashlib

OBU_SEQUENCE_HEADER, OBU_TEMPORAL_DELIMITER, OBU_FRAME_HEADER, OBU_TILE_GROUP = 1, 2, 3, 4
OBU_METADATA, OBU_FRAME, OBU_REDUNDANT_FRAME_HEADER, OBU_TILE_LIST, OBU_PADDING = 5, 6, 7, 8, 15
KEY_FRAME, INTER_FRAME, INTRA_ONLY_FRAME, SWITCH_FRAME = 0, 1, 2, 3
NONE_REF = 7
SELECT = 2
OBU_NAMES = {1: "SEQ", 2: "TD", 3: "FRAME_HDR", 4: "TILE_GROUP", 5: "META", 6: "FRAME", 7: "RED_FRAME_HDR",
             8: "TILE_LIST", 15: "PADDING"}


class ParseError(Exception):
    pass


class BitReader:
    def __init__(self, data, pos=0, end=None):
        self.d = data
        self.p = pos * 8
        self.end = (len(data) if end is None else end) * 8

    def f(self, n):
        v = 0
        for _ in range(n):
            if self.p >= self.end:
                raise ParseError("read past end of OBU payload")
            v = (v << 1) | ((self.d[self.p >> 3] >> (7 - (self.p & 7))) & 1)
            self.p += 1
        return v

    def su(self, n):
        v = self.f(n)
        sign = 1 << (n - 1)
        return v - 2 * sign if v & sign else v

    def ns(self, n):
        w = 0
        x = n
        while x:
            x >>= 1
            w += 1
        m = (1 << w) - n
        v = self.f(w - 1)
        if v < m:
            return v
        return (v << 1) - m + self.f(1)

    def uvlc(self):
        lz = 0
        while True:
            if self.f(1):
                break
            lz += 1
            if lz >= 32:
                return (1 << 32) - 1
        return self.f(lz) + (1 << lz) - 1 if lz else 0

    def bytepos(self):
        return (self.p + 7) >> 3


def leb128(data, pos):
    v = 0
    for i in range(8):
        if pos + i >= len(data):
            raise ParseError("leb128 runs past end of data")
        b = data[pos + i]
        v |= (b & 0x7F) << (7 * i)
        if not b & 0x80:
            return v, i + 1
    raise ParseError("leb128 longer than 8 bytes")


def tile_log2(blk, target):
    k = 0
    while (blk << k) < target:
        k += 1
    return k


def parse_sequence_header(br):
    s = {}
    s["seq_profile"] = br.f(3)
    s["still_picture"] = br.f(1)
    s["reduced_still_picture_header"] = br.f(1)
    s["decoder_model_info_present_flag"] = 0
    s["equal_picture_interval"] = 0
    s["op"] = []
    if s["reduced_still_picture_header"]:
        s["timing_info_present_flag"] = 0
        s["initial_display_delay_present_flag"] = 0
        s["op"].append({"idc": 0, "level": br.f(5), "tier": 0, "dm": 0})
    else:
        s["timing_info_present_flag"] = br.f(1)
        if s["timing_info_present_flag"]:
            s["num_units_in_display_tick"] = br.f(32)
            s["time_scale"] = br.f(32)
            s["equal_picture_interval"] = br.f(1)
            if s["equal_picture_interval"]:
                s["num_ticks_per_picture_minus_1"] = br.uvlc()
            s["decoder_model_info_present_flag"] = br.f(1)
            if s["decoder_model_info_present_flag"]:
                s["buffer_delay_length_minus_1"] = br.f(5)
                s["num_units_in_decoding_tick"] = br.f(32)
                s["buffer_removal_time_length_minus_1"] = br.f(5)
                s["frame_presentation_time_length_minus_1"] = br.f(5)
        s["initial_display_delay_present_flag"] = br.f(1)
        n = br.f(5) + 1
        for _ in range(n):
            op = {"idc": br.f(12), "level": br.f(5), "tier": 0, "dm": 0}
            if op["level"] > 7:
                op["tier"] = br.f(1)
            if s["decoder_model_info_present_flag"]:
                op["dm"] = br.f(1)
                if op["dm"]:
                    nb = s["buffer_delay_length_minus_1"] + 1
                    br.f(nb)
                    br.f(nb)
                    br.f(1)
            if s["initial_display_delay_present_flag"]:
                if br.f(1):
                    br.f(4)
            s["op"].append(op)
    s["frame_width_bits"] = br.f(4) + 1
    s["frame_height_bits"] = br.f(4) + 1
    s["max_frame_width"] = br.f(s["frame_width_bits"]) + 1
    s["max_frame_height"] = br.f(s["frame_height_bits"]) + 1
    s["frame_id_numbers_present_flag"] = 0
    if not s["reduced_still_picture_header"]:
        s["frame_id_numbers_present_flag"] = br.f(1)
    if s["frame_id_numbers_present_flag"]:
        s["delta_frame_id_length_minus_2"] = br.f(4)
        s["additional_frame_id_length_minus_1"] = br.f(3)
    s["use_128x128_superblock"] = br.f(1)
    s["enable_filter_intra"] = br.f(1)
    s["enable_intra_edge_filter"] = br.f(1)
    for k in ("enable_interintra_compound", "enable_masked_compound", "enable_warped_motion", "enable_dual_filter",
              "enable_order_hint", "enable_jnt_comp", "enable_ref_frame_mvs"):
        s[k] = 0
    s["seq_force_screen_content_tools"] = SELECT
    s["seq_force_integer_mv"] = SELECT
    s["OrderHintBits"] = 0
    if not s["reduced_still_picture_header"]:
        s["enable_interintra_compound"] = br.f(1)
        s["enable_masked_compound"] = br.f(1)
        s["enable_warped_motion"] = br.f(1)
        s["enable_dual_filter"] = br.f(1)
        s["enable_order_hint"] = br.f(1)
        if s["enable_order_hint"]:
            s["enable_jnt_comp"] = br.f(1)
            s["enable_ref_frame_mvs"] = br.f(1)
        if br.f(1):
            s["seq_force_screen_content_tools"] = SELECT
        else:
            s["seq_force_screen_content_tools"] = br.f(1)
        if s["seq_force_screen_content_tools"] > 0:
            if br.f(1):
                s["seq_force_integer_mv"] = SELECT
            else:
                s["seq_force_integer_mv"] = br.f(1)
        else:
            s["seq_force_integer_mv"] = SELECT
        if s["enable_order_hint"]:
            s["OrderHintBits"] = br.f(3) + 1
    s["enable_superres"] = br.f(1)
    s["enable_cdef"] = br.f(1)
    s["enable_restoration"] = br.f(1)
    # color_config
    hb = br.f(1)
    s["BitDepth"] = 8
    if s["seq_profile"] == 2 and hb:
        s["BitDepth"] = 12 if br.f(1) else 10
    elif hb:
        s["BitDepth"] = 10
    s["mono_chrome"] = 0 if s["seq_profile"] == 1 else br.f(1)
    s["NumPlanes"] = 1 if s["mono_chrome"] else 3
    s["color_description_present_flag"] = br.f(1)
    cp, tc, mc = 2, 2, 2
    if s["color_description_present_flag"]:
        cp, tc, mc = br.f(8), br.f(8), br.f(8)
    s["cp"], s["tc"], s["mc"] = cp, tc, mc
    s["separate_uv_delta_q"] = 0
    if s["mono_chrome"]:
        s["color_range"] = br.f(1)
        s["subx"], s["suby"] = 1, 1
    elif cp == 1 and tc == 13 and mc == 0:
        s["color_range"] = 1
        s["subx"], s["suby"] = 0, 0
        s["separate_uv_delta_q"] = br.f(1)
    else:
        s["color_range"] = br.f(1)
        if s["seq_profile"] == 0:
            s["subx"], s["suby"] = 1, 1
        elif s["seq_profile"] == 1:
            s["subx"], s["suby"] = 0, 0
        else:
            if s["BitDepth"] == 12:
                s["subx"] = br.f(1)
                s["suby"] = br.f(1) if s["subx"] else 0
            else:
                s["subx"], s["suby"] = 1, 0
        if s["subx"] and s["suby"]:
            s["chroma_sample_position"] = br.f(2)
        s["separate_uv_delta_q"] = br.f(1)
    s["film_grain_params_present"] = br.f(1)
    return s


def rel_dist(bits, a, b):
    if bits == 0:
        return 0
    diff = a - b
    m = 1 << (bits - 1)
    return (diff & (m - 1)) - (diff & m)


SEG_BITS = [8, 6, 6, 6, 6, 3, 0, 0]
SEG_SIGNED = [1, 1, 1, 1, 1, 0, 0, 0]
SEG_MAX = [255, 63, 63, 63, 63, 7, 0, 0]


class Dpb:
    """Reference state a decoder keeps between frames (only what header parsing needs)."""

    def __init__(self):
        self.slots = [None] * 8

    def reset(self):
        self.slots = [None] * 8


def parse_frame_header(br, seq, dpb, temporal_id=0, spatial_id=0):
    """Parses uncompressed_header(). Returns dict; updates nothing (call apply_refresh afterwards)."""
    h = {"parsed_to": "start"}
    id_len = 0
    if seq["frame_id_numbers_present_flag"]:
        id_len = seq["additional_frame_id_length_minus_1"] + seq["delta_frame_id_length_minus_2"] + 3
    all_frames = 255
    h["show_existing_frame"] = 0
    if seq["reduced_still_picture_header"]:
        h.update(frame_type=KEY_FRAME, show_frame=1, showable_frame=0, error_resilient_mode=1)
        frame_is_intra = True
    else:
        h["show_existing_frame"] = br.f(1)
        if h["show_existing_frame"]:
            h["frame_to_show_map_idx"] = br.f(3)
            if seq["decoder_model_info_present_flag"] and not seq["equal_picture_interval"]:
                br.f(seq["frame_presentation_time_length_minus_1"] + 1)
            h["refresh_frame_flags"] = 0
            if seq["frame_id_numbers_present_flag"]:
                h["display_frame_id"] = br.f(id_len)
            slot = dpb.slots[h["frame_to_show_map_idx"]]
            if slot is None:
                raise ParseError("show_existing_frame refers to empty DPB slot %d" % h["frame_to_show_map_idx"])
            h["frame_type"] = slot["frame_type"]
            h["shown_slot"] = dict(slot)
            if slot["frame_type"] == KEY_FRAME:
                h["refresh_frame_flags"] = all_frames
            h["parsed_to"] = "end"
            return h
        h["frame_type"] = br.f(2)
        frame_is_intra = h["frame_type"] in (KEY_FRAME, INTRA_ONLY_FRAME)
        h["show_frame"] = br.f(1)
        if h["show_frame"] and seq["decoder_model_info_present_flag"] and not seq["equal_picture_interval"]:
            br.f(seq["frame_presentation_time_length_minus_1"] + 1)
        if h["show_frame"]:
            h["showable_frame"] = 1 if h["frame_type"] != KEY_FRAME else 0
        else:
            h["showable_frame"] = br.f(1)
        if h["frame_type"] == SWITCH_FRAME or (h["frame_type"] == KEY_FRAME and h["show_frame"]):
            h["error_resilient_mode"] = 1
        else:
            h["error_resilient_mode"] = br.f(1)
    h["FrameIsIntra"] = 1 if frame_is_intra else 0
    slots = list(dpb.slots)
    if h["frame_type"] == KEY_FRAME and h["show_frame"]:
        slots = [None] * 8
        h["resets_dpb"] = 1
    h["disable_cdf_update"] = br.f(1)
    if seq["seq_force_screen_content_tools"] == SELECT:
        h["allow_screen_content_tools"] = br.f(1)
    else:
        h["allow_screen_content_tools"] = seq["seq_force_screen_content_tools"]
    if h["allow_screen_content_tools"]:
        if seq["seq_force_integer_mv"] == SELECT:
            h["force_integer_mv"] = br.f(1)
        else:
            h["force_integer_mv"] = seq["seq_force_integer_mv"]
    else:
        h["force_integer_mv"] = 0
    if frame_is_intra:
        h["force_integer_mv"] = 1
    if seq["frame_id_numbers_present_flag"]:
        h["current_frame_id"] = br.f(id_len)
    if h["frame_type"] == SWITCH_FRAME:
        h["frame_size_override_flag"] = 1
    elif seq["reduced_still_picture_header"]:
        h["frame_size_override_flag"] = 0
    else:
        h["frame_size_override_flag"] = br.f(1)
    h["order_hint"] = br.f(seq["OrderHintBits"])
    if frame_is_intra or h["error_resilient_mode"]:
        h["primary_ref_frame"] = NONE_REF
    else:
        h["primary_ref_frame"] = br.f(3)
    if seq["decoder_model_info_present_flag"]:
        if br.f(1):
            for op in seq["op"]:
                if op["dm"]:
                    idc = op["idc"]
                    in_t = (idc >> temporal_id) & 1
                    in_s = (idc >> (spatial_id + 8)) & 1
                    if idc == 0 or (in_t and in_s):
                        br.f(seq["buffer_removal_time_length_minus_1"] + 1)
    h["allow_high_precision_mv"] = 0
    h["use_ref_frame_mvs"] = 0
    h["allow_intrabc"] = 0
    if h["frame_type"] == SWITCH_FRAME or (h["frame_type"] == KEY_FRAME and h["show_frame"]):
        h["refresh_frame_flags"] = all_frames
    else:
        h["refresh_frame_flags"] = br.f(8)
    if (not frame_is_intra or h["refresh_frame_flags"] != all_frames) and \
            h["error_resilient_mode"] and seq["enable_order_hint"]:
        h["ref_order_hint"] = [br.f(seq["OrderHintBits"]) for _ in range(8)]
        for i in range(8):
            if slots[i] is None or slots[i]["order_hint"] != h["ref_order_hint"][i]:
                slots[i] = {"frame_type": INTER_FRAME, "order_hint": h["ref_order_hint"][i], "invalidated": 1,
                            "UpscaledWidth": 0, "FrameWidth": 0, "FrameHeight": 0, "RenderWidth": 0,
                            "RenderHeight": 0, "showable_frame": 0, "seg": None, "tag": None, "shown": 0}

    def superres_params():
        h["use_superres"] = br.f(1) if seq["enable_superres"] else 0
        if h["use_superres"]:
            h["SuperresDenom"] = br.f(3) + 9
        else:
            h["SuperresDenom"] = 8
        h["UpscaledWidth"] = h["FrameWidth"]
        h["FrameWidth"] = (h["UpscaledWidth"] * 8 + h["SuperresDenom"] // 2) // h["SuperresDenom"]

    def frame_size():
        if h["frame_size_override_flag"]:
            h["FrameWidth"] = br.f(seq["frame_width_bits"]) + 1
            h["FrameHeight"] = br.f(seq["frame_height_bits"]) + 1
        else:
            h["FrameWidth"] = seq["max_frame_width"]
            h["FrameHeight"] = seq["max_frame_height"]
        superres_params()

    def render_size():
        if br.f(1):
            h["RenderWidth"] = br.f(16) + 1
            h["RenderHeight"] = br.f(16) + 1
        else:
            h["RenderWidth"] = h["UpscaledWidth"]
            h["RenderHeight"] = h["FrameHeight"]

    if frame_is_intra:
        frame_size()
        render_size()
        if h["allow_screen_content_tools"] and h["UpscaledWidth"] == h["FrameWidth"]:
            h["allow_intrabc"] = br.f(1)
        h["ref_frame_idx"] = []
    else:
        h["frame_refs_short_signaling"] = br.f(1) if seq["enable_order_hint"] else 0
        if h["frame_refs_short_signaling"]:
            raise ParseError("frame_refs_short_signaling not supported by this parser")
        h["ref_frame_idx"] = []
        for i in range(7):
            h["ref_frame_idx"].append(br.f(3))
            if seq["frame_id_numbers_present_flag"]:
                br.f(seq["delta_frame_id_length_minus_2"] + 2)
        for i in h["ref_frame_idx"]:
            if slots[i] is None:
                raise ParseError("inter frame references empty DPB slot %d" % i)
        if h["frame_size_override_flag"] and not h["error_resilient_mode"]:
            found = 0
            for i in range(7):
                found = br.f(1)
                if found:
                    r = slots[h["ref_frame_idx"][i]]
                    h["UpscaledWidth"] = r["UpscaledWidth"]
                    h["FrameWidth"] = h["UpscaledWidth"]
                    h["FrameHeight"] = r["FrameHeight"]
                    h["RenderWidth"] = r["RenderWidth"]
                    h["RenderHeight"] = r["RenderHeight"]
                    break
            if not found:
                frame_size()
                render_size()
            else:
                superres_params()
        else:
            frame_size()
            render_size()
        if h["force_integer_mv"]:
            h["allow_high_precision_mv"] = 0
        else:
            h["allow_high_precision_mv"] = br.f(1)
        h["is_filter_switchable"] = br.f(1)
        h["interpolation_filter"] = 4 if h["is_filter_switchable"] else br.f(2)
        h["is_motion_mode_switchable"] = br.f(1)
        if h["error_resilient_mode"] or not seq["enable_ref_frame_mvs"]:
            h["use_ref_frame_mvs"] = 0
        else:
            h["use_ref_frame_mvs"] = br.f(1)
        h["ref_order_hints"] = [slots[i]["order_hint"] for i in h["ref_frame_idx"]]
        h["ref_tags"] = [slots[i].get("tag") for i in h["ref_frame_idx"]]
    if seq["reduced_still_picture_header"] or h["disable_cdf_update"]:
        h["disable_frame_end_update_cdf"] = 1
    else:
        h["disable_frame_end_update_cdf"] = br.f(1)
    prev = None
    if h["primary_ref_frame"] != NONE_REF:
        prev = slots[h["ref_frame_idx"][h["primary_ref_frame"]]]
    # ---- tile_info
    mi_cols = 2 * ((h["FrameWidth"] + 7) >> 3)
    mi_rows = 2 * ((h["FrameHeight"] + 7) >> 3)
    if seq["use_128x128_superblock"]:
        sb_cols, sb_rows, sb_shift = (mi_cols + 31) >> 5, (mi_rows + 31) >> 5, 5
    else:
        sb_cols, sb_rows, sb_shift = (mi_cols + 15) >> 4, (mi_rows + 15) >> 4, 4
    sb_size = sb_shift + 2
    max_tile_width_sb = 4096 >> sb_size
    max_tile_area_sb = (4096 * 2304) >> (2 * sb_size)
    min_log2_cols = tile_log2(max_tile_width_sb, sb_cols)
    max_log2_cols = tile_log2(1, min(sb_cols, 64))
    max_log2_rows = tile_log2(1, min(sb_rows, 64))
    min_log2_tiles = max(min_log2_cols, tile_log2(max_tile_area_sb, sb_rows * sb_cols))
    h["uniform_tile_spacing_flag"] = br.f(1)
    if h["uniform_tile_spacing_flag"]:
        cl = min_log2_cols
        while cl < max_log2_cols:
            if br.f(1):
                cl += 1
            else:
                break
        tw = (sb_cols + (1 << cl) - 1) >> cl
        h["TileCols"] = (sb_cols + tw - 1) // tw
        min_log2_rows = max(min_log2_tiles - cl, 0)
        rl = min_log2_rows
        while rl < max_log2_rows:
            if br.f(1):
                rl += 1
            else:
                break
        th = (sb_rows + (1 << rl) - 1) >> rl
        h["TileRows"] = (sb_rows + th - 1) // th
        h["TileColsLog2"], h["TileRowsLog2"] = cl, rl
    else:
        widest = 0
        start = 0
        n = 0
        while start < sb_cols:
            mw = min(sb_cols - start, max_tile_width_sb)
            sz = br.ns(mw) + 1
            widest = max(widest, sz)
            start += sz
            n += 1
        h["TileCols"] = n
        h["TileColsLog2"] = tile_log2(1, n)
        if min_log2_tiles > 0:
            mta = (sb_rows * sb_cols) >> (min_log2_tiles + 1)
        else:
            mta = sb_rows * sb_cols
        max_h = max(mta // widest, 1)
        start = 0
        n = 0
        while start < sb_rows:
            mh = min(sb_rows - start, max_h)
            start += br.ns(mh) + 1
            n += 1
        h["TileRows"] = n
        h["TileRowsLog2"] = tile_log2(1, n)
    h["sb_cols"], h["sb_rows"] = sb_cols, sb_rows
    if h["TileColsLog2"] > 0 or h["TileRowsLog2"] > 0:
        h["context_update_tile_id"] = br.f(h["TileRowsLog2"] + h["TileColsLog2"])
        h["TileSizeBytes"] = br.f(2) + 1
    # ---- quantization_params
    h["base_q_idx"] = br.f(8)

    def read_delta_q():
        return br.su(7) if br.f(1) else 0
    dq = {"ydc": read_delta_q(), "udc": 0, "uac": 0, "vdc": 0, "vac": 0}
    if seq["NumPlanes"] > 1:
        diff_uv = br.f(1) if seq["separate_uv_delta_q"] else 0
        dq["udc"] = read_delta_q()
        dq["uac"] = read_delta_q()
        if diff_uv:
            dq["vdc"] = read_delta_q()
            dq["vac"] = read_delta_q()
        else:
            dq["vdc"], dq["vac"] = dq["udc"], dq["uac"]
    h["delta_q"] = dq
    h["using_qmatrix"] = br.f(1)
    if h["using_qmatrix"]:
        br.f(4)
        br.f(4)
        if seq["separate_uv_delta_q"]:
            br.f(4)
    # ---- segmentation_params
    h["segmentation_enabled"] = br.f(1)
    seg = None
    if h["segmentation_enabled"]:
        if h["primary_ref_frame"] == NONE_REF:
            upd_map, upd_data = 1, 1
        else:
            upd_map = br.f(1)
            if upd_map:
                br.f(1)
            upd_data = br.f(1)
        if upd_data:
            seg = [[None] * 8 for _ in range(8)]
            for i in range(8):
                for j in range(8):
                    if br.f(1):
                        if SEG_SIGNED[j]:
                            v = br.su(1 + SEG_BITS[j])
                            v = max(-SEG_MAX[j], min(SEG_MAX[j], v))
                        else:
                            v = br.f(SEG_BITS[j])
                            v = min(SEG_MAX[j], v)
                        seg[i][j] = v
        else:
            seg = prev["seg"] if prev else None
        h["segmentation_update_data"] = upd_data
    h["seg"] = seg
    # ---- delta_q / delta_lf
    h["delta_q_present"] = 0
    h["delta_lf_present"] = 0
    if h["base_q_idx"] > 0:
        h["delta_q_present"] = br.f(1)
    if h["delta_q_present"]:
        h["delta_q_res"] = br.f(2)
        if not h["allow_intrabc"]:
            h["delta_lf_present"] = br.f(1)
        if h["delta_lf_present"]:
            h["delta_lf_res"] = br.f(2)
            h["delta_lf_multi"] = br.f(1)
    # CodedLossless
    coded_lossless = True
    for sid in range(8):
        q = h["base_q_idx"]
        if h["segmentation_enabled"] and seg and seg[sid][0] is not None:
            q = max(0, min(255, q + seg[sid][0]))
        if not (q == 0 and all(v == 0 for v in dq.values())):
            coded_lossless = False
    h["CodedLossless"] = 1 if coded_lossless else 0
    all_lossless = coded_lossless and h["FrameWidth"] == h["UpscaledWidth"]
    # ---- loop_filter_params
    h["loop_filter_level"] = [0, 0, 0, 0]
    if not (coded_lossless or h["allow_intrabc"]):
        h["loop_filter_level"][0] = br.f(6)
        h["loop_filter_level"][1] = br.f(6)
        if seq["NumPlanes"] > 1 and (h["loop_filter_level"][0] or h["loop_filter_level"][1]):
            h["loop_filter_level"][2] = br.f(6)
            h["loop_filter_level"][3] = br.f(6)
        h["loop_filter_sharpness"] = br.f(3)
        h["loop_filter_delta_enabled"] = br.f(1)
        if h["loop_filter_delta_enabled"]:
            if br.f(1):
                for _ in range(8):
                    if br.f(1):
                        br.su(7)
                for _ in range(2):
                    if br.f(1):
                        br.su(7)
    # ---- cdef_params
    h["cdef_bits"] = 0
    h["cdef_y_strengths"], h["cdef_uv_strengths"] = [0], [0]
    h["cdef_coded"] = 0
    if not (coded_lossless or h["allow_intrabc"] or not seq["enable_cdef"]):
        h["cdef_coded"] = 1
        h["cdef_damping"] = br.f(2) + 3
        h["cdef_bits"] = br.f(2)
        ys, uvs = [], []
        for _ in range(1 << h["cdef_bits"]):
            ys.append(br.f(4) * 4 + br.f(2))
            if seq["NumPlanes"] > 1:
                uvs.append(br.f(4) * 4 + br.f(2))
        h["cdef_y_strengths"], h["cdef_uv_strengths"] = ys, uvs or [0]
    # ---- lr_params
    h["lr_type"] = [0, 0, 0]
    if not (all_lossless or h["allow_intrabc"] or not seq["enable_restoration"]):
        uses_lr, uses_chroma = 0, 0
        remap = [0, 3, 1, 2]   # NONE, SWITCHABLE, WIENER, SGRPROJ
        for i in range(seq["NumPlanes"]):
            t = remap[br.f(2)]
            h["lr_type"][i] = t
            if t:
                uses_lr = 1
                if i > 0:
                    uses_chroma = 1
        if uses_lr:
            if seq["use_128x128_superblock"]:
                br.f(1)
            else:
                if br.f(1):
                    br.f(1)
            if seq["subx"] and seq["suby"] and uses_chroma:
                br.f(1)
    # ---- tx mode, reference mode, skip mode
    h["tx_mode_select"] = 0 if coded_lossless else br.f(1)
    h["reference_select"] = 0 if frame_is_intra else br.f(1)
    skip_allowed = 0
    if not (frame_is_intra or not h["reference_select"] or not seq["enable_order_hint"]):
        ob = seq["OrderHintBits"]
        fwd, bwd = -1, -1
        fh = bh = 0
        for i in range(7):
            rh = slots[h["ref_frame_idx"][i]]["order_hint"]
            if rel_dist(ob, rh, h["order_hint"]) < 0:
                if fwd < 0 or rel_dist(ob, rh, fh) > 0:
                    fwd, fh = i, rh
            elif rel_dist(ob, rh, h["order_hint"]) > 0:
                if bwd < 0 or rel_dist(ob, rh, bh) < 0:
                    bwd, bh = i, rh
        if fwd < 0:
            skip_allowed = 0
        elif bwd >= 0:
            skip_allowed = 1
        else:
            sec = -1
            sh = 0
            for i in range(7):
                rh = slots[h["ref_frame_idx"][i]]["order_hint"]
                if rel_dist(ob, rh, fh) < 0:
                    if sec < 0 or rel_dist(ob, rh, sh) > 0:
                        sec, sh = i, rh
            skip_allowed = 0 if sec < 0 else 1
    h["skipModeAllowed"] = skip_allowed
    h["skip_mode_present"] = br.f(1) if skip_allowed else 0
    if frame_is_intra or h["error_resilient_mode"] or not seq["enable_warped_motion"]:
        h["allow_warped_motion"] = 0
    else:
        h["allow_warped_motion"] = br.f(1)
    h["reduced_tx_set"] = br.f(1)
    # ---- global motion
    h["gm_used"] = 0
    h["parsed_to"] = "reduced_tx_set"
    if not frame_is_intra:
        types = []
        for _ in range(7):
            if br.f(1):
                h["gm_used"] = 1
                types.append(1)
                break           # parameters are delta-coded against the reference's: stop here
            types.append(0)
        h["gm_is_global"] = types
    if h["gm_used"]:
        h["parsed_to"] = "global_motion(partial)"
        return h
    # ---- film grain
    h["apply_grain"] = 0
    if seq["film_grain_params_present"] and (h["show_frame"] or h["showable_frame"]):
        h["apply_grain"] = br.f(1)
        if h["apply_grain"]:
            h["grain_seed"] = br.f(16)
            upd = br.f(1) if h["frame_type"] == INTER_FRAME else 1
            if not upd:
                h["film_grain_params_ref_idx"] = br.f(3)
            else:
                ny = br.f(4)
                for _ in range(ny):
                    br.f(16)
                csfl = 0 if seq["mono_chrome"] else br.f(1)
                if seq["mono_chrome"] or csfl or (seq["subx"] and seq["suby"] and ny == 0):
                    ncb = ncr = 0
                else:
                    ncb = br.f(4)
                    for _ in range(ncb):
                        br.f(16)
                    ncr = br.f(4)
                    for _ in range(ncr):
                        br.f(16)
                br.f(2)
                lag = br.f(2)
                npl = 2 * lag * (lag + 1)
                if ny:
                    npc = npl + 1
                    for _ in range(npl):
                        br.f(8)
                else:
                    npc = npl
                if csfl or ncb:
                    for _ in range(npc):
                        br.f(8)
                if csfl or ncr:
                    for _ in range(npc):
                        br.f(8)
                br.f(2)
                br.f(2)
                if ncb:
                    br.f(8), br.f(8), br.f(9)
                if ncr:
                    br.f(8), br.f(8), br.f(9)
                br.f(1)
                br.f(1)
    h["parsed_to"] = "end"
    return h


def apply_refresh(dpb, h, tag=None):
    """Reference frame update process (7.20) for the fields this parser tracks."""
    if h.get("show_existing_frame"):
        if h["frame_type"] == KEY_FRAME:
            s = dict(h["shown_slot"])
            dpb.slots = [dict(s) for _ in range(8)]
        return
    if h.get("resets_dpb"):
        dpb.slots = [None] * 8
    if "ref_order_hint" in h:
        for i in range(8):
            if dpb.slots[i] is None or dpb.slots[i]["order_hint"] != h["ref_order_hint"][i]:
                dpb.slots[i] = {"frame_type": INTER_FRAME, "order_hint": h["ref_order_hint"][i], "invalidated": 1,
                                "UpscaledWidth": 0, "FrameWidth": 0, "FrameHeight": 0, "RenderWidth": 0,
                                "RenderHeight": 0, "showable_frame": 0, "seg": None, "tag": None, "shown": 0}
    s = {"frame_type": h["frame_type"], "order_hint": h["order_hint"], "UpscaledWidth": h["UpscaledWidth"],
         "FrameWidth": h["FrameWidth"], "FrameHeight": h["FrameHeight"], "RenderWidth": h["RenderWidth"],
         "RenderHeight": h["RenderHeight"], "showable_frame": h["showable_frame"], "seg": h.get("seg"),
         "tag": tag, "shown": h["show_frame"]}
    for i in range(8):
        if (h["refresh_frame_flags"] >> i) & 1:
            dpb.slots[i] = dict(s)


def parse_packet(data, state):
    """state: {"seq": dict|None, "seq_bytes": bytes|None, "dpb": Dpb, "next_tag": int}
    Returns {"obus":[...], "errors":[...], "len": n}. Frames are tagged in decode order (tag)."""
    pos = 0
    out = {"obus": [], "errors": [], "len": len(data)}
    seen_frame_header = None
    while pos < len(data):
        o = {"pos": pos}
        try:
            b0 = data[pos]
            o["forbidden"] = b0 >> 7
            o["type"] = (b0 >> 3) & 15
            o["ext"] = (b0 >> 2) & 1
            o["has_size"] = (b0 >> 1) & 1
            o["reserved"] = b0 & 1
            hl = 1
            tid = sid = 0
            if o["ext"]:
                if pos + 1 >= len(data):
                    raise ParseError("truncated OBU extension header")
                tid, sid = data[pos + 1] >> 5, (data[pos + 1] >> 3) & 3
                hl = 2
            o["temporal_id"], o["spatial_id"] = tid, sid
            if o["has_size"]:
                sz, n = leb128(data, pos + hl)
                hl += n
            else:
                sz = len(data) - pos - hl
            o["size"] = sz
            o["hdr_len"] = hl
            if pos + hl + sz > len(data):
                raise ParseError("obu_size %d exceeds the packet (%d bytes left)" % (sz, len(data) - pos - hl))
            payload = data[pos + hl:pos + hl + sz]
            o["name"] = OBU_NAMES.get(o["type"], "RESERVED%d" % o["type"])
            t = o["type"]
            if t == OBU_SEQUENCE_HEADER:
                br = BitReader(payload)
                o["seq"] = parse_sequence_header(br)
                o["raw"] = bytes(data[pos:pos + hl + sz])
                o["digest"] = hashlib.sha256(o["raw"]).hexdigest()[:16]
                state["seq"] = o["seq"]
            elif t in (OBU_FRAME_HEADER, OBU_FRAME, OBU_REDUNDANT_FRAME_HEADER):
                if state.get("seq") is None:
                    raise ParseError("frame header before any sequence header")
                if t == OBU_REDUNDANT_FRAME_HEADER or (t == OBU_FRAME_HEADER and seen_frame_header is not None):
                    o["redundant"] = 1
                else:
                    br = BitReader(payload)
                    h = parse_frame_header(br, state["seq"], state["dpb"], tid, sid)
                    o["fh"] = h
                    o["hdr_bits"] = br.p
                    tag = None
                    if not h.get("show_existing_frame"):
                        tag = state["next_tag"]
                        state["next_tag"] += 1
                    h["tag"] = tag
                    if h.get("show_existing_frame"):
                        h["shown_tag"] = h["shown_slot"].get("tag")
                    apply_refresh(state["dpb"], h, tag)
                    if t == OBU_FRAME_HEADER and not h.get("show_existing_frame"):
                        seen_frame_header = h
                    if t == OBU_FRAME:
                        seen_frame_header = None
            elif t == OBU_TILE_GROUP:
                if seen_frame_header is None:
                    raise ParseError("tile group without a frame header")
                # the frame ends with its last tile group; this parser does not track tile counts, the
                # next frame header / TD closes it
            elif t == OBU_TEMPORAL_DELIMITER:
                if sz != 0:
                    raise ParseError("temporal delimiter with payload")
                seen_frame_header = None
            pos += hl + sz
        except ParseError as e:
            o["error"] = str(e)
            out["errors"].append("at byte %d: %s" % (pos, e))
            out["obus"].append(o)
            break
        except IndexError:
            o["error"] = "index error"
            out["errors"].append("at byte %d: truncated" % pos)
            out["obus"].append(o)
            break
        out["obus"].append(o)
    return out


def new_state():
    return {"seq": None, "dpb": Dpb(), "next_tag": 0}


def read_pkts(path):
    """Reads the packet container written by harness/enc_record.c."""
    import struct
    out = []
    with open(path, "rb") as f:
        while True:
            hd = f.read(4 + 8 + 4 * 5)
            if len(hd) < 32:
                break
            n, pts, flags, pic_type, sy, scb, scr = struct.unpack("<IqIIIII", hd)
            out.append({"pts": pts, "flags": flags, "pic_type": pic_type, "sse": [sy, scb, scr], "data": f.read(n)})
    return out


if __name__ == "__main__":
    import sys
    st = new_state()
    for i, p in enumerate(read_pkts(sys.argv[1])):
        r = parse_packet(p["data"], st)
        desc = []
        for o in r["obus"]:
            d = o.get("name", "?")
            if "fh" in o:
                h = o["fh"]
                if h.get("show_existing_frame"):
                    d += "[showex slot=%d tag=%s]" % (h["frame_to_show_map_idx"], h.get("shown_tag"))
                else:
                    d += "[t=%d show=%d showable=%d oh=%d rff=%02x q=%d refs=%s tag=%s %s]" % (
                        h["frame_type"], h["show_frame"], h["showable_frame"], h["order_hint"],
                        h["refresh_frame_flags"], h["base_q_idx"], h.get("ref_frame_idx"), h["tag"], h["parsed_to"])
            desc.append(d)
        print(i, "pts=%d flags=%d type=%d len=%d" % (p["pts"], p["flags"], p["pic_type"], len(p["data"])), " ".join(desc), r["errors"])
