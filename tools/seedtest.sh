#!/bin/bash
# usage: tools/seedtest.sh <patch.diff> <check> [tier]  -- applies the patch to the scratch checkout /tmp/repo_seed (a worktree of /repo),
# runs the check against it (VERIF_REPO / VERIF_BUILD), restores the checkout.  /repo itself is never touched.
p=$(readlink -f "$1"); c=$2; t=${3:-quick}
git -C /tmp/repo_seed checkout -q -- . && git -C /tmp/repo_seed checkout -q --detach $(git -C /repo rev-parse HEAD) 2>/dev/null
git -C /tmp/repo_seed apply "$p" || { echo "patch does not apply"; exit 2; }
cd /verif; VERIF_REPO=/tmp/repo_seed VERIF_BUILD=/tmp/build_seed timeout 3000 ./check $c --tier $t 2>&1 | grep -v "^KNOWN" | tail -${4:-3} | cut -c1-300
git -C /tmp/repo_seed checkout -q -- .
