#!/usr/bin/env python3
"""Writes MANIFEST.json from the table below (single source of truth for claimed checks)."""
import json
import os

ROOT = os.path.dirname(os.path.dirname(os.path.abspath(__file__)))

CHECKS = {
    "C01": dict(category="exploration",
        technique="trace validation against TLA+ spec Observe.tla (observers recon / libaom / SVT decoder must agree per display position) over a configuration x content corpus; reader-side validity from Bitstream.tla",
        text="Sample fidelity cannot be modelled; the specification states that all observers of picture k agree and the check decides it by digest equality between the encoder's recon output, an independent decoder (libaom 3.6.0 runtime library) and the repository's decoder for every picture of every run.",
        note="Sampled configurations/contents; libaom used through a hand-declared ABI (version-checked at run time); digests over visible samples.",
        design="3.8, 4 (C01)"),
    "C02": dict(category="model_checking",
        technique="TLA+ spec Bitstream.tla (reader-side temporal-unit grammar, sizes, sequence-header identity, picture type) validated on every packet via the independent parser tools/av1obu.py; temporal-unit assembly design model-checked in Packetize.tla and bound by PacketizeTrace",
        text="The grammar clauses are invariants of a reader state machine evaluated on every packet of every recorded stream; the assembly of temporal units (one shown frame, last in the unit, show-existing as separate packet) is model-checked exhaustively for all N<=18 x levels 0..3 x completion orders with small reorder depth.",
        note="Parser is trusted (written from the AV1 spec, cross-checked by two decoders accepting the same streams); corpus sampled.",
        design="3.5, 4 (C02)"),
    "C03": dict(category="model_checking",
        technique="TLA+ specs Session.tla (API-visible protocol), Bitstream.tla (display order/count), Observe.tla (independent decoder yields N pictures) validated on real runs; Packetize.tla model-checked (all completion orders) and bound to the code by PacketizeTrace.tla",
        text="Packet count/order/pts/dts/private pointer/EOS placement/recon count are guards of Session.tla evaluated on every API event of runs sweeping stream lengths around every mini-GOP boundary, hierarchical levels 0..5, intra periods, refresh types, overlays, look-ahead, pts patterns and retrieval policies; the GOP/temporal-unit design is exhaustively explored in Packetize.tla and the real encoder's packet structure must be a behaviour of it.",
        note="Stream lengths sampled (quick up to 40, thorough up to 600); end of stream as separate picture-less submission.",
        design="3.3-3.5, 4 (C03)"),
    "C04": dict(category="model_checking",
        technique="TLC on Packetize.tla / SRMMC / EncDecSegMC (all interleavings of the synchronisation skeleton) + trace validation against Observe.tla of the same encode under seeded schedule perturbation of every lock/semaphore operation and with each of the 15 pipeline kernels in turn slowed down relative to all others",
        text="The design-level determinism (same delivered sequence for every completion order; exactly-once hand-off) is model-checked; byte identity of the real encoder under schedule variation is decided by Observe.tla over perturbed runs, each under a timeout (termination).",
        note="Real schedules are sampled, not enumerated.",
        design="4 (C04)"),
    "C05": dict(category="model_checking",
        technique="TLC on EncDecSegMC (inputs of every superblock complete for every segment grid) + trace validation against Observe.tla with logical_processors/unpin/target_socket as environment",
        text="Model: DepsRespected for every grid; code: identical packets and recon across lp in {1,2,3,4,8,16,...}, pinning and socket settings.",
        note="pic_based_rate_est (documented lp-1 only) excluded.",
        design="4 (C05)"),
    "C06": dict(category="exploration",
        technique="trace validation against TLA+ spec Observe.tla with use_cpu_flags as environment (C, SSE2, SSSE3, SSE4.1, AVX2, ALL), one process per level",
        text="The specification only states that the instruction set is not part of the key; equality of packets and recon across levels is decided per run.",
        note="Kernel divergences are seen only if they change the output of these inputs; AVX-512 needs a build with ENABLE_AVX512.",
        design="4 (C06)"),
    "C08": dict(category="exploration",
        technique="trace validation against TLA+ spec Observe.tla: SVT decoder (internal pipeline 8/16 bit, film grain applied) vs libaom 3.6.0 on streams from a configuration-diverse corpus; plus the decoder's reference-picture management: TLA+ spec DecDpb.tla (buffer manager: reference counts, slot maps, show-existing) checked exhaustively by TLC and bound by full-state trace validation (DecDpbTrace.tla) of every decode",
        text="Observation equality per output picture, same order and count, no decoder error.",
        note="Only streams the SVT encoder can produce (no independent encoder offline); libaom via hand-declared ABI.", design="4 (C08)"),
    "C09": dict(category="model_checking",
        technique="TLA+ specs DecMT.tla (stage/row protocol, start flags, motion-field and end-of-frame barriers; 2-3 threads x 2-3 rows x 2 frames incl. liveness) and DecRowDeps.tla (data dependencies of row jobs across tile columns) and DecWave.tla (superblock wavefront inside each stage: every stage's top-right wait expression implies the left / above-right data dependency on all grids and thread assignments, and cannot stall) checked exhaustively by TLC; real decoder bound (a) by trace validation of every superblock of every multi-threaded decode against DecWaveTrace.tla (hooks after each wait and before each progress-word store, emitting threads jittered so that rows really catch up with each other) and of the row jobs of every multi-threaded decode against DecRowsTrace.tla (guarded hooks: frame reset, recon row done, LF/CDEF/LR row begin and done-map updates; every dependency judged event by event) and (b) observationally via Observe.tla (threads 1..8 under yield perturbation must equal the single-thread pictures, incl. streams with tile columns of unequal cost; clean teardown)",
        text="Each-row-once, stage ordering, no stale start flag, reset-behind-barrier and completion are invariants/liveness of DecMT.tla (bound through outputs); row-job dependencies (DecRowDeps), the superblock wavefront inside every stage (DecWave) and the picture-buffer manager (DecDpb) are checked exhaustively AND enforced event by event on every recorded multi-threaded decode.",
        note="Start flags / barriers of DecMT.tla are bound only observationally; C11 data races not judged; oversubscribed regime is a recorded finding.", design="3.7, 4 (C09), 11"),
    "C11": dict(category="exploration",
        technique="trace validation against TLA+ spec Session.tla (a run is a complete session: init, sends, EOS, one packet per picture without error flags, drained, teardown) of encodes executed in the ASan+UBSan build under a wall-clock timeout, over configurations accepted per ParamDomain.tla x contents x sizes",
        text="Memory safety and undefined behaviour are observed by the sanitizer run-time, termination by the timeout, completion/error packets by Session.tla on every API event; the space (configuration x content x size) is sampled.",
        note="UBSan without alignment/shift groups; two-pass encodes included; large pictures only in thorough; each sanitizer finding of the unchanged tree is listed by file and report class in known_findings.json.", design="4 (C11)"),
    "C12": dict(category="model_checking",
        technique="TLA+ spec ParamDomain.tla (documented domain of the configuration structure: ranges, mode-dependent applicability, coupled constraints, values the documentation sources dispute); TLC enumerates the case space (boundary sweeps of every documented field + complete products of the coupled groups), each case is executed on the real svt_av1_enc_set_parameter, and TLC judges every recorded row (stored configuration, return code) with Verdict",
        text="Finite case space of the model enumerated completely and every case executed: ~5100 configurations in quick (thorough adds 20000 seeded random 2-3 field combinations and the ASan build); accept/reject verdicts are decided by the specification from the configuration as stored in the structure.",
        note="Documented domain transcribed by hand (citations per field in the spec); disputed values are not judged; rc_twopass_stats_in buffer not varied.", design="3.11, 4 (C12)"),
    "C13": dict(category="model_checking",
        technique="trace validation against Observe.tla: every declared configuration field after init_handle (list generated from the API header) and the output of an encode with the returned defaults must be independent of the prior memory contents",
        text="The model statement is one line (InitHandle assigns every field); the enumeration fields x prefill patterns is complete for the listed patterns.",
        note="Padding not compared; prefill patterns sampled (zero, 0xFF, 0xAA, random, used).", design="4 (C13)"),
    "C14": dict(category="model_checking",
        technique="TLA+ specs Api.tla (encoder) and DecApi.tla (decoder): documented call protocol, NULL-argument variants, out-of-order calls, teardown; TLC enumerates the complete state graphs; transition cover (one call program per abstract edge) replayed on the real libraries in separate processes; long sessions (beyond every picture pool, 1/2/4 logical processors) validated against Session.tla",
        text="Every distinct (state, call, state') edge of the model is executed on the real encoder: outcome class must be allowed by the model, no crash, no call may fail to return, teardown afterwards must succeed.",
        note="Programs bounded by the abstraction (<= 2 pictures / temporal units) plus long sessions; a call counts as blocking only when the process is stuck (all threads asleep, no CPU used), see DESIGN 11.4; crash/hang observations are reported only if a re-run repeats them.", design="3.6, 4 (C14), 11"),
    "C15": dict(category="model_checking",
        technique="Api.tla and DecApi.tla transition-cover programs + mid-stream teardown points + repeated sessions executed with a link-time resource ledger (malloc/mutex/semaphore/thread --wrap); teardown must return with an empty ledger and the original thread count",
        text="Teardown is enabled from every state of the model; every program of the cover and a sweep of mid-stream points (pictures sent x policy x recon x lp) are torn down on the real library with exact resource accounting.",
        note="Ledger sees the wrapped primitives only; decoder: every DecApi program with 1 and 3 threads.", design="4 (C15), 11"),
    "C16": dict(category="fault_enumeration",
        technique="TLA+ spec CtorUnwind.tla (EB_NEW/EB_DELETE unwinding, all small object trees x fault positions) + fault enumeration on the real libraries: K-th fallible primitive fails during init_handle / set_parameter / init (encoder) and dec_init_handle / dec_init / first dec_frame (decoder, 1 and 3 threads)",
        text="Single-fault enumeration by index of the failing primitive with call-site attribution; the call must report an error, teardown must return, ledger must be empty.",
        note="Quick: all K<=60, last 40, random 110 per call and -- site-directed -- three invocations (first, middle, last) of EVERY distinct call site of a fallible primitive; thorough enumerates every K of set_parameter and init and 10% of init_handle.", design="4 (C16), 11"),
    "C17": dict(category="model_checking",
        technique="TLA+ spec Instances.tla (encoder/decoder instances of one process + the process-global state the code shares between them: block-geometry tables, kernel dispatch pointers, the decoder allocation list); TLC decides NoInterference per population; real library bound through outputs: harness multi_record runs the instances of a group in one process and Observe.tla compares every instance item by item with its solo run",
        text="Design level: all interleavings of init/encode/decode/teardown steps of 2-3 instances per population (same configuration, differing superblock size / cpu flags / process counts, concurrent or staggered init, two decoders, encoder+decoder); implementation level: sampled groups (pairs/triples, 8/10 bit, presets on both sides of the reference-count boundaries in both orders, asm levels, sizes) run under the usage disciplines for which the model guarantees non-interference, whose outputs must equal the solo outputs; the populations the model rejects are run too and recorded as findings.",
        note="Shared mutable state is enumerated on the real library with a ThreadSanitizer build (two undisciplined instances: every process-global variable in a reported race must be a listed finding, by name or as a dispatch pointer); the populations the model shows to interfere are recorded findings and the corresponding real groups crash as predicted.", design="4 (C17), 11"),
    "C18": dict(category="exploration",
        technique="trace validation against Bitstream.tla (QOK) of base_q_idx in every frame header read by the independent parser; expectations from the configuration only",
        text="Bounds [Q(min),Q(max)] for rate control, (1,63) for CQP, exact value for fixed-qindex-offset mode.", note="two-pass VBR included; uniform layer offsets.", design="4 (C18)"),
    "C19": dict(category="exploration",
        technique="trace validation against Bitstream.tla (intra placement by display position, DPB reset at shown key frames) + Observe.tla (cut-and-decode with libaom from every shown key frame equals the full decode)",
        text="Placement and random-access are judged on every stream of a period x refresh-type x levels sweep, incl. streams longer than the picture pools.", note="Sampled periods and lengths.", design="4 (C19)"),
    "C20": dict(category="exploration",
        technique="trace validation against Bitstream.tla (ToolsOK/TilesOK/sequence switches: every frame and sequence header read by the independent parser, expected uniform tile layouts) and BlockTools.tla (block level: per-tool block counts of every temporal unit, read by the repository's decoder built with guarded counters, must be zero for every tool the configuration disables)",
        text="Frame/sequence-level signalling and block-level use of disabled tools (palette, filter intra, CfL, intrabc, OBMC, local warp, inter-intra, wedge/difference/distance compound) over a corpus with each switch off and default-on controls; tile counts for a grid of sizes x log2 settings.", note="Block counts come from the repository's own decoder (compared with libaom by C08); tools the quick corpus never exercises (reported in the evidence as blocks_using_tool) are checked vacuously there.", design="4 (C20), 11"),
    "C21": dict(category="model_checking",
        technique="trace validation against Observe.tla with stride, padding bytes and post-send buffer reuse as environment (complete product of the listed values), ASan variant in thorough",
        text="Output must equal the plain run for every environment choice.", note="Contents sampled.", design="4 (C21)"),
    "C22": dict(category="model_checking",
        technique="TLA+ RelDist.tla theorem (TLC, all bits<=8) + full table of the five real helper functions judged row by row; Packetize.tla with reorder depth << N; long real streams validated by Session/Bitstream/Observe",
        text="Distance helpers complete for bits<=7 (8 thorough); queue wrap model-checked; streams > 2^7 pictures (quick) and > 2048/5000 (thorough) decoded and compared.", note="Long streams use small pictures.", design="4 (C22)"),
    "C26": dict(category="exploration",
        technique="trace validation against Observe.tla: reported SSE vs SSE recomputed from an independent decode of each packet and the regenerated source",
        text="Three values per packet compared as 32-bit numbers; reference pictures judged before non-reference pictures.", note="8- and 10-bit input; source regenerated from the shared generator.", design="4 (C26)"),
    "C27": dict(category="model_checking",
        technique="Packetize.tla (same output for every completion order, progress) + trace validation against Observe.tla of the same stream retrieved under different pacing policies",
        text="Every policy that completes must give the same packets/recon; drain-after-each-send must complete.", note="Policies sampled (each, every:k, none, random with delays).", design="4 (C27)"),
    "C25": dict(category="model_checking",
        technique="TLA+ spec RangeCoder.tla (arithmetic coder as exact integer interval arithmetic: writer interval, reader window, CDF adaptation): TLC exhaustive on small alphabets/sequences (decode = encode, range invariants, CDF monotonicity, adaptation in lock step) + replay of TLC/grid-generated symbol sequences through the real writer (EbBitstreamUnit.c) and the real reader (EbDecBitReader.h), every step's range and both CDF arrays judged by RangeCoderTrace",
        text="Round trip, range bounds and synchronous adaptation are invariants checked by TLC for every sequence up to the configured length over alphabets 2..4 with extreme CDFs; the real writer/reader pair is driven through alphabets 2..16, extreme/zero-probability CDFs, booleans and literals, with the model recomputing the expected range and CDF after every symbol.",
        note="Carry propagation/byte output is judged only by round trip (the model keeps the interval as an unbounded integer); sequences sampled beyond the exhaustive bound.", design="4 (C25)"),
    "C23": dict(
        category="model_checking",
        technique="TLA+ spec SRM.tla: TLC exhaustive (SRMMC, safety + liveness under fairness) + trace validation (SRMTrace) of the hooked real SRM under a perturbed stress driver and on every SRM instance of real encodes",
        text="Every clause of the property is an invariant/liveness property of SRM.tla checked exhaustively by TLC for small constants (2-3 objects, 1-3 producers/consumers, shutdown, non-blocking gets, extra live counts); the real EbSystemResourceManager.c is bound to the same actions by per-critical-section events validated step by step (every invariant evaluated after every event) for stress runs under seeded schedule perturbation and for all ~25 SRM instances of real encodes.",
        note="Exhaustive only for the listed small constants; implementation conformance only for executions that were recorded; hooks are trusted to sit inside the critical sections (demonstrated by corrupted-trace self-tests on every run).",
        design="3.1, 4 (C23)"),
    "C24": dict(
        category="model_checking",
        technique="TLA+ spec EncDecSeg.tla: TLC exhaustive over all small grids x segment grids x worker interleavings (EncDecSegMC, safety + completion under fairness) + trace validation (EncDecSegTrace) of every picture/tile group of real encodes, including the tables computed by enc_dec_segments_init",
        text="Exactly-once, neighbour-order and completion are invariants/liveness of EncDecSeg.tla checked for every grid up to 5x5 superblocks, every requested segment grid and every interleaving of up to 3 workers; the real scheduler is bound by events at every assignment step and at every superblock start/end, and the geometry tables of the real init are compared entry by entry with the specification's for every picture of every recorded encode.",
        note="All interleavings only for small grids; real-size grids (up to 13x6 quick, larger in thorough) are covered by recorded schedules under perturbation. The feedback-task pool is assumed not to run dry.",
        design="3.2, 4 (C24)"),
}

NOT_APPLICABLE = {
    "C07": "hundreds of stateless numeric SIMD kernels: no state/transition structure for a TLA+ specification to decide; differential testing territory (see DESIGN.md section 5)",
    "C10": "quantifier is all byte strings and the oracle is memory safety of a parser: fuzzing territory, a TLA+ protocol model decides nothing about the byte-level space (DESIGN.md section 5)",
}

PENDING = "not claimed yet: the specification/check for this property has not been built in this round (see DESIGN.md section 10 for the build order)"


def main():
    props = [json.loads(l)["id"] for l in open(os.path.join(ROOT, "properties.jsonl"))]
    checks = []
    for pid in props:
        if pid not in CHECKS:
            continue
        c = CHECKS[pid]
        checks.append({
            "property_id": pid,
            "quick_cmd": "./check %s --tier quick" % pid,
            "thorough_cmd": "./check %s --tier thorough" % pid,
            "evidence_file": "/verif/evidence/%s.json" % pid,
            "replay_cmd_template": "./check %s --replay {path}" % pid,
            "engine": "tlc+conformance",
            "level_claimed": {"category": c["category"], "text": c["text"], "design_ref": c["design"]},
            "level_note": c["note"],
            "technique": c["technique"],
        })
    na = []
    for pid in props:
        if pid in CHECKS:
            continue
        na.append({"property_id": pid, "reason": NOT_APPLICABLE.get(pid, PENDING)})
    m = {
        "version": 1,
        "setup_cmd": "./setup.sh",
        "hooks": {
            "guard": "SVT_AV1_VERIF",
            "enable": "checks build /repo out of tree into /verif/.build/<variant> with -DCMAKE_C_FLAGS=-DSVT_AV1_VERIF (static libraries); synchronisation/allocation primitives are additionally interposed at link time with -Wl,--wrap (no source change)",
            "baseline_off_cmd": "cmake --build /repo/_build -j16 && ctest --test-dir /repo/_build -j8 --timeout 900",
            "source_commits": [l.split()[0] for l in os.popen("git -C /repo log --format='%h %s' | grep 'verif hooks'").read().splitlines()],
            "add_only": True,
        },
        "engines": [{"name": "tlc+conformance", "path": "/verif/check",
                     "serves_properties": [c["property_id"] for c in checks],
                     "kind_free_text": "TLA+ specifications under /verif/specs checked with TLC; bound to the implementation by trace validation of hooked real executions (tools/vlib.py, harness/*.c) and replay of TLC-enumerated cases"}],
        "checks": checks,
        "not_applicable": na,
        "notes": "See DESIGN.md. known_findings.json lists genuine defects recorded rather than repaired.",
    }
    with open(os.path.join(ROOT, "MANIFEST.json"), "w") as f:
        json.dump(m, f, indent=1)
        f.write("\n")


if __name__ == "__main__":
    main()
