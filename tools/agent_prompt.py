#!/usr/bin/env python3
"""Prints the prompt given to an independent sub-agent that is asked to break one property."""
import json
import sys

pid, wt = sys.argv[1], sys.argv[2]
props = {json.loads(l)["id"]: json.loads(l) for l in open("/verif/properties.jsonl")}
p = props[pid]
print(f"""You are working on a scratch git worktree of SVT-AV1 (an AV1 video encoder/decoder library in C, v0.8.6 snapshot) at {wt}. Work ONLY inside {wt} (do not read or write /repo or /verif or any other worktree; do not use the network — there is none).

Here is a semantic property the library is supposed to satisfy:

  Property {pid}: {p['title']}
  Statement: {p['statement']}
  Quantified over: {p['quantifier']['text']}
  Code it is anchored in: {', '.join(p['anchors']['files'][:8])}
  Mechanisms meant to make it hold: {'; '.join(m['name'] + ' (' + m.get('where','') + ')' for m in p['anchors']['mechanism'][:6])}

Your task: write ONE realistic change (a bug a maintainer could plausibly introduce: an off-by-one, a dropped condition, a reordered pair of statements, a missed unlock/lock, a wrong index, a stale variable, two cooperating sites that each look fine alone...) to the library source under {wt}/Source that BREAKS this property, while
  (a) the tree still compiles (cmake + ninja, gcc), and
  (b) the repository's existing stable test suite still passes: these are the 42 `SvtAv1ApiTests` cases (EncApiTest.*, EncApiDeathTest.*, EncParam*Test.run_paramter_check except the ones that fail on the unchanged tree too). Build and run them with:
        cmake -G Ninja -S {wt} -B {wt}/_b -DCMAKE_BUILD_TYPE=Release -DBUILD_TESTING=ON -DBUILD_APPS=ON > /dev/null && ninja -C {wt}/_b SvtAv1ApiTests SvtAv1EncApp SvtAv1DecApp
        {wt}/Bin/Release/SvtAv1ApiTests   (compare its pass/fail list with the same run on the unchanged worktree: save your change with `git diff -- Source > /tmp/<your-worktree-name>.patch`, `git checkout -- Source`, rebuild, run, then `git apply` the patch again -- do NOT use `git stash`, the stash is shared with other worktrees; tests failing on the unchanged tree do not count)
      (do NOT build SvtAv1UnitTests, it takes very long), and
  (c) the change needs something SPECIFIC to manifest — a particular thread interleaving, a fault at a particular point, a multi-step sequence of operations, an unusual input/configuration or size, a long stream, or two cooperating sites — i.e. NOT something every ordinary short encode (e.g. `SvtAv1EncApp -i in.yuv -w 64 -h 64 -n 10 --preset 8 -b out.ivf`) would expose at once. Subtle is better than blatant; but it must be a genuine violation of the property as stated, not of something else.

Also write a DEMONSTRATION: a small C/C++ program or a shell script using the built binaries ({wt}/Bin/Release/SvtAv1EncApp, SvtAv1DecApp, or a program linked against {wt}/Bin/Release/libSvtAv1Enc.so / libSvtAv1Dec.so with headers in {wt}/Source/API) that FAILS (non-zero exit) with your change and PASSES (exit 0) on the unchanged tree. Generate any input video synthetically inside the demo (e.g. with a few lines of C or python3; raw 8-bit 4:2:0 planar .yuv is what SvtAv1EncApp reads with -i FILE -w W -h H -n FRAMES). Keep inputs tiny (64x64 .. 352x288, tens of frames; encodes at --preset 8 take well under a second). If the bug needs a particular interleaving, the demo may loop/retry or insert sleeps via an LD_PRELOAD shim or run many times, but it must fail reliably (>= 9 of 10 runs) with the change within about a minute and never fail without it. Confirm both directions yourself and report the exact commands and their observed outputs.

Deliver, inside {wt}/MUTATION/ (create it):
  - patch.diff   : `git -C {wt} diff -- Source` of your change (source files only; keep it minimal, no unrelated edits, no new files unless essential)
  - demo.sh (and any demo source files next to it): runs the demonstration against the tree it is given as $1 (a directory laid out like {wt}, already built with the cmake/ninja commands above); exit 0 = property held, non-zero = violated
  - meta.json    : {{"property": "{pid}", "summary": "...one paragraph: what the change is and why it breaks the property...", "needs": "...what specific condition is required for it to manifest...", "files": [...], "commands_run": [...], "observed_with_change": "...", "observed_without_change": "..."}}
Leave the worktree with your change APPLIED and built. Do not commit. Your final message should summarise the change, what it needs to manifest, and the demo's observed results in both directions.""")
