"""Turns the complete state graph of specs/Api.tla (TLC -dump dot,actionlabels) into call programs:
a transition cover -- for every distinct (abstract source state, call, abstract target state) edge the
shortest call sequence from the initial state that ends with that edge.  The expectation of every call
(set of allowed outcome classes) is taken from the model state."""
import collections
import os
import re
import sys

import vlib

VAR = re.compile(r'/\\\\ (\w+) = (.*?)(?:\\n|$)')


def parse_state(label):
    d = {}
    for m in re.finditer(r'(\w+) = ((?:\{[^}]*\})|(?:\\"[^"\\]*\\")|[A-Za-z0-9_]+)', label):
        k, v = m.group(1), m.group(2)
        v = v.replace('\\"', '"')
        if v.startswith('{'):
            v = frozenset(x.strip().strip('"') for x in v[1:-1].split(',') if x.strip())
        elif v.startswith('"'):
            v = v.strip('"')
        elif v in ("TRUE", "FALSE"):
            v = (v == "TRUE")
        else:
            try:
                v = int(v)
            except ValueError:
                pass
        d[k] = v
    return d


def load_graph(module="Api", cfg="Api.cfg"):
    dot = os.path.join(vlib.tmpdir(), "%s_graph.dot" % module)
    r = vlib.tlc(module, cfg, timeout=1200, extra=["-dump", "dot,actionlabels", dot])
    if not r["ok"]:
        raise vlib.ModelFailure("%s model: %s" % (module, r["violated"]))
    nodes, edges = {}, []
    for line in open(dot):
        m = re.match(r'^(-?\d+) \[label="(.*)"', line)
        if m:
            nodes[m.group(1)] = parse_state(m.group(2))
            continue
        m = re.match(r'^(-?\d+) -> (-?\d+) \[label="([^"]*)"', line)
        if m:
            edges.append((m.group(1), m.group(2), m.group(3)))
    return r, nodes, edges


def abstract(s):
    return tuple((k, s[k]) for k in sorted(s) if k not in ("call", "allow"))


def programs(nodes, edges):
    """Returns list of programs; a program = list of (call, allowed_classes, action, abstract target)."""
    init = [n for n, s in nodes.items() if s.get("call") == "-"]
    assert init
    adj = collections.defaultdict(dict)     # abs source -> {(call, abs target): (allow, action)}
    for u, v, act in edges:
        a, b = abstract(nodes[u]), abstract(nodes[v])
        adj[a].setdefault((nodes[v]["call"], b), (nodes[v]["allow"], act))
    a0 = abstract(nodes[init[0]])
    # BFS shortest paths over abstract states
    path = {a0: []}
    q = collections.deque([a0])
    while q:
        a = q.popleft()
        for (call, b), (allow, act) in sorted(adj[a].items(), key=lambda kv: (kv[0][0], str(kv[0][1]))):
            if b not in path:
                path[b] = path[a] + [(call, allow, act, b)]
                q.append(b)
    progs = []
    for a in sorted(path, key=lambda x: (len(path[x]), str(x))):
        for (call, b), (allow, act) in sorted(adj[a].items(), key=lambda kv: (kv[0][0], str(kv[0][1]))):
            progs.append(path[a] + [(call, allow, act, b)])
    return progs


if __name__ == "__main__":
    r, nodes, edges = load_graph()
    ps = programs(nodes, edges)
    print(len(nodes), len(edges), len(ps), max(len(p) for p in ps))
    for p in ps[:5] + ps[-3:]:
        print([c for c, a, act, b in p])
