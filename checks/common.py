"""Helpers shared by the per-property checks: recorder invocation, SRM/other trace packaging."""
import json
import os
import random
import subprocess
import sys
from concurrent.futures import ThreadPoolExecutor

import vlib

_enc = {}
import threading
_enc_lock = threading.Lock()


def enc_record_exe(variant="hooks", alloc=False):
    key = (variant, alloc)
    with _enc_lock:
      if key not in _enc:
        subprocess.check_call([sys.executable, os.path.join(vlib.ROOT, "tools/gen_cfg_fields.py")],
                              stdout=subprocess.DEVNULL)
        _enc[key] = vlib.build_harness("enc_record" + ("_led" if alloc else ""), ["enc_record.c"],
                                       variant=variant, sync=True, alloc=alloc)
    return _enc[key]


def run_enc(out, args, sets=None, timeout=120, variant="hooks", env=None):
    """Run the recorder. Returns dict: rc, events (list of dicts), out prefix, log."""
    exe = enc_record_exe(variant)
    cmd = [exe, "--out", out, "--timeout", str(timeout)] + list(args)
    for k, v in (sets or {}).items():
        cmd += ["--set", "%s=%s" % (k, v)]
    rc, log = vlib.sh(cmd, timeout=timeout * 8 + 60, env=env)   # the recorder extends its own timeout while the run is slow but not stuck
    evs = []
    if os.path.exists(out + ".ev"):
        for line in open(out + ".ev"):
            line = line.strip()
            if line:
                try:
                    evs.append(json.loads(line))
                except ValueError:
                    pass
    return {"rc": rc, "events": evs, "out": out, "log": log, "cmd": cmd}


def parallel(fn, items, workers=None):
    with ThreadPoolExecutor(max_workers=workers or max(2, vlib.NCPU // 2)) as ex:
        return list(ex.map(fn, items))


def srm_records(trc_path):
    """Split the 'srm' stream of a raw trace by instance; return list of per-instance NDJSON records
    (each instance starts with its Ctor event)."""
    inst = {}
    order = []
    for seq, tid, stream, iid, ev, args in vlib.read_trace(trc_path, "srm"):
        if iid not in inst:
            inst[iid] = []
            order.append(iid)
        inst[iid].append({"ev": ev, "t": tid, "a": args})
    out = []
    for iid in order:
        recs = inst[iid]
        if recs and recs[0]["ev"] == "Ctor":
            out.append(recs)
    return out


def seg_records(trc_path, completed=True):
    """Split the 'seg' stream by instance (one per InitSeg). Returns list of per-instance records."""
    inst, order = {}, []
    for seq, tid, stream, iid, ev, args in vlib.read_trace(trc_path, "seg"):
        if iid not in inst:
            inst[iid] = []
            order.append(iid)
        inst[iid].append({"ev": ev, "t": tid, "a": args})
    out = []
    for iid in order:
        recs = inst[iid]
        if recs and recs[0]["ev"] == "InitSeg":
            if completed:
                recs.append({"ev": "EndSeg", "t": recs[0]["t"], "a": []})
            out.append(recs)
    return out


_dec = {}


def dec_record_exe(variant="hooks"):
    with _enc_lock:
        if variant not in _dec:
            _dec[variant] = vlib.build_harness("dec_record", ["dec_record.c"], variant=variant, sync=True,
                                               alloc=False, libs=("dec",))
    return _dec[variant]


def run_dec(pkts, out, args, timeout=120, variant="hooks"):
    """Run the decoder-side recorder; returns dict rc, events."""
    exe = dec_record_exe(variant)
    cmd = [exe, "--pkts", pkts, "--out", out, "--timeout", str(timeout)] + list(args)
    rc, log = vlib.sh(cmd, timeout=timeout * 8 + 60)
    evs = []
    if os.path.exists(out):
        for line in open(out):
            line = line.strip()
            if line:
                try:
                    evs.append(json.loads(line))
                except ValueError:
                    pass
    return {"rc": rc, "events": evs, "log": log, "cmd": cmd}


def validate_trace(res, module, recs, index, label, what, timeout=3000, heap="16g", count_traces=True):
    """Validate a concatenated NDJSON trace against specs/<module>.tla (cfg <module>.cfg).
    index: list of (first, last, description) 1-based ranges of the individual executions.
    On rejection records a violation with the offending execution as replay artefact. Returns
    (accepted, index_entry_of_rejection)."""
    import collections
    if not recs:
        raise vlib.ModelFailure("no events recorded for " + label)
    p = os.path.join(vlib.tmpdir(), "%s_%s.ndjson" % (module, label))
    vlib.write_ndjson(p, recs)
    ok, consumed, r = vlib.tlc_trace(module, module + ".cfg", p, timeout=timeout, heap=heap)
    res.add("trace_events_validated", consumed)
    if count_traces:
        res.add("traces_validated_against_impl", len(index))
    ec = collections.Counter(res.cov.setdefault("event_counts", {}).get(module, {}))
    ec.update(x["ev"] for x in recs)
    res.cov["event_counts"][module] = dict(ec)
    if ok:
        return True, None
    bad = consumed + 1
    hit = [(a, b, d) for a, b, d in index if a <= bad <= b]
    inst = recs[hit[0][0] - 1:hit[0][1]] if hit else recs[max(0, bad - 50):bad]
    desc = hit[0][2] if hit else "?"
    return False, {"bad": bad, "event": recs[bad - 1] if bad <= len(recs) else None, "desc": desc,
                   "inst": inst, "context": recs[max(0, bad - 8):bad], "what": what, "module": module}


def report_rejection(res, rej, key=None):
    txt = ("%s: trace rejected by %s.tla at event %d: %s  [%s]" %
           (rej["what"], rej["module"], rej["bad"], json.dumps(rej["event"])[:600], rej["desc"]))
    body = ("last accepted events and the rejected one:\n" + "\n".join(json.dumps(x) for x in rej["context"]) +
            "\n\nmodule: %s\nfull instance trace (NDJSON):\n" % rej["module"] + "\n".join(json.dumps(x) for x in rej["inst"][:30000]))
    return res.violation(txt, body, key=key)
