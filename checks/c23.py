"""C23 -- system resource manager: TLC exhaustive (SRMMC) + trace validation of the real code (SRMTrace)
under a stress driver with seeded schedule perturbation and on every SRM instance of real encodes."""
import collections
import json
import os
import random

import vlib
from checks import common

LEVEL = "model_checking"

INVS = "TypeOK NoDup NoMissedAssign SemCountsList WaitedFindsObject NoLossNoDup NoDoubleHolder PostOrder ReturnedIffReleased"


def mc_cfg(name, no, np, nc, ops, shut, nb, inc, live=False):
    p = os.path.join(vlib.tmpdir(), "SRMMC_%s.cfg" % name)
    with open(p, "w") as f:
        f.write("SPECIFICATION %s\n" % ("FairSpec" if live else "Spec"))
        f.write("CONSTANTS NO = %d NP = %d NC = %d MaxOps = %d WithShutdown = %s WithNonBlocking = %s MaxInc = %d\n" %
                (no, np, nc, ops, "TRUE" if shut else "FALSE", "TRUE" if nb else "FALSE", inc))
        if live:
            f.write("INVARIANTS TypeOK\nPROPERTIES WakesWaiter ShutdownWakes\n")
        else:
            f.write("INVARIANTS %s\n" % INVS)
        f.write("CHECK_DEADLOCK FALSE\n")
    return p


def witness_cfg(name, inv, consts):
    p = os.path.join(vlib.tmpdir(), "SRMMC_w_%s.cfg" % name)
    with open(p, "w") as f:
        f.write("SPECIFICATION Spec\nCONSTANTS %s\nINVARIANTS %s\nCHECK_DEADLOCK FALSE\n" % (consts, inv))
    return p


def model_part(res):
    thorough = res.tier == "thorough"
    cfgs = [("a", 2, 2, 2, 2, True, False, 0, False),
            ("c", 2, 3, 0, 2, False, False, 2, False),
            ("d", 3, 1, 2, 3, True, False, 2, False),
            ("bq", 3, 2, 1, 2, True, True, 1, False),
            ("live", 2, 2, 1, 2, True, True, 1, True)]
    if thorough:
        cfgs += [("b", 3, 2, 1, 3, True, True, 2, False),
                 ("e", 3, 2, 2, 2, True, False, 1, False),
                 ("f", 2, 1, 3, 3, True, False, 2, False),
                 ("live2", 2, 1, 2, 2, True, False, 1, True)]
    for c in cfgs:
        r = vlib.tlc("SRMMC", mc_cfg(*c), timeout=3000, heap="16g")
        res.tlc_stats(r)
        res.case("tlc:" + c[0])
        if not r["ok"]:
            res.violation("SRM model %s violates %s (design-level)" % (c[0], r["violated"]), r["out"][-6000:])
    # vacuity guards: witness predicates must be reachable (violated as invariants)
    consts = "NO = 3 NP = 2 NC = 1 MaxOps = 2 WithShutdown = TRUE WithNonBlocking = TRUE MaxInc = 2"
    for w in ("W_QuitPop", "W_TwoInFifo", "W_NotReturned"):
        r = vlib.tlc("SRMMC", witness_cfg(w, w, consts), timeout=600)
        if r["ok"]:
            raise vlib.ModelFailure("vacuity guard: witness %s is not reachable in SRMMC" % w)
    res.cov["witnesses_reached"] = 3


def stress_part(res, exe):
    rng = random.Random(res.seed * 7 + 1)
    nruns = 24 if res.tier == "quick" else 160
    jobs = []
    for i in range(nruns):
        nc = rng.choice([0, 1, 1, 2, 3])
        cfg = dict(seed=rng.randrange(1, 1 << 30), nobj=rng.choice([1, 2, 3, 5, 8]), nprod=rng.choice([1, 2, 3, 4]),
                   ncons=nc, ops=rng.choice([20, 60, 150]), nb=1 if nc == 1 and rng.random() < 0.7 else 0,
                   inc=rng.choice([0, 0, 1, 3]))
        jobs.append((i, cfg))
    tdir = vlib.tmpdir()

    def one(job):
        i, c = job
        trc = os.path.join(tdir, "stress_%d.trc" % i)
        rc, out = vlib.sh([exe, trc, str(c["seed"]), str(c["nobj"]), str(c["nprod"]), str(c["ncons"]),
                           str(c["ops"]), str(c["nb"]), str(c["inc"])], timeout=90)
        return i, c, rc, out, trc
    results = common.parallel(one, jobs)
    allrecs = []
    index = []   # (first line, last line, description)
    for i, c, rc, out, trc in results:
        res.case("stress:%s" % json.dumps({k: c[k] for k in c if k != "seed"}, sort_keys=True))
        if rc != 0:
            res.violation("SRM stress run did not complete (rc=%s): a blocked consumer/producer never returned or the driver saw a NULL object; cfg=%s" % (rc, c),
                          out[-2000:] + "\ncmd: srm_stress <trace> %(seed)s %(nobj)s %(nprod)s %(ncons)s %(ops)s %(nb)s %(inc)s" % c)
            continue
        for recs in common.srm_records(trc):
            index.append((len(allrecs) + 1, len(allrecs) + len(recs), "stress %s" % c))
            allrecs += recs
        os.unlink(trc)
    return allrecs, index


ENC_RUNS = [
    (["-n", "9", "-w", "64", "-h", "64"], {"enc_mode": 8, "logical_processors": 1}),
    (["-n", "14", "-w", "128", "-h", "64", "--policy", "random:3"], {"enc_mode": 8, "logical_processors": 4, "recon_enabled": 1}),
    (["-n", "7", "-w", "64", "-h", "128", "--perturb", "5:200:40"], {"enc_mode": 8, "logical_processors": 1, "hierarchical_levels": 3}),
]
ENC_RUNS_THOROUGH = [
    (["-n", "30", "-w", "192", "-h", "128", "--perturb", "11:300:60"], {"enc_mode": 8, "logical_processors": 8, "recon_enabled": 1, "tile_columns": 1}),
    (["-n", "20", "-w", "128", "-h", "128", "--perturb", "13:300:60", "--policy", "every:4"], {"enc_mode": 6, "logical_processors": 3, "rate_control_mode": 1, "target_bit_rate": 200000}),
    (["-n", "17", "-w", "64", "-h", "64", "--bits", "10"], {"enc_mode": 8, "logical_processors": 2, "enable_overlays": 0, "hierarchical_levels": 2}),
]


def encode_part(res):
    runs = ENC_RUNS + (ENC_RUNS_THOROUGH if res.tier == "thorough" else [])
    tdir = vlib.tmpdir()
    allrecs, index = [], []

    def one(j):
        i, (args, sets) = j
        return common.run_enc(os.path.join(tdir, "enc_%d" % i), args + ["--trace", "srm"], sets, timeout=120)
    for r in common.parallel(one, list(enumerate(runs))):
        desc = " ".join(r["cmd"][1:])
        res.case("enc:" + desc)
        if r["rc"] != 0:
            # completion of real encodes is C03/C04/C11's business; here an incomplete run only means
            # fewer events -- but say so
            res.cov.setdefault("incomplete_encodes", []).append(desc)
        n = 0
        for recs in common.srm_records(r["out"] + ".trc"):
            index.append((len(allrecs) + 1, len(allrecs) + len(recs), "encode [%s] SRM instance #%d (%d objects, %d producers, %d consumers)" %
                          (desc, n, recs[0]["a"][0], recs[0]["a"][1], recs[0]["a"][2])))
            allrecs += recs
            n += 1
        res.add("srm_instances_of_real_encodes", n)
        for ext in (".trc", ".pkts", ".ev"):
            if os.path.exists(r["out"] + ext):
                os.unlink(r["out"] + ext)
    return allrecs, index


def validate(res, recs, index, label):
    if not recs:
        raise vlib.ModelFailure("no SRM events recorded for " + label)
    p = os.path.join(vlib.tmpdir(), "srm_%s.ndjson" % label)
    vlib.write_ndjson(p, recs)
    ok, consumed, r = vlib.tlc_trace("SRMTrace", "SRMTrace.cfg", p, timeout=3000, heap="16g")
    res.add("trace_events_validated", consumed)
    res.add("traces_validated_against_impl", len(index))
    cnt = collections.Counter(x["ev"] for x in recs)
    res.cov.setdefault("event_counts", {})[label] = dict(cnt)
    if not ok:
        bad = consumed + 1
        where = [d for a, b, d in index if a <= bad <= b]
        a0 = [a for a, b, d in index if a <= bad <= b]
        ctx = recs[max(0, bad - 12):bad]
        # keep the offending instance as replay artefact
        inst = [x for (a, b, d) in index if a <= bad <= b for x in recs[a - 1:b]]
        res.violation("SRM trace rejected by SRMTrace.tla at event %d of %s: %s  (instance: %s; index in instance %d)" %
                      (bad, label, json.dumps(recs[bad - 1]), where[0] if where else "?", bad - (a0[0] if a0 else 0) + 1),
                      "last accepted events and the rejected one:\n" + "\n".join(json.dumps(x) for x in ctx) +
                      "\n\nfull instance trace (NDJSON):\n" + "\n".join(json.dumps(x) for x in inst[:20000]))
    return ok


def selftest(res, recs):
    """Binding demonstration: a corrupted trace must be rejected, otherwise the machinery is broken."""
    recs = recs[:3000]
    muts = []
    for i, x in enumerate(recs):
        if x["ev"] == "Assign" and i > 50:
            y = [dict(r) for r in recs]
            y[i] = dict(x, a=[x["a"][0], x["a"][1], (x["a"][2] + 1) % max(2, recs[0]["a"][0])])
            muts.append(("Assign object changed", y))
            break
    for i, x in enumerate(recs):
        if x["ev"] == "SemWait" and i > 50:
            muts.append(("SemWait deleted", recs[:i] + recs[i + 1:]))
            break
    for i, x in enumerate(recs):
        if x["ev"] == "Release" and x["a"][1] == 1 and i > 50:
            y = [dict(r) for r in recs]
            y[i] = dict(x, a=[x["a"][0], 0, 0])
            muts.append(("Release not returning at last reference", y))
            break
    n = 0
    for name, y in muts:
        p = os.path.join(vlib.tmpdir(), "srm_selftest.ndjson")
        vlib.write_ndjson(p, y)
        r = vlib.tlc("SRMTrace", "SRMTrace.cfg", workers=1, env={"TRACE": p}, timeout=600)
        if r["ok"]:
            raise vlib.ModelFailure("binding self-test failed: corrupted trace (%s) was accepted" % name)
        n += 1
    res.cov["corrupted_traces_rejected"] = n


def run(res):
    res.cov["rule"] = ("cases = exhaustive TLC configurations of SRMMC + stress-driver runs (distinct by "
                       "(objects, producers, consumers, ops, non-blocking, extra live counts)) + real encodes "
                       "(distinct by command line); each run contributes every SRM instance it created as one trace")
    res.assumptions += ["TLC exhaustive results hold for the listed small constants only",
                        "trace validation sees only the schedules that occurred (seeded perturbation of every lock/semaphore operation)",
                        "hooks emit under the protecting mutex; SemPost is logged before sem_post, SemWait after sem_wait"]
    exe = vlib.build_harness("srm_stress", ["srm_stress.c"])
    model_part(res)
    recs, index = stress_part(res, exe)
    if recs:
        ok = validate(res, recs, index, "stress")
        res.sample({"stress_trace_prefix": recs[:12]})
        if ok:
            selftest(res, recs)
    recs2, index2 = encode_part(res)
    validate(res, recs2, index2, "encode")
    res.sample({"encode_trace_prefix": recs2[:8]})


def replay(res, path):
    """Re-validate the instance trace stored in a replay file."""
    txt = open(path).read()
    if "full instance trace (NDJSON):" not in txt:
        print(txt)
        return
    body = txt.split("full instance trace (NDJSON):\n", 1)[1]
    recs = [json.loads(l) for l in body.splitlines() if l.strip().startswith("{")]
    validate(res, recs, [(1, len(recs), "replay")], "replay")
