"""C17 -- concurrent encoder and decoder instances do not interfere.
Instances.tla models what the instances of one process share: the process-global block-geometry tables and kernel
dispatch pointers rebuilt by every svt_av1_enc_init, and the single global decoder allocation list.  TLC decides for
which populations the DESIGN guarantees NoInterference (identical superblock size and cpu flags, at most one decoder)
and exhibits the interference for the others (recorded findings).
The real library is bound observationally: harness/multi_record.c runs the instances of a group in one process
(own application thread each, staggered starts); every instance's packets / decoded pictures must equal those of the
same instance run alone -- Observe.tla with 'co-running instances' as environment."""
import json
import os
import random

import vlib
from checks import common, corpus

LEVEL = "model_checking"

HOLD_POPS = ["same", "same3", "encdec"]
BROKEN_POPS = {"concinit": "concurrent_init", "stagger": "init_during_encode", "diffsb": "sb_size", "diffflags": "cpu_flags", "dec2": "two_decoders"}


def model_part(res):
    for pop in HOLD_POPS:
        r = vlib.tlc("InstancesMC", "InstancesMC_%s.cfg" % pop, workers=4, timeout=600)
        res.tlc_stats(r)
        res.case("tlc:Instances/" + pop)
        if not r["ok"]:
            res.violation("Instances.tla: population '%s' violates %s" % (pop, r["violated"]), r["out"][-4000:])
    for pop, what in BROKEN_POPS.items():
        r = vlib.tlc("InstancesMC", "InstancesMC_%s.cfg" % pop, workers=4, timeout=600)
        res.tlc_stats(r)
        res.case("tlc:Instances/" + pop)
        if not r["ok"]:
            if r["violated"] != "NoInterference":
                raise vlib.ModelFailure("Instances.tla (%s): unexpected violation %s\n%s" % (pop, r["violated"], r["out"][-3000:]))
            res.violation("Instances.tla: instances that differ in %s interfere through process-global state (design-level counterexample)" % what,
                          r["out"][-4000:], key={"kind": "design", "differs": what})
    r = vlib.tlc("InstancesMC", "InstancesMC_wit.cfg", workers=4, timeout=600)
    res.tlc_stats(r)
    if r["ok"] or r["violated"] != "NeverOverlap":
        raise vlib.ModelFailure("Instances.tla: overlap witness not reachable (vacuous model)")


def spec_str(s, delay=0):
    parts = ["%s=%s" % (k, s[k]) for k in ("w", "h", "n", "bits", "content", "cseed", "threads", "file") if k in s]
    parts += ["set=%s=%s" % kv for kv in sorted(s.get("sets", {}).items())]
    if delay:
        parts.append("delay=%d" % delay)
    return ("dec:" if s.get("dec") else "enc:") + ",".join(parts)


def run_multi(exe, specs_delays, tag, timeout, barrier=False, concurrent_init=False):
    out = os.path.join(vlib.tmpdir(), "c17_%s_%d.nd" % (tag, os.getpid()))
    cmd = [exe, "--out", out, "--timeout", str(timeout)] + (["--barrier"] if barrier else []) + (["--concurrent-init"] if concurrent_init else [])
    for s, d in specs_delays:
        cmd += ["--inst", spec_str(s, d)]
    rc, log = vlib.sh(cmd, timeout=timeout * 8 + 60)
    evs = []
    if os.path.exists(out):
        for l in open(out):
            try:
                evs.append(json.loads(l))
            except ValueError:
                pass
        os.remove(out)
    return rc, evs, cmd


def obs_of(evs, inst, who):
    out = []
    for e in evs:
        if e.get("inst") != inst:
            continue
        if e["ev"] == "Packet":
            out.append({"ev": "Obs", "class": "bytes", "who": who, "k": e["k"], "dig": e["dig"]})
        elif e["ev"] == "Dec":
            out.append({"ev": "Obs", "class": "pic", "who": who, "k": e["k"], "dig": e["dig"]})
    return out


def shared_globals(res, a, b):
    """Second clause of the property ('share no unsynchronised mutable state'): two undisciplined instances under ThreadSanitizer;
    every process-global variable involved in a reported race is shared mutable state.  Each one must be a listed finding
    (by name, or by class for the kernel dispatch pointers); a global that is not listed is a violation."""
    import re
    exe = vlib.build_harness("multi_record", ["multi_record.c"], variant="tsan", sync=False, libs=("enc", "dec"))
    out = os.path.join(vlib.tmpdir(), "c17_tsan_%d.nd" % os.getpid())
    a2 = dict(a, n=3)
    b2 = dict(b, n=3)
    cmd = [exe, "--out", out, "--timeout", "900", "--inst", spec_str(a2), "--inst", spec_str(b2, 5)]
    rc, log = vlib.sh(cmd, timeout=2400, env={"TSAN_OPTIONS": "halt_on_error=0 report_signal_unsafe=0 history_size=2 exitcode=0"})
    if os.path.exists(out):
        os.remove(out)
    names = sorted(set(re.findall(r"Location is global '([^']+)'", log)))
    res.case("tsan pair " + spec_str(a2) + " || " + spec_str(b2))
    res.add("tsan_reports", log.count("WARNING: ThreadSanitizer"))
    if not names and "ThreadSanitizer" not in log:
        raise vlib.ModelFailure("ThreadSanitizer run produced no report at all (rc=%s): %s" % (rc, log[-1500:]))
    # dispatch pointers = data symbols defined by the rtcd translation units
    lib = os.path.join(vlib.BUILD, "tsan", "out", "libSvtAv1Enc.a")
    rc2, nm = vlib.sh(["nm", "-A", lib], timeout=300)
    rc3, nm2 = vlib.sh(["nm", "-A", os.path.join(vlib.BUILD, "tsan", "out", "libSvtAv1Dec.a")], timeout=300)
    rtcd, libdata = set(), set()
    for l in (nm + "\n" + nm2).splitlines():
        f = l.split()
        if len(f) >= 3 and f[-2] in ("B", "b", "D", "d", "C"):
            libdata.add(re.sub(r"\.\d+$", "", f[-1]))
            if "rtcd" in f[0]:
                rtcd.add(f[-1])
    names = [n for n in names if re.sub(r"\.\d+$", "", n) in libdata]      # globals of the library, not of the harness
    res.cov["shared_globals_seen"] = len(names)
    res.cov["shared_globals_dispatch_pointers"] = len([n for n in names if n in rtcd])
    for n in names:
        if n in rtcd:
            key = {"kind": "shared_global", "class": "dispatch_pointer"}
        else:
            key = {"kind": "shared_global", "global": re.sub(r"\.\d+$", "", n)}
        res.violation("instances share unsynchronised mutable global state: '%s' is accessed by threads of two instances without "
                      "synchronisation (ThreadSanitizer)" % n, "", key=key)


def run(res):
    res.cov["rule"] = ("cases = TLC populations of Instances.tla + groups of instances run in one process (each group a distinct "
                       "combination of instance configurations and start offsets); an instance is non-trivial if it produced output; "
                       "every instance of every group is compared item by item with its solo run by Observe.tla")
    res.assumptions += ["instances are compared through their outputs (packets, decoded pictures); data races that do not change "
                        "an output are visible only in the model (no TSan build)",
                        "decoder instances decode streams produced beforehand by the encoder recorder"]
    model_part(res)
    rng = random.Random(res.seed * 31 + 17)
    quick = res.tier == "quick"
    exe = vlib.build_harness("multi_record", ["multi_record.c"], variant="hooks", sync=False, libs=("enc", "dec"))
    # streams for the decoder instances
    st = {}
    for name, (w, h, bits, n) in {"s8": (64, 64, 8, 10), "s10": (96, 64, 10, 8)}.items():
        out = os.path.join(vlib.tmpdir(), "c17_stream_%s_%d" % (name, os.getpid()))
        sets = {"enc_mode": 8, "logical_processors": 2}
        if bits == 10:
            sets["encoder_bit_depth"] = 10
        r = common.run_enc(out, ["-n", str(n), "-w", str(w), "-h", str(h), "--bits", str(bits)], sets, timeout=120)
        if r["rc"] != 0:
            raise vlib.ModelFailure("could not produce the stream for the decoder instances")
        st[name] = {"dec": 1, "file": out + ".pkts", "w": w, "h": h, "bits": bits}
    A = {"w": 64, "h": 64, "n": 12, "bits": 8, "content": "motion", "cseed": 1, "sets": {"enc_mode": 8, "logical_processors": 2}}
    A2 = {"w": 64, "h": 64, "n": 30, "bits": 8, "content": "edges", "cseed": 9, "sets": {"enc_mode": 8, "logical_processors": 1, "hierarchical_levels": 3}}
    C = {"w": 96, "h": 64, "n": 8, "bits": 10, "content": "motion", "cseed": 3, "sets": {"enc_mode": 8, "logical_processors": 2, "encoder_bit_depth": 10}}
    D = {"w": 128, "h": 128, "n": 8, "bits": 8, "content": "noise", "cseed": 4, "sets": {"enc_mode": 7, "logical_processors": 4, "qp": 30}}
    E = {"w": 200, "h": 120, "n": 6, "bits": 8, "content": "screen", "cseed": 6, "sets": {"enc_mode": 6, "logical_processors": 3, "tile_columns": 1}}
    Fc = {"w": 64, "h": 64, "n": 8, "bits": 8, "content": "motion", "cseed": 2, "sets": {"enc_mode": 8, "logical_processors": 2, "use_cpu_flags": 0}}
    B128 = {"w": 512, "h": 336, "n": 2, "bits": 8, "content": "motion", "cseed": 5, "sets": {"enc_mode": 4, "logical_processors": 4, "enable_tpl_la": 1}}
    # presets on different sides of the reference-count boundaries (<= M4: 4 references, M5: 2, >= M6: 1), all 64x64 superblocks
    P5 = {"w": 96, "h": 64, "n": 8, "bits": 8, "content": "pan", "cseed": 11, "sets": {"enc_mode": 5, "logical_processors": 2, "qp": 35, "enable_tpl_la": 1}}
    P4 = {"w": 64, "h": 64, "n": 6, "bits": 8, "content": "pan", "cseed": 12, "sets": {"enc_mode": 4, "logical_processors": 2, "qp": 40, "enable_tpl_la": 1}}
    D8 = dict(st["s8"], threads=1)
    D8t = dict(st["s8"], threads=3)
    D10 = dict(st["s10"], threads=1)
    # expect = None: the model guarantees NoInterference for this population (encoders initialised one at a time, all before
    # any of them encodes);
    # otherwise the population the model shows to interfere (judged, and keyed, as that finding)
    stag = {"differs": "init_during_encode"}
    groups = [
        ("pair_8_10bit", [(A, 0), (C, 30)], None),
        ("pair_long_short", [(A2, 0), (A, 150)], None),
        ("pair_preset", [(A, 0), (D, 0)], None),
        ("enc_dec", [(A, 0), (D8, 10)], None),
        ("enc_dec_mt", [(C, 0), (D8t, 0)], None),
        ("triple", [(A, 0), (C, 60), (D10, 20)], None),
        ("pair_asm", [(A, 0), (Fc, 40)], None),
        ("fast_then_slow_preset", [(A, 0), (P5, 200)], None),
        ("slow_then_fast_preset", [(P5, 0), (A, 200)], None),
        ("three_presets", [(A, 0), (P5, 150), (P4, 300)], None),
        ("concinit_pair", [(A, 0), (D, 0)], {"differs": "concurrent_init"}),
        ("concinit_triple", [(A, 0), (D, 0), (E, 0)], {"differs": "concurrent_init"}),
        ("stagger_pair", [(A2, 0), (A, 150)], stag),
        ("stagger_preset", [(A, 0), (D, 0)], stag),
        ("stagger_triple", [(A2, 0), (C, 100), (D, 200)], stag),
        ("sb64_sb128", [(B128, 0), (A2, 300)], {"differs": "sb_size"}),
        ("dec_dec", [(D8, 0), (D10, 0)], {"differs": "two_decoders"}),
    ]
    if not quick:
        pool = [A, A2, C, D, E, Fc, D8, D10]
        for i in range(14):
            k = rng.choice([2, 2, 3])
            g = rng.sample(pool, k)
            if sum(1 for s in g if s.get("dec")) > 1:
                continue
            groups.append(("rand%d" % i, [(s, rng.choice([0, 20, 100, 400])) for s in g], None))
            groups.append(("srand%d" % i, [(s, rng.choice([0, 20, 100, 400])) for s in g], stag))
    # solo references (in parallel)
    solo = {}
    bundle = corpus.Bundle()
    keys = {}
    for name, g, expect in groups:
        for s_, _ in g:
            keys.setdefault(spec_str(s_), s_)
    klist = sorted(keys)
    outs = common.parallel(lambda j: run_multi(exe, [(keys[klist[j]], 0)], "solo%d" % j, 400), list(range(len(klist))), workers=6)
    for key, (rc, evs, cmd) in zip(klist, outs):
        res.case("solo " + key)
        if rc != 0:
            res.violation("instance alone did not complete (rc=%s): %s" % (rc, key), " ".join(cmd), key={"kind": "solo"})
            solo[key] = None
            continue
        solo[key] = obs_of(evs, 0, "solo")
        bundle.add("Observe", [{"ev": "Run", "key": key}] + solo[key] + [{"ev": "RunEnd"}], "solo " + key)
    # groups
    def rung(gg):
        conc = bool(gg[2]) and gg[2].get("differs") == "concurrent_init"
        return run_multi(exe, gg[1], gg[0], 600, barrier=gg[2] is None or conc, concurrent_init=conc)
    gouts = common.parallel(rung, groups, workers=4)
    for (name, g, expect), (rc, evs, cmd) in zip(groups, gouts):
        desc = "group %s: %s" % (name, " || ".join(spec_str(s, d) for s, d in g))
        res.case(desc)
        fkey = dict(kind="interference", **expect) if expect else None
        if rc != 0 or not any(e["ev"] == "AllDone" for e in evs):
            tail = [e for e in evs if e["ev"] in ("Crash", "Timeout", "Fail")]
            res.violation("instances running together did not complete (rc=%s, %s): %s" % (rc, tail[-1:], desc), " ".join(cmd), key=fkey)
            continue
        mism = False
        for i, (s, d) in enumerate(g):
            key = spec_str(s)
            if solo.get(key) is None:
                continue
            co = obs_of(evs, i, "co:" + name)
            if expect:      # a group the model says interferes: judged here, directly, so that the finding stays keyed to the group
                if [(o["class"], o["k"], o["dig"]) for o in co] != [(o["class"], o["k"], o["dig"]) for o in solo[key]]:
                    mism = True
            else:
                bundle.add("Observe", [{"ev": "Run", "key": key}] + co + [{"ev": "RunEnd"}], desc + " / instance %d" % i)
        if expect and mism:
            res.violation("outputs differ from the solo runs: %s" % desc, " ".join(cmd), key=fkey)
        if expect and not mism:
            res.add("interfering_population_ran_clean")
    shared_globals(res, A, D)
    res.sample({"groups": [n for n, _, _ in groups]})
    bundle.validate(res, "Observe", "C17 instance output vs solo run")
    for s in st.values():
        for ext in (".pkts", ".ev", ".trc"):
            p = s["file"][:-5] + ext
            if os.path.exists(p):
                os.remove(p)
