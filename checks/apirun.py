"""Runs call programs generated from Api.tla on the real library (harness/api_replay.c)."""
import json
import os
import random
import sys

import vlib
from checks import common
sys.path.insert(0, os.path.join(vlib.ROOT, "tools"))
import apigraph  # noqa: E402


def phase_of(absstate):
    return dict(absstate).get("phase", "?")


def select(progs, tier, seed):
    """quick: every program ending in a protocol / NULL-argument / out-of-order call + a seeded sample of the
    NULL-handle ones; thorough: everything."""
    if tier == "thorough":
        return progs
    rng = random.Random(seed * 41 + 9)
    core, nulls = [], []
    for p in progs:
        (nulls if p[-1][2] == "NullCall" else core).append(p)
    return core + rng.sample(nulls, min(len(nulls), 120))


def run_programs(progs, lp=2, extra_args=(), timeout=900):
    exe = vlib.build_harness("api_replay", ["api_replay.c"], alloc=True)
    tdir = vlib.tmpdir()

    def one(j):
        i, p = j
        pf = os.path.join(tdir, "prog_%d_%d.txt" % (os.getpid(), i))
        of = pf + ".out"
        open(pf, "w").write("\n".join(c for c, a, act, b in p) + "\n")
        rc, log = vlib.sh([exe, pf, of, "--lp", str(lp)] + list(extra_args), timeout=timeout)
        evs = []
        if os.path.exists(of):
            for line in open(of):
                line = line.strip()
                if line.startswith("{"):
                    try:
                        evs.append(json.loads(line))
                    except ValueError:
                        pass
                elif line.startswith("outstanding"):
                    evs.append({"ev": "Outstanding", "txt": line})
            os.unlink(of)
        os.unlink(pf)
        return {"prog": p, "rc": rc, "events": evs, "log": log[-1500:]}
    return common.parallel(one, list(enumerate(progs)), workers=vlib.NCPU)


def judge_calls(res, r, prop_kinds=("crash", "blocked", "retcode")):
    """C14 judgement of one executed program. Returns list of (key, text)."""
    p = r["prog"]
    calls = [c for c, a, act, b in p]
    out = []
    src_phase = ["none"] + [phase_of(b) for c, a, act, b in p]
    for e in r["events"]:
        if e["ev"] in ("Crash", "Blocked"):
            idx = e.get("idx", -1)
            ph = src_phase[idx] if 0 <= idx < len(src_phase) else src_phase[-1]
            call = e.get("call", "?")
            out.append(({"kind": "crash" if e["ev"] == "Crash" else "blocked", "call": call, "phase": ph},
                        "%s in %s (phase %s, signal %s) after %s" % ("CRASH" if e["ev"] == "Crash" else "call does not return", call, ph, e.get("sig"), calls[:max(idx, 0)])))
        if e["ev"] == "Call" and not e.get("auto") and e["idx"] < len(p):
            call, allow, act, b = p[e["idx"]]
            if e["class"] not in allow:
                out.append(({"kind": "retcode", "call": call, "phase": src_phase[e["idx"]], "got": e["class"]},
                            "%s returned '%s' (rc=%d) in phase %s, allowed %s, after %s" % (call, e["class"], e["rc"], src_phase[e["idx"]], sorted(allow), calls[:e["idx"]])))
    if r["rc"] == -9 and not any(e["ev"] in ("Crash", "Blocked") for e in r["events"]):
        out.append(({"kind": "blocked", "call": "?", "phase": "?"}, "program did not finish: %s" % calls))
    return out
