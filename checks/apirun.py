"""Runs call programs generated from Api.tla on the real library (harness/api_replay.c)."""
import json
import os
import random
import sys

import vlib
from checks import common
sys.path.insert(0, os.path.join(vlib.ROOT, "tools"))
import apigraph  # noqa: E402


def phase_of(absstate):
    return dict(absstate).get("phase", "?")


def select(progs, tier, seed):
    """quick: every program ending in a protocol / NULL-argument / out-of-order call + a seeded sample of the
    NULL-handle ones; thorough: everything."""
    if tier == "thorough":
        return progs
    rng = random.Random(seed * 41 + 9)
    core, nulls = [], []
    for p in progs:
        (nulls if p[-1][2] == "NullCall" else core).append(p)
    return core + rng.sample(nulls, min(len(nulls), 120))


_dec_stream = {}


def dec_stream():
    """a valid 64x64 8-bit stream (3 temporal units) for the decoder programs, produced by the encoder recorder."""
    if "p" not in _dec_stream:
        out = os.path.join(vlib.tmpdir(), "decapi_stream_%d" % os.getpid())
        r = common.run_enc(out, ["-n", "3", "-w", "64", "-h", "64"], {"enc_mode": 8, "logical_processors": 2}, timeout=120)
        if r["rc"] != 0 or not os.path.exists(out + ".pkts"):
            raise vlib.ModelFailure("could not produce the stream for the decoder API programs")
        _dec_stream["p"] = out + ".pkts"
    return _dec_stream["p"]


def dec_exe():
    return vlib.build_harness("dec_api_replay", ["dec_api_replay.c"], alloc=True, libs=("dec",))


def run_programs(progs, lp=2, extra_args=(), timeout=900, dec=False):
    if dec:
        exe = dec_exe()
        extra_args = ["--pkts", dec_stream(), "--threads", str(lp)] + list(extra_args)
    else:
        exe = vlib.build_harness("api_replay", ["api_replay.c"], alloc=True)
    tdir = vlib.tmpdir()

    def one(j):
        i, p = j
        pf = os.path.join(tdir, "prog%s_%d_%d.txt" % ("d" if dec else "", os.getpid(), i))
        of = pf + ".out"
        open(pf, "w").write("\n".join(c for c, a, act, b in p) + "\n")
        rc, log = vlib.sh([exe, pf, of] + ([] if dec else ["--lp", str(lp)]) + list(extra_args), timeout=timeout)
        evs = []
        if os.path.exists(of):
            for line in open(of):
                line = line.strip()
                if line.startswith("{"):
                    try:
                        evs.append(json.loads(line))
                    except ValueError:
                        pass
                elif line.startswith("outstanding"):
                    evs.append({"ev": "Outstanding", "txt": line})
            os.unlink(of)
        os.unlink(pf)
        return {"prog": p, "rc": rc, "events": evs, "log": log[-1500:]}
    results = common.parallel(one, list(enumerate(progs)), workers=vlib.NCPU)
    # a crash / non-return is reported only if it repeats when the program is run again on its own (twice at most):
    # an observation that cannot be reproduced is counted, not reported
    for k, r in enumerate(results):
        bad = [(e["ev"], e.get("call")) for e in r["events"] if e["ev"] in ("Crash", "Blocked")]
        if not bad and r["rc"] != -9:
            continue
        confirmed = False
        for attempt in range(2):
            r2 = one((100000 + k * 4 + attempt, r["prog"]))
            bad2 = [(e["ev"], e.get("call")) for e in r2["events"] if e["ev"] in ("Crash", "Blocked")]
            if (bad and bad2 and bad2[0] == bad[0]) or (not bad and r2["rc"] == -9):
                confirmed = True
                break
        if not confirmed:
            UNCONFIRMED.append({"program": [c for c, a, act, b in r["prog"]], "first": bad or "killed"})
            r2["unconfirmed_first_run"] = bad
            results[k] = r2
    return results


UNCONFIRMED = []


def judge_calls(res, r, prop_kinds=("crash", "blocked", "retcode")):
    """C14 judgement of one executed program. Returns list of (key, text)."""
    p = r["prog"]
    calls = [c for c, a, act, b in p]
    out = []
    src_phase = ["none"] + [phase_of(b) for c, a, act, b in p]
    for e in r["events"]:
        if e["ev"] in ("Crash", "Blocked"):
            idx = e.get("idx", -1)
            ph = src_phase[idx] if 0 <= idx < len(src_phase) else src_phase[-1]
            call = e.get("call", "?")
            out.append(({"kind": "crash" if e["ev"] == "Crash" else "blocked", "call": call, "phase": ph},
                        "%s in %s (phase %s, signal %s) after %s" % ("CRASH" if e["ev"] == "Crash" else "call does not return", call, ph, e.get("sig"), calls[:max(idx, 0)])))
        if e["ev"] == "Call" and not e.get("auto") and e["idx"] < len(p):
            call, allow, act, b = p[e["idx"]]
            if e["class"] not in allow:
                out.append(({"kind": "retcode", "call": call, "phase": src_phase[e["idx"]], "got": e["class"]},
                            "%s returned '%s' (rc=%d) in phase %s, allowed %s, after %s" % (call, e["class"], e["rc"], src_phase[e["idx"]], sorted(allow), calls[:e["idx"]])))
    if r["rc"] == -9 and not any(e["ev"] in ("Crash", "Blocked") for e in r["events"]):
        out.append(({"kind": "blocked", "call": "?", "phase": "?"}, "program did not finish: %s" % calls))
    return out
