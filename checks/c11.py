"""C11 -- encoding never corrupts memory, hits undefined behaviour or hangs.
Session.tla is the statement of 'the full encode from init through EOS to teardown completes without error packets'
(every API event of the run must be a step of it, Drained and teardown included); the runs are executed in the
ASan+UBSan build of the library (ASan stops the run at its first report, UBSan reports every site of a run) under a wall-clock timeout,
over configurations that ParamDomain.tla classifies as accepted x contents x picture sizes (non multiples of 8).
A sanitizer report, a timeout, a non-zero exit or a rejected session trace is a violation."""
import os
import random
import re

import vlib
from checks import common, corpus, stream

LEVEL = "exploration"

CONTENTS = ["noise", "flat", "grad", "extreme", "edges", "screen", "motion"]


def cases(res):
    rng = random.Random(res.seed * 7 + 11)
    quick = res.tier == "quick"
    out = []

    def add(n, w, h, content, sets, bits=8, args=()):
        s = {"enc_mode": 8, "logical_processors": 4, "recon_enabled": 1}
        s.update(sets)
        if bits == 10:
            s["encoder_bit_depth"] = 10
        out.append({"args": ["-n", str(n), "-w", str(w), "-h", str(h), "--bits", str(bits), "--content", content, "--cseed", str(rng.randrange(1000))] + list(args),
                    "sets": s, "n": n, "w": w, "h": h, "bits": bits})
    # sizes that are not multiples of 8 / of the superblock, every content class
    sizes = [(64, 64), (66, 66), (70, 74), (72, 66), (130, 98), (200, 120), (258, 66), (64, 258)]
    for i, (w, h) in enumerate(sizes if not quick else sizes[:6]):
        add(5, w, h, CONTENTS[i % len(CONTENTS)], {})
    for c in CONTENTS:
        add(4, 96, 80, c, {"qp": rng.choice([0, 1, 63])})
    # extreme quantizers on incompressible / extreme content (bitstream buffer sizing)
    add(3, 128, 128, "noise", {"qp": 0})
    add(3, 128, 128, "extreme", {"qp": 0, "enable_tpl_la": 0})
    add(3, 128, 128, "noise", {"qp": 63})
    add(3, 136, 72, "noise", {"qp": 0}, bits=10)
    # incompressible pictures large enough to outgrow every initial bitstream / entropy-coder buffer (> 64 KB per tile)
    add(3, 352, 288, "noise", {"qp": 1})
    add(2, 384, 256, "noise", {"qp": 20, "tile_columns": 1}, bits=10)
    # tools: tiles, superres, film grain, screen content, 10 bit, 16-bit pipeline, rate control, presets
    add(5, 256, 192, "motion", {"tile_columns": 2, "tile_rows": 1})
    add(5, 192, 256, "edges", {"tile_columns": 1, "tile_rows": 2, "logical_processors": 8})
    add(5, 132, 100, "motion", {"superres_mode": 1, "superres_denom": 12, "superres_kf_denom": 16})
    add(5, 132, 100, "grad", {"superres_mode": 2})
    add(5, 128, 96, "noise", {"film_grain_denoise_strength": 10})
    add(5, 130, 90, "noise", {"film_grain_denoise_strength": 50}, bits=10)
    add(5, 128, 96, "screen", {"screen_content_mode": 1, "intrabc_mode": 1, "palette_level": 1})
    add(5, 120, 72, "screen", {"screen_content_mode": 1, "palette_level": 6, "enc_mode": 6})
    # the same tools on pictures taller than wide (and not multiples of 32): per-picture buffers sized from one dimension and walked
    # with the other only show when height > width
    add(4, 64, 128, "noise", {"film_grain_denoise_strength": 8, "qp": 30})
    add(4, 100, 200, "noise", {"film_grain_denoise_strength": 30}, bits=10)
    add(4, 100, 132, "motion", {"superres_mode": 1, "superres_denom": 12, "superres_kf_denom": 16})
    add(4, 72, 120, "screen", {"screen_content_mode": 1, "intrabc_mode": 1, "palette_level": 1})
    add(5, 96, 72, "motion", {}, bits=10)
    add(5, 96, 72, "extreme", {"enable_hbd_mode_decision": 2}, bits=10)
    add(5, 96, 72, "motion", {"is_16bit_pipeline": 1})
    add(12, 96, 64, "motion", {"rate_control_mode": 1, "target_bit_rate": 100000})
    add(12, 96, 64, "noise", {"rate_control_mode": 2, "target_bit_rate": 50000, "intra_period_length": 7, "look_ahead_distance": 7})
    add(10, 64, 64, "motion", {"enable_overlays": 1, "tf_level": 1, "hierarchical_levels": 3})
    add(9, 64, 64, "motion", {"hierarchical_levels": 5})
    # two-pass encoding (first pass statistics, then CQP / VBR second pass)
    for sets in ({}, {"rate_control_mode": 1, "target_bit_rate": 150000}):
        add(20, 128, 96, "motion", sets)
        out[-1]["twopass"] = True
    for p in ((6, 4) if quick else (7, 6, 5, 4, 3, 2, 1, 0)):
        add(3, 80, 72, "motion", {"enc_mode": p, "enable_tpl_la": 1})
    if not quick:
        for _ in range(40):
            w = rng.choice([64, 66, 68, 70, 72, 100, 128, 190, 322])
            h = rng.choice([64, 66, 68, 70, 72, 90, 128, 182])
            sets = {"enc_mode": rng.choice([8, 8, 7, 6, 5]), "qp": rng.choice([0, 10, 32, 50, 63]),
                    "logical_processors": rng.choice([1, 2, 4, 8]),
                    "hierarchical_levels": rng.choice([0, 1, 2, 3, 4]), "intra_period_length": rng.choice([-1, 0, 3, 8, 31])}
            for k, vs in (("disable_dlf_flag", [0, 1]), ("cdef_level", [-1, 0, 1, 4]), ("enable_restoration_filtering", [-1, 0, 1]),
                          ("enable_warped_motion", [-1, 0, 1]), ("obmc_level", [-1, 0, 1, 3]), ("mrp_level", [-1, 0, 1, 9]),
                          ("enable_adaptive_quantization", [0, 1, 2]), ("unrestricted_motion_vector", [0, 1]),
                          ("tf_level", [-1, 0, 1, 3]), ("compound_level", [-1, 0, 1, 2]), ("tile_columns", [0, 0, 1])):
                if rng.random() < 0.4:
                    sets[k] = rng.choice(vs)
            add(rng.choice([3, 6, 10]), w, h, rng.choice(CONTENTS), sets, bits=rng.choice([8, 8, 10]))
        add(2, 1920, 1080, "motion", {"logical_processors": 16})
        add(1, 4096, 2160, "noise", {"logical_processors": 16, "qp": 20})
        add(2, 4096, 64, "grad", {})
        add(2, 64, 2160, "edges", {})
    return out


SAN = re.compile(r"(ERROR: AddressSanitizer: [^\n]*|runtime error: [^\n]*|ERROR: LeakSanitizer[^\n]*|SUMMARY: \w+Sanitizer: [^\n]*)")


def ub_sites(log):
    """every distinct UBSan report of the run: (file, message with the numbers abstracted, file:line, full message).
    The finding key uses file + abstracted message, so that it survives unrelated edits that move lines."""
    seen, out = set(), []
    for a, b, c in re.findall(r"([\w./-]+\.[ch]):(\d+):\d+: runtime error: ([^\n]*)", log):
        f = os.path.basename(a)
        norm = re.sub(r"0x[0-9a-f]+", "ADDR", c)
        norm = re.sub(r"-?\d+(\.\d+)?(e[+-]?\d+)?", "N", norm)
        if (f, norm) not in seen:
            seen.add((f, norm))
            out.append((f, norm, "%s:%s" % (f, b), c))
    return out


def site_of(log):
    """first library frame of an ASan report."""
    m = re.search(r"ERROR: AddressSanitizer: (\S+)", log)
    if m:
        fr = re.findall(r"#\d+ 0x[0-9a-f]+ in (\w+) ([^\s]+)", log)
        # first frame inside the library that is not a generic copy/set helper
        fn = next((f for f, p in fr if ("/repo" in p or "Source/" in p) and not re.search(r"memcpy|memset|memmove", f)), fr[0][0] if fr else "?")
        return fn, "asan", m.group(1)
    return None, None, None


def run(res):
    res.cov["rule"] = ("cases = recorder command lines in the ASan+UBSan build (configuration x content x size x bit depth); "
                       "non-trivial = at least one picture encoded; each run is validated against Session.tla and its log searched for "
                       "sanitizer reports")
    res.assumptions += ["UBSan without alignment/shift-base/shift-exponent groups (the code base relies on them in SIMD glue and the entropy coder)",
                        "configurations are taken from the accepted part of ParamDomain.tla; sizes up to 4096x2160 only in thorough"]
    cs = cases(res)
    tmo = 300 if res.tier == "quick" else 1500
    rs = corpus.run_cases(cs, want_dec=None, timeout=tmo, variant="san")
    b = corpus.Bundle()
    for r in rs:
        res.case(r["desc"])
        log = r["log"]
        st = r["case"]["sets"]
        for ufile, unorm, usite, umsg in ub_sites(log):
            res.add("ubsan_reports")
            res.violation("undefined behaviour at %s (%s) during: %s" % (usite, umsg, r["desc"]), log[-3000:],
                          key={"kind": "ubsan", "file": ufile, "what": unorm})
        site, kind, msg = site_of(log)
        if site:
            res.violation("%s report in %s (%s) during: %s" % (kind, site, msg, r["desc"]),
                          "\n".join(SAN.findall(log)[:6]) + "\n\n" + log[-6000:], key={"kind": kind, "site": site, "what": msg})
            continue
        if r["rc"] != 0:
            tail = [e for e in r["events"] if e["ev"] in ("Timeout", "Drained")]
            res.violation("encode did not complete (rc=%s, %s): %s" % (r["rc"], tail[-1:], r["desc"]), log[-3000:],
                          key={"kind": "incomplete", "hierarchical_levels": st.get("hierarchical_levels", 4),
                               "enc_mode_le_5": int(int(st.get("enc_mode", 8)) <= 5),
                               "intra_period_odd": int(int(st.get("intra_period_length", -2)) > 0 and int(st.get("intra_period_length", -2)) % 2 == 1)})
            continue
        res.add("encodes_completed_clean")
        b.add("Session", stream.session_events(r), r["desc"])
    res.sample({"first_case": rs[0]["desc"], "rc": rs[0]["rc"]})
    b.validate(res, "Session", "C11 session completes without error packets")
    corpus.cleanup(rs)
