"""C15 -- teardown at any point releases every resource.
Model: Api.tla (teardown is enabled from every state that has a handle) + SRM.tla shutdown semantics.
Code: (a) every call program of the Api.tla transition cover is followed by deinit ; deinit_handle and the
link-time ledger (malloc/calloc/realloc/posix_memalign/free, mutex, semaphore, thread creation and
destruction, interposed with -Wl,--wrap) must be empty, the thread count back to what it was, and teardown
must return; (b) mid-stream teardown of real encodes after k pictures without EOS, with g packets retrieved,
x logical_processors x recon; (c) repeated create/encode/destroy cycles in one process; (d) decoder sessions."""
import json
import os
import random

import vlib
from checks import apirun, common, corpus
import apigraph

LEVEL = "model_checking"


def ledger_of(events):
    for e in events:
        if e["ev"] == "Ledger":
            return e
    return None


def judge_ledger(res, desc, events, rc, log, key_extra):
    led = ledger_of(events)
    blocked = [e for e in events if e["ev"] in ("Blocked", "Timeout")]
    crashed = [e for e in events if e["ev"] == "Crash"]
    if blocked:
        ph = blocked[0].get("phase") or blocked[0].get("call")
        res.violation("teardown/session does not return (%s): %s" % (ph, desc), json.dumps(events[-6:]) + "\n" + log[-800:],
                      key=dict(key_extra, kind="hang", where=str(ph)))
        return
    if crashed or rc not in (0, 6):
        if not led:
            res.violation("session crashed before the ledger could be read (rc=%s): %s" % (rc, desc), json.dumps(events[-6:]) + "\n" + log[-800:],
                          key=dict(key_extra, kind="crash"))
            return
    if not led:
        return
    if led["mem"] or led["mutex"] or led["sem"] or led["thread"]:
        outs = [e.get("txt", "") for e in events if e["ev"] == "Outstanding"]
        res.violation("resources left after teardown: %d memory blocks, %d mutexes, %d semaphores, %d threads: %s" %
                      (led["mem"], led["mutex"], led["sem"], led["thread"], desc), "\n".join(outs) + "\n" + json.dumps(events[-8:]),
                      key=dict(key_extra, kind="leak"))
    if led["tasks_after"] != led["tasks_before"]:
        res.violation("library threads still alive after teardown (%d -> %d): %s" % (led["tasks_before"], led["tasks_after"], desc), "",
                      key=dict(key_extra, kind="threads"))


def run(res):
    res.cov["rule"] = ("cases = Api.tla transition-cover programs (each torn down wherever it stops) x logical_processors + mid-stream teardown "
                       "points (pictures sent, policy, recon, lp) + repeated-session runs + decoder sessions; distinct by program / command line")
    res.assumptions += ["the ledger sees every allocation and OS object the library creates through malloc/calloc/realloc/posix_memalign and its own create wrappers",
                        "memory growth across cycles is judged by the ledger (exact), not by RSS"]
    r, nodes, edges = apigraph.load_graph()
    res.tlc_stats(r)
    progs = apigraph.programs(nodes, edges)
    core = [p for p in progs if p[-1][2] != "NullCall"]
    rng = random.Random(res.seed * 43 + 4)
    lps = [2] if res.tier == "quick" else [1, 2, 4]
    sel = core if res.tier == "thorough" else rng.sample(core, min(len(core), 160))
    for lp in lps:
        for rr in apirun.run_programs(sel, lp=lp):
            calls = [c for c, a, act, b in rr["prog"]]
            res.case("lp=%d %s" % (lp, json.dumps(calls)))
            inflight = "send_picture(h,pic)" in calls and "drain_packets(h)" not in calls
            judge_ledger(res, "lp=%d program %s" % (lp, calls), rr["events"], rr["rc"] if rr["rc"] in (0,) else (0 if ledger_of(rr["events"]) else rr["rc"]),
                         rr["log"], {"lp": lp, "what": "midstream" if inflight else "api_program"})
    res.add("traces_validated_against_impl", len(sel) * len(lps))
    # (a') the decoder's protocol (DecApi.tla): every program torn down wherever it stops, 1 and 3 decoder threads
    rd, dnodes, dedges = apigraph.load_graph("DecApi", "DecApi.cfg")
    res.tlc_stats(rd)
    dprogs = [p for p in apigraph.programs(dnodes, dedges) if p[-1][2] != "NullCall"]
    for threads in (1, 3):
        for rr in apirun.run_programs(dprogs, lp=threads, dec=True):
            calls = [c for c, a, act, b in rr["prog"]]
            res.case("dec threads=%d %s" % (threads, json.dumps(calls)))
            judge_ledger(res, "decoder threads=%d program %s" % (threads, calls), rr["events"],
                         rr["rc"] if rr["rc"] in (0,) else (0 if ledger_of(rr["events"]) else rr["rc"]), rr["log"],
                         {"threads": threads, "what": "dec_api_program"})
        res.add("traces_validated_against_impl", len(dprogs))
    # (b) mid-stream teardown of real encodes
    exe = common.enc_record_exe(alloc=True)
    tdir = vlib.tmpdir()
    jobs = []
    ks = [0, 1, 5, 20, 30] if res.tier == "quick" else [0, 1, 2, 5, 9, 20, 30, 40, 70]
    for k in ks:
        for lp in ([1, 4] if res.tier == "quick" else [1, 2, 4, 8]):
            for recon in (0, 1):
                for pol in (["each", "none"] if res.tier == "quick" else ["each", "none", "every:3"]):
                    jobs.append((["-n", "100", "--stop-after", str(k), "--policy", pol], {"enc_mode": 8, "logical_processors": lp, "recon_enabled": recon}))
    # full sessions with different feature sets (drained, then torn down)
    for sets, args in [({"screen_content_mode": 1}, ["--content", "screen", "-w", "128", "-h", "128"]),
                       ({"enable_overlays": 1, "tf_level": 1, "hierarchical_levels": 3}, []), ({"tile_columns": 1}, ["-w", "256", "-h", "64"]),
                       ({"rate_control_mode": 1, "target_bit_rate": 100000}, []), ({"film_grain_denoise_strength": 10}, ["--content", "noise"]),
                       ({}, ["--bits", "10"]), ({"superres_mode": 1, "superres_denom": 12, "superres_kf_denom": 12}, ["-w", "128", "-h", "128"])]:
        s = {"enc_mode": 8, "logical_processors": 2, "recon_enabled": 1}
        s.update(sets)
        jobs.append((["-n", "17"] + args, s))

    def one(j):
        i, (args, sets) = j
        out = os.path.join(tdir, "led_%d" % i)
        cmd = [exe, "--out", out, "--timeout", "40"] + args
        for kk, vv in sets.items():
            cmd += ["--set", "%s=%s" % (kk, vv)]
        rc, log = vlib.sh(cmd, timeout=40 * 8 + 60)    # the recorder extends its own 40 s alarm while the session still makes progress
        evs = []
        if os.path.exists(out + ".ev"):
            for line in open(out + ".ev"):
                line = line.strip()
                if line.startswith("{") and '"Defaults"' not in line and '"Cfg"' not in line:
                    try:
                        evs.append(json.loads(line))
                    except ValueError:
                        pass
                elif line.startswith("outstanding"):
                    evs.append({"ev": "Outstanding", "txt": line})
        for ext in (".ev", ".pkts"):
            if os.path.exists(out + ext):
                os.unlink(out + ext)
        return args, sets, rc, log, evs
    for args, sets, rc, log, evs in common.parallel(one, list(enumerate(jobs))):
        desc = "enc_record " + " ".join(args) + " " + " ".join("%s=%s" % kv for kv in sorted(sets.items()))
        res.case(desc)
        mid = "--stop-after" in args
        key = {"lp": sets["logical_processors"], "what": "midstream" if mid else "full_session",
               "overlays": int(sets.get("enable_overlays", 0))}
        judge_ledger(res, desc, evs, rc, log, key)
    res.add("traces_validated_against_impl", len(jobs))
    # (c) repeated sessions in one process
    prog = [p for p in core if [c for c, a, act, b in p][-1] == "drain_packets(h)"]
    if prog:
        p = prog[0]
        exe2 = vlib.build_harness("api_replay", ["api_replay.c"], alloc=True)
        pf = os.path.join(tdir, "cycle.prog")
        open(pf, "w").write("\n".join(c for c, a, act, b in p) + "\n")
        n = 8 if res.tier == "quick" else 30
        rc, log = vlib.sh([exe2, pf, pf + ".out", "--repeat", str(n), "--lp", "2"], timeout=300)
        evs = [json.loads(l) for l in open(pf + ".out") if l.startswith("{")] if os.path.exists(pf + ".out") else []
        cyc = [e for e in evs if e["ev"] == "Cycle"]
        res.case("repeat %d sessions" % n)
        res.cov["cycles"] = len(cyc)
        if len(cyc) != n:
            res.violation("repeated create/encode/destroy did not complete %d cycles (rc=%s)" % (n, rc), log[-1500:], key={"what": "cycles", "kind": "hang"})
        for e in cyc:
            if e["mem"] or e["mutex"] or e["sem"] or e["thread"] or e["tasks"] != 1:
                res.violation("resources grow across sessions: after cycle %d: %s" % (e["rep"], json.dumps(e)), "", key={"what": "cycles", "kind": "leak"})
                break
    res.sample({"midstream_case": jobs[0][0], "sets": jobs[0][1]})
    res.sample({"api_program": [c for c, a, act, b in sel[0]]})
