"""C21 -- output depends only on the visible samples of each submitted picture.
Observe.tla: stride (+0,+2,+16,+64), the bytes in the stride padding (0, 0xFF, random) and what the caller does
with its buffers after send_picture returns (keep / overwrite / free and reallocate) are environment; the
packets and recon must equal those of the plain run.  The sanitizer build makes a late read of freed caller
memory observable (thorough)."""
import itertools

import vlib
from checks import obsfam

LEVEL = "model_checking"
CONFIGS = [("motion", 64, 64, 8, 12), ("noise", 66, 70, 8, 8), ("grad", 178, 146, 8, 6), ("motion", 96, 80, 10, 8)]
CONFIGS_THOROUGH = [("edges", 130, 98, 10, 8), ("screen", 322, 194, 8, 5), ("extreme", 64, 64, 8, 17), ("motion", 258, 66, 8, 8)]


def run(res):
    res.cov["rule"] = ("cases = content/size/bit depth x stride x padding bytes x what the caller does with its buffers after each send "
                       "(complete product for the quick sizes); all members of a group must agree with the plain run")
    res.assumptions += ["the environment choice space per send is enumerated completely for the listed values; contents are sampled"]
    envs = []
    for se, pad, scr in itertools.product([0, 2, 16, 64], ["0", "255", "rand"], [0, 1, 2]):
        if se == 0 and pad != "0":
            continue
        envs.append((se, pad, scr))
    # the three planes have INDEPENDENT strides in the API: luma / Cb / Cr extras that all differ
    for se in ("32:8:40", "0:24:2", "6:0:16"):
        for pad, scr in (("rand", 1), ("255", 0)):
            envs.append((se, pad, scr))
    groups = []
    for content, w, h, bits, n in CONFIGS + ([] if res.tier == "quick" else CONFIGS_THOROUGH):
        base = ["-n", str(n), "-w", str(w), "-h", str(h), "--bits", str(bits), "--content", content]
        cs = []
        for se, pad, scr in (envs if res.tier == "thorough" or (w, h) == (64, 64) else envs[::3] + envs[-6:]):
            args = base + ["--stride-extra", str(se), "--pad", pad, "--scribble", str(scr)]
            cs.append({"args": args, "key_args": base, "sets": {"enc_mode": 8, "logical_processors": 2, "recon_enabled": 1}, "n": n, "w": w, "h": h, "bits": bits})
        groups.append((obsfam.key_of(cs[0]), cs))

    def known(r, kind):
        a = r["case"]["args"]
        return {"kind": kind, "stride_extra": a[a.index("--stride-extra") + 1], "bits": r["case"]["bits"]}
    obsfam.run_groups(res, groups, timeout=90, what="C21 independence of stride / padding / caller buffer reuse", known_key_fn=known)
    if res.tier == "thorough":
        g2 = [(k + "#asan", [dict(c) for c in cs[:8]]) for k, cs in groups[:2]]
        obsfam.run_groups(res, g2, timeout=300, variant="san", what="C21 under ASan (caller frees its buffers after every send)", known_key_fn=known)
    r = vlib.tlc("Api", "Api.cfg", timeout=900)
    res.tlc_stats(r)
    res.add("traces_validated_against_impl", 0)
