"""C06 -- output independent of the instruction set.  Observe.tla with use_cpu_flags as environment."""
import vlib
from checks import obsfam

LEVEL = "exploration"
FLAGS = [0, (1 << 3) - 1, (1 << 5) - 1, (1 << 6) - 1, (1 << 9) - 1, (1 << 16) - 1]   # C, ..SSE2, ..SSSE3, ..SSE4_1, ..AVX2, ALL
CONFIGS = [
    ({}, "motion", 128, 128, 8, 10),
    ({}, "noise", 96, 80, 10, 8),
    ({"enc_mode": 6}, "extreme", 128, 64, 8, 8),
    ({"screen_content_mode": 1}, "screen", 128, 128, 8, 8),
]
# screen content with many colours per block (palette colour search / k-means kernels), several seeds, C vs AVX2 vs ALL
DESKTOP = [({"screen_content_mode": 1, "logical_processors": 1}, "desktop", 192, 128, 8, 8, cs) for cs in (1, 2, 3, 4, 5, 6)]
CONFIGS_THOROUGH = [
    ({"enc_mode": 4}, "motion", 128, 128, 8, 6), ({"enc_mode": 2}, "grad", 64, 64, 8, 4),
    ({"enc_mode": 5}, "edges", 200, 136, 10, 8), ({"film_grain_denoise_strength": 10}, "noise", 128, 64, 8, 8),
    ({"superres_mode": 1, "superres_denom": 12, "superres_kf_denom": 12}, "grad", 192, 128, 8, 8),
    ({"rate_control_mode": 1, "target_bit_rate": 100000, "logical_processors": 1}, "motion", 176, 144, 8, 12),
    ({"enable_overlays": 1, "tf_level": 1, "hierarchical_levels": 3}, "motion", 128, 64, 8, 17),
    ({"tile_columns": 1, "tile_rows": 1}, "flat", 256, 128, 8, 8), ({"qp": 63}, "noise", 64, 64, 8, 8), ({"qp": 2}, "noise", 64, 64, 10, 6),
    ({"enable_tpl_la": 1, "look_ahead_distance": 17}, "motion", 128, 128, 8, 20), ({"enc_mode": 7}, "extreme", 66, 70, 8, 8),
]


def run(res):
    res.cov["rule"] = ("cases = configurations/contents x use_cpu_flags in {C only, ..SSE2, ..SSSE3, ..SSE4_1, ..AVX2, ALL}; "
                       "each level runs in its own process (dispatch tables are process-global); all levels of one configuration must agree")
    res.assumptions += ["AVX-512 kernels are exercised only if the build enables them (default build: ENABLE_AVX512=OFF)",
                        "a divergent kernel is seen only if it changes a packet or recon digest of these inputs"]
    groups = []
    for sets, content, w, h, bits, n in CONFIGS + ([] if res.tier == "quick" else CONFIGS_THOROUGH):
        base = ["-n", str(n), "-w", str(w), "-h", str(h), "--bits", str(bits), "--content", content]
        cs = []
        for fl in FLAGS:
            s = {"enc_mode": 8, "logical_processors": 2, "recon_enabled": 1}
            s.update(sets)
            s["use_cpu_flags"] = fl
            cs.append({"args": list(base), "sets": s, "n": n, "w": w, "h": h, "bits": bits})
        groups.append((obsfam.key_of(cs[0], ignore=("use_cpu_flags",)), cs))
    for sets, content, w, h, bits, n, cseed in (DESKTOP[:4] if res.tier == "quick" else DESKTOP):
        base = ["-n", str(n), "-w", str(w), "-h", str(h), "--bits", str(bits), "--content", content, "--cseed", str(cseed)]
        cs = []
        for fl in (FLAGS[0], FLAGS[4], FLAGS[5]):
            s = {"enc_mode": 8, "recon_enabled": 1}
            s.update(sets)
            s["use_cpu_flags"] = fl
            cs.append({"args": list(base), "sets": s, "n": n, "w": w, "h": h, "bits": bits})
        groups.append((obsfam.key_of(cs[0], ignore=("use_cpu_flags",)), cs))
    # SIMD kernels are selected by block width, and the blocks at the right / bottom picture edge (and their down-scaled versions in
    # hierarchical motion estimation: 1/2 and 1/4 size) take every width the picture size leaves: sweep the residues of the picture
    # size modulo the superblock size, with content whose motion makes the search results matter; C vs AVX2 vs ALL
    sizes = [(72, 72), (88, 64), (104, 72), (120, 72)] if res.tier == "quick" else \
            [(64 + r, 72) for r in range(8, 64, 8)] + [(128, 64 + r) for r in range(8, 64, 8)] + [(360, 240), (184, 104)]
    for i, (w, h) in enumerate(sizes):
        for content, bits in ((("fastpan", 8),) if res.tier == "quick" else (("fastpan", 8), ("noise", 8), ("fastpan", 10))):
            base = ["-n", "6", "-w", str(w), "-h", str(h), "--bits", str(bits), "--content", content, "--cseed", str(11 + i)]
            cs = []
            for fl in (FLAGS[0], FLAGS[4], FLAGS[5]):
                cs.append({"args": list(base), "sets": {"enc_mode": 8, "recon_enabled": 1, "logical_processors": 1, "qp": 32, "use_cpu_flags": fl},
                           "n": 6, "w": w, "h": h, "bits": bits})
            groups.append((obsfam.key_of(cs[0], ignore=("use_cpu_flags",)), cs))
    obsfam.run_groups(res, groups, timeout=240, what="C06 independence of the instruction set")
