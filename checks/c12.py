"""C12 -- parameter validation accepts exactly the documented parameter domain.
specs/ParamDomain.tla is the documented domain (header comments, user guide tables, diagnostic texts; values on
which the sources disagree are 'ambiguous' and never judged).  TLC enumerates the case space (single-field boundary
sweeps for every documented field + complete products of the coupled groups); harness/param_replay.c executes
every case on the real library (fresh handle, init_handle defaults, apply, svt_av1_enc_set_parameter) in a forked
child; TLC then judges every recorded row (the configuration exactly as stored + return code) with Verdict.
thorough adds random pairs/triples of probes of independent fields and the ASan build."""
import json
import os
import random

import vlib
from checks import common

LEVEL = "model_checking"


def gen_cases(res):
    out = os.path.join(vlib.tmpdir(), "c12_cases_%d.ndjson" % os.getpid())
    r = vlib.tlc("ParamDomain", "ParamDomain_gen.cfg", workers=1, env={"OUT": out}, timeout=600)
    res.tlc_stats(r)
    res.case("tlc:ParamDomain_gen")
    if not r["ok"]:
        raise vlib.ModelFailure("ParamDomain.tla: documented-domain table is not sane (%s)\n%s" % (r["violated"], r["out"][-2000:]))
    return [json.loads(l) for l in open(out) if l.strip()]


def case_line(case):
    return " ".join("%s=%d" % (a["f"], a["v"]) for a in case)


def _execute_chunk(args):
    exe, cases, tag, k = args
    inp = "\n".join(case_line(c) for c in cases) + "\n"
    rows_path = os.path.join(vlib.tmpdir(), "c12_rows_%s_%d_%d.ndjson" % (tag, os.getpid(), k))
    cmd = "exec 3>%s; %s 180 >/dev/null 2>&1" % (rows_path, exe)
    import subprocess
    subprocess.run(["bash", "-c", cmd], input=inp.encode(), timeout=3600)
    rows = {}
    extra = []
    for l in open(rows_path):
        l = l.strip()
        if not l:
            continue
        try:
            r = json.loads(l)
        except ValueError:
            raise vlib.ModelFailure("param_replay wrote a malformed row: %s" % l[:300])
        if r.get("in_deinit"):
            extra.append(r)
        else:
            rows[r["i"]] = r
    os.remove(rows_path)
    return [rows.get(i + 1) for i in range(len(cases))], extra


UNCONFIRMED = []


def execute(exe, cases, tag):
    """Run the cases (in parallel chunks); returns list of rows aligned with cases (row or None) + deinit crash notes."""
    n = max(1, min(vlib.NCPU - 2, len(cases) // 50 or 1))
    size = (len(cases) + n - 1) // n
    chunks = [(exe, cases[i:i + size], tag, i) for i in range(0, len(cases), size)]
    outs = common.parallel(_execute_chunk, chunks, workers=n)
    rows, extra = [], []
    for (exe_, cs, tag_, base), (rs, ex) in zip(chunks, outs):
        for r in rs:
            if r is not None:
                r["i"] += base
        for r in ex:
            r["i"] += base
        rows += rs
        extra += ex
    # a child that dies or is killed BEFORE it calls svt_av1_enc_set_parameter (in init_handle, under a sanitizer on a loaded host) says
    # nothing about the call under test: such cases are run again on their own and judged by what the repetition observes; only
    # a repeated early death is reported (crashes inside the call are never re-run)
    for i, (c, r) in enumerate(zip(cases, rows)):
        if r is None or (not r.get("cfg") and r.get("before_call")):
            for attempt in range(2):
                rs, ex = _execute_chunk((exe, [c], tag + "_again%d_%d" % (i, attempt), 0))
                if rs and rs[0] is not None and (rs[0].get("cfg") or not rs[0].get("before_call")):
                    rs[0]["i"] = i + 1
                    rows[i] = rs[0]
                    UNCONFIRMED.append({"case": case_line(c), "first_observation": r})
                    break
    return rows, extra


def judge(res, cases, rows, tag, selftest=False):
    """TLC judges the complete rows; returns list of (case, row, note)."""
    bad = []
    complete = []
    for c, r in zip(cases, rows):
        if r is None:
            bad.append((c, {"ret": None}, {"verdict": "?", "why": ["no row recorded"], "kind": "norow"}))
        elif not r.get("cfg"):
            if r.get("before_call") and r.get("signal") == 14:
                # the child's alarm fired before svt_av1_enc_set_parameter was even called (machine overloaded): not an observation
                raise vlib.ModelFailure("param_replay timed out before calling set_parameter for: %s" % case_line(c))
            kind = "crash-before-call" if r.get("before_call") else "harness"
            bad.append((c, r, {"verdict": "?", "why": [kind], "kind": kind}))
        else:
            complete.append((c, r))
    p = os.path.join(vlib.tmpdir(), "c12_judge_%s_%d.ndjson" % (tag, os.getpid()))
    vlib.write_ndjson(p, [{"cfg": r["cfg"], "ret": r["ret"], "returned": r["returned"]} for _, r in complete])
    vp = p + ".verdicts"
    if os.path.exists(vp):
        os.remove(vp)
    r = vlib.tlc("ParamDomain", "ParamDomain_judge.cfg", workers=1, env={"TRACE": p, "VERDICTS": vp}, timeout=1800)
    res.tlc_stats(r)
    res.add("traces_validated_against_impl", 1)
    res.add("rows_judged", len(complete))
    if r["depth"] - 1 != len(complete):
        raise vlib.ModelFailure("ParamDomain judge consumed %d of %d rows:\n%s" % (r["depth"] - 1, len(complete), r["out"][-3000:]))
    notes = [json.loads(l) for l in open(vp) if l.strip()] if os.path.exists(vp) else []
    if not notes or "accept" not in notes[0]:
        raise vlib.ModelFailure("ParamDomain judge wrote no verdict counts:\n%s" % r["out"][-3000:])
    counts, notes = notes[0], notes[1:]
    for k in ("accept", "reject", "skip"):
        res.add("rows_verdict_" + k, counts[k])
    if selftest:
        return notes
    if (not r["ok"]) != bool(notes):
        raise vlib.ModelFailure("ParamDomain judge: outcome and notes disagree:\n%s" % r["out"][-3000:])
    for n in notes:
        c, row = complete[n["i"] - 1]
        if not row["returned"]:
            n["kind"] = "crash"
        elif n["verdict"] == "reject":
            n["kind"] = "accepted-invalid" if row["ret"] == 0 else "wrong-code"
        else:
            n["kind"] = "rejected-valid"
        bad.append((c, row, n))
    return bad


def report(res, bad, tag):
    for c, row, n in bad:
        line = case_line(c)
        why = sorted(n.get("why") or [])
        if n["kind"] == "accepted-invalid":
            # explained only if EVERY violated documented clause is a listed unvalidated one
            keys = [{"kind": "accepted-invalid", "why": w} for w in why]
            unknown = [k for k in keys if not vlib.match_finding("C12", k)]
            what = ("svt_av1_enc_set_parameter accepts a configuration outside the documented domain: %s (violated: %s)"
                    % (line, ", ".join(why)))
            if not unknown:
                for k in keys:
                    res.violation(what, None, k)
                continue
            res.violation(what, "case: %s\nnote: %s\nrow: %s" % (line, json.dumps(n), json.dumps(row)[:4000]), None)
        elif n["kind"] == "rejected-valid":
            fields = sorted(set(a["f"].split("[")[0] for a in c))
            res.violation("svt_av1_enc_set_parameter rejects (0x%08x) a configuration inside the documented domain: %s"
                          % ((row["ret"] or 0) & 0xffffffff, line),
                          "case: %s\nrow: %s" % (line, json.dumps(row)[:4000]), {"kind": "rejected-valid", "case": line})
        elif n["kind"] == "wrong-code":
            res.violation("svt_av1_enc_set_parameter rejects an invalid configuration with 0x%08x instead of EB_ErrorBadParameter: %s"
                          % ((row["ret"] or 0) & 0xffffffff, line), "case: %s" % line, {"kind": "wrong-code", "why": why[0] if why else ""})
        else:
            fields = sorted(set(a["f"].split("[")[0] for a in c))
            res.violation("svt_av1_enc_set_parameter does not return (%s, signal %s) for: %s" % (n["kind"], row.get("signal"), line),
                          "case: %s\nrow: %s" % (line, json.dumps(row)[:4000]), {"kind": "crash", "fields": "+".join(fields), "variant": tag})


def run(res):
    res.cov["rule"] = ("cases = configurations enumerated by TLC from ParamDomain.tla (+ seeded random combinations in thorough), each "
                       "executed on the real svt_av1_enc_set_parameter; distinct = distinct case lines; non-trivial = the stored "
                       "configuration differs from the defaults; judged rows exclude configurations with a value on which the "
                       "documentation sources disagree")
    res.assumptions += ["documented domain transcribed by hand from header comments, user guide and diagnostic texts (citations in "
                        "ParamDomain.tla); values the sources disagree on are not judged",
                        "base configuration = init_handle defaults + 64x64; rc_twopass_stats_in (a buffer) is not varied"]
    common.enc_record_exe  # noqa (gen_cfg_fields is run by the harness build below)
    import subprocess, sys
    subprocess.check_call([sys.executable, os.path.join(vlib.ROOT, "tools/gen_cfg_fields.py")], stdout=subprocess.DEVNULL)
    cases = [[]] + gen_cases(res)   # row 1 = the base configuration (BaseJudged in the specification)
    rnd = random.Random(res.seed)
    if res.tier == "thorough":
        singles = [c for c in cases if len(c) == 1]
        byf = {}
        for c in singles:
            byf.setdefault(c[0]["f"], []).append(c[0])
        fs = sorted(byf)
        for _ in range(20000):
            k = rnd.choice([2, 2, 3])
            pick = rnd.sample(fs, k)
            cases.append([rnd.choice(byf[f]) for f in pick])
    variants = ["hooks"] if res.tier == "quick" else ["hooks", "asan"]
    for variant in variants:
        exe = vlib.build_harness("param_replay", ["param_replay.c"], variant=variant, sync=False)
        rows, extra = execute(exe, cases, variant)
        for c in cases:
            res.case(case_line(c))
        res.add("evaluations", 0)
        bad = judge(res, cases, rows, variant)
        if variant == "hooks":
            # binding self-test: flip the outcome of one accepted and one rejected row; the judge must flag exactly those
            ia = next(i for i, r in enumerate(rows) if r and r.get("cfg") and r["ret"] == 0 and len(cases[i]) == 1 and cases[i][0]["f"] == "qp")
            ir = next(i for i, r in enumerate(rows) if r and r.get("cfg") and r["ret"] != 0 and len(cases[i]) == 1 and cases[i][0]["f"] == "qp")
            import copy
            fake = [copy.deepcopy(rows[ia]), copy.deepcopy(rows[ir])]
            fake[0]["ret"] = -2147479547
            fake[1]["ret"] = 0
            notes = judge(vlib.Result("C12", res.tier, res.seed, LEVEL), [cases[ia], cases[ir]], fake, "selftest", selftest=True)
            if sorted(n["i"] for n in notes) != [1, 2]:
                raise vlib.ModelFailure("ParamDomain judge did not flag the two corrupted rows of the self-test: %s" % notes)
            res.add("selftest_corrupted_rows_flagged", 2)
        report(res, bad, variant)
        for r in extra:
            res.violation("svt_av1_enc_deinit_handle crashes (signal %s) after set_parameter for: %s" % (r.get("signal"), case_line(cases[r["i"] - 1])),
                          case_line(cases[r["i"] - 1]), {"kind": "crash-deinit", "variant": variant})
        if UNCONFIRMED:
            res.cov["unconfirmed_early_deaths"] = UNCONFIRMED[:20]     # died before the call once, fine when repeated
        nrej = sum(1 for r in rows if r and r.get("returned") and r.get("ret"))
        res.add("rows_rejected_by_library", nrej)
        res.add("rows_accepted_by_library", sum(1 for r in rows if r and r.get("returned") and r.get("ret") == 0))
        res.sample({"variant": variant, "case": case_line(cases[0]), "ret": rows[0] and rows[0].get("ret")})
