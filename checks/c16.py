"""C16 -- allocation / OS-resource failures are reported and unwound cleanly.
Model: CtorUnwind.tla (EB_NEW / EB_DELETE discipline under a single failing allocation, all small object
trees x all fault positions).  Code: fault enumeration -- the K-th fallible primitive (malloc, calloc, realloc,
posix_memalign, svt_create_mutex / semaphore / thread; link-time --wrap) issued during init_handle,
set_parameter or init fails; the call must return an error code, the session must still be torn down
(deinit ; deinit_handle return), and the ledger must be empty afterwards."""
import json
import os
import random

import vlib
from checks import common

LEVEL = "fault_enumeration"
PROG = ["init_handle(&h,cfg)", "set_parameter(h,valid)", "init(h)"]


PROG_DEC = ["dec_init_handle(&h,cfg)", "dec_set_parameter(h,cfg)", "dec_init(h)", "dec_frame(h,tu)"]


def run_one(exe, tdir, tag, args, timeout=60, prog=None):
    pf = os.path.join(tdir, "c16_%s.prog" % tag)
    open(pf, "w").write("\n".join(prog or PROG) + "\n")
    rc, log = vlib.sh([exe, pf, pf + ".out"] + args, timeout=timeout)
    evs = []
    if os.path.exists(pf + ".out"):
        for l in open(pf + ".out"):
            l = l.strip()
            if l.startswith("{"):
                try:
                    evs.append(json.loads(l))
                except ValueError:
                    pass
            elif l.startswith("outstanding"):
                evs.append({"ev": "Outstanding", "txt": l})
            elif l.startswith("site "):
                f = l.split()
                evs.append({"ev": "Site", "addr": f[1], "count": int(f[2]), "ks": [int(x) for x in f[3:]]})
        os.unlink(pf + ".out")
    os.unlink(pf)
    return rc, log, evs


def run(res):
    res.cov["rule"] = ("fault points = (API call, K) with K the index of the fallible primitive that fails; quick: every K up to 60, the last 40, "
                       "3 invocations (first, middle, last) of every distinct call site and a seeded sample per call; thorough: every K of set_parameter and init and a 10% sample of init_handle; non-trivial = the fault fired")
    res.assumptions += ["single fault per session", "encoder: 64x64, preset 8, 2 logical processors; decoder: a 64x64 stream, 1 and 3 threads, faults during init_handle, init and the first frame",
                        "the ledger covers everything allocated through the wrapped primitives"]
    r = vlib.tlc("CtorUnwind", "CtorUnwind.cfg", timeout=900)
    res.tlc_stats(r)
    res.case("tlc:CtorUnwind")
    if not r["ok"]:
        res.violation("CtorUnwind model violates %s" % r["violated"], r["out"][-4000:])
    r2 = vlib.tlc("CtorUnwind", "CtorUnwind_leaky.cfg", timeout=900)
    if r2["ok"]:
        raise vlib.ModelFailure("vacuity guard: the leaky constructor kind does not violate FailedNewUnwound")
    exe = vlib.build_harness("api_replay", ["api_replay.c"], alloc=True)
    enumerate_faults(res, exe, PROG, [0, 1, 2], ["--lp", "2"], "enc")
    # decoder: creation, initialisation and the first frame (where the decoder allocates most of its session lazily)
    from checks import apirun
    dexe = apirun.dec_exe()
    for threads in (1, 3):
        enumerate_faults(res, dexe, PROG_DEC, [0, 2, 3], ["--pkts", apirun.dec_stream(), "--threads", str(threads)], "dec%d" % threads)
    res.sample({"fault_point": {"call": PROG[2], "K": 17}})
    res.sample({"fault_point": {"call": PROG[0], "K": 1}})


def enumerate_faults(res, exe, PROG, idxs, base_args, tag):
    tdir = vlib.tmpdir()
    # 1. how many fallible primitives does each call issue?
    totals = {}
    site_ks = {}
    per_site = 3 if res.tier == "quick" else 9
    for idx in idxs:
        rc, log, evs = run_one(exe, tdir, "%scount%d" % (tag, idx), ["--count", str(idx), "--sites", str(per_site)] + base_args, timeout=300, prog=PROG)
        site_ks[idx] = sorted(set(k for e in evs if e["ev"] == "Site" for k in e["ks"]))
        res.cov.setdefault("distinct_call_sites", {})["%s %s" % (tag, PROG[idx])] = len([e for e in evs if e["ev"] == "Site"])
        c = [e for e in evs if e["ev"] == "Call" and e["idx"] == idx]
        if not c or c[0]["fallible"] < 0:
            raise vlib.ModelFailure("could not count fallible calls of %s" % PROG[idx])
        totals[idx] = c[0]["fallible"]
    res.cov.setdefault("fallible_calls", {}).update({"%s %s" % (tag, PROG[i]): totals[i] for i in totals})
    rng = random.Random(res.seed * 47 + 6 + len(tag))
    points = []
    for idx, tot in totals.items():
        ks = set(range(1, min(tot, 60) + 1)) | set(range(max(1, tot - 40), tot + 1))
        if res.tier == "quick":
            ks |= set(rng.sample(range(1, tot + 1), min(tot, 110)))
        else:
            if idx == 0 and tag == "enc":
                ks |= set(rng.sample(range(1, tot + 1), min(tot, tot // 10)))
            else:
                ks |= set(range(1, tot + 1))
        # site-directed: for every distinct call site of a fallible primitive, faults spread over its invocations
        ks |= set(k for k in site_ks.get(idx, []) if 1 <= k <= tot)
        points += [(idx, k) for k in sorted(ks)]
    res.cov["exhaustive"] = False

    def one(pt):
        idx, k = pt
        rc, log, evs = run_one(exe, tdir, "%s_%d_%d" % (tag, idx, k), ["--fail", "%d:%d" % (idx, k)] + base_args, prog=PROG)
        return idx, k, rc, log, evs
    fired = 0
    seen = set()
    results = common.parallel(one, points, workers=vlib.NCPU)
    sites = set()
    for idx, k, rc, log, evs in results:
        for e in evs:
            if e.get("site"):
                sites.add(e["site"])
    sym = vlib.symbolize(exe, sites)
    site_fns = set()
    for idx, k, rc, log, evs in results:
        call = [e for e in evs if e["ev"] == "Call" and e["idx"] == idx and not e.get("auto")]
        did_fire = bool(call and call[0]["fired"])
        res.case("%s %s K=%d" % (tag, PROG[idx], k), nontrivial=did_fire or not call)
        fired += 1 if did_fire else 0
        site = next((sym.get(e["site"], "?") for e in evs if e.get("site") and e["site"] != "(nil)" and (e["ev"] in ("Crash", "Blocked") or e.get("fired"))), "?")
        if did_fire or any(e["ev"] in ("Crash", "Blocked") for e in evs):
            site_fns.add(site)
        desc = "K=%d-th fallible primitive (called from %s) fails during %s" % (k, site, PROG[idx])
        bad = [e for e in evs if e["ev"] in ("Crash", "Blocked")]

        def viol(kind, txt, body=""):
            key = {"kind": kind, "call": PROG[idx], "site": site}
            if tag != "enc":
                key["threads"] = int(tag[3:])
            sig = (kind, idx, site)
            if sig in seen:
                return
            seen.add(sig)
            res.violation("%s: %s" % (desc, txt), body + "\nreplay: %s <program: %s> --fail %d:%d %s\n" % (os.path.basename(exe), PROG, idx, k, " ".join(base_args)) +
                          "\n".join(json.dumps(e) for e in evs[-8:]), key=dict(key, k=k))
        if bad:
            viol("crash" if bad[0]["ev"] == "Crash" else "hang", "%s in %s" % ("CRASH (signal %s)" % bad[0].get("sig") if bad[0]["ev"] == "Crash" else "call does not return", bad[0].get("call")))
            continue
        if rc != 0 and not any(e["ev"] == "End" for e in evs):
            viol("crash", "process died (rc=%s)" % rc, log[-600:])
            continue
        if did_fire and call[0]["class"] != "err":
            viol("unreported", "the call returned '%s' although an allocation failed" % call[0]["class"])
        led = [e for e in evs if e["ev"] == "Ledger"]
        if led and (led[0]["mem"] or led[0]["mutex"] or led[0]["sem"] or led[0]["thread"] or led[0]["tasks_after"] != led[0]["tasks_before"]):
            outs = [e["txt"] for e in evs if e["ev"] == "Outstanding"]
            viol("leak", "after teardown %d memory blocks, %d mutexes, %d semaphores, %d threads remain (tasks %d->%d)" %
                 (led[0]["mem"], led[0]["mutex"], led[0]["sem"], led[0]["thread"], led[0]["tasks_before"], led[0]["tasks_after"]), "\n".join(outs))
    res.add("fault_points_fired", fired)
    res.cov.setdefault("distinct_call_sites_failed", {})[tag] = len(site_fns)

