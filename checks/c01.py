"""C01 -- encoder reconstruction equals an independent decode of its own bitstream.  Observe.tla: for each
run the pictures observed by 'recon' (encoder output), 'aom' (libaom 3.6.0) and 'svt' (the repository's
decoder) at the same display position must be equal, none of the decoders may report an error, and all
must see the same number of pictures."""
import random

import vlib
from checks import obsfam

LEVEL = "exploration"


def cases(res):
    rng = random.Random(res.seed * 19 + 7)
    out = []

    def add(n, sets, content="motion", w=64, h=64, bits=8, cseed=1):
        s = {"enc_mode": 8, "logical_processors": 4, "recon_enabled": 1}
        s.update(sets)
        out.append({"args": ["-n", str(n), "-w", str(w), "-h", str(h), "--bits", str(bits), "--content", content, "--cseed", str(cseed)],
                    "sets": s, "n": n, "w": w, "h": h, "bits": bits})
    add(17, {})
    add(12, {}, "noise", 128, 96)
    add(10, {}, "extreme", 72, 88)
    add(10, {}, "grad", 66, 70)
    add(9, {}, "motion", 96, 64, 10)
    add(9, {"enable_hbd_mode_decision": 0}, "noise", 64, 64, 10)
    add(12, {"tile_columns": 1, "tile_rows": 1}, "motion", 256, 128)
    add(8, {"tile_columns": 2}, "motion", 320, 128)                      # 3 tile columns (tile count not a power of two)
    add(8, {"tile_columns": 2, "tile_rows": 1}, "fastpan", 320, 128)     # 6 tiles
    add(12, {"rate_control_mode": 1, "target_bit_rate": 120000}, "motion", 128, 128)
    add(12, {"rate_control_mode": 2, "target_bit_rate": 120000, "logical_processors": 1}, "edges", 128, 128)
    add(10, {"film_grain_denoise_strength": 10}, "noise", 128, 64)
    add(10, {"superres_mode": 1, "superres_denom": 11, "superres_kf_denom": 13}, "grad", 192, 128)
    add(10, {"screen_content_mode": 1}, "screen", 128, 128)
    add(10, {"enc_mode": 6}, "motion", 128, 128)
    add(8, {"enc_mode": 4}, "motion", 64, 64)
    add(8, {"enc_mode": 4, "enable_tpl_la": 1}, "motion", 64, 64)
    add(10, {"qp": 63}, "noise")
    add(10, {"qp": 1, "enable_qp_scaling_flag": 0}, "edges")
    add(17, {"enable_overlays": 1, "tf_level": 1, "hierarchical_levels": 3}, "motion", 128, 64)
    add(10, {"is_16bit_pipeline": 1}, "motion")
    add(12, {"hierarchical_levels": 5, "intra_period_length": 7, "intra_refresh_type": 2}, "grad")
    add(5, {"super_block_size": 128, "enc_mode": 3}, "motion", 128, 128)
    if res.tier == "thorough":
        for i in range(90):
            bits = rng.choice([8, 8, 10])
            add(rng.choice([3, 9, 12, 17, 26]),
                {"enc_mode": rng.choice([8, 8, 7, 6, 5, 4]), "qp": rng.choice([5, 20, 35, 50, 63]),
                 "hierarchical_levels": rng.choice([2, 3, 4, 5]), "tile_columns": rng.choice([0, 0, 1]), "tile_rows": rng.choice([0, 1]),
                 "rate_control_mode": rng.choice([0, 0, 0, 1, 2]), "target_bit_rate": rng.choice([50000, 500000]),
                 "logical_processors": rng.choice([1, 2, 4, 8]), "film_grain_denoise_strength": rng.choice([0, 0, 0, 25, 50]),
                 "screen_content_mode": rng.choice([0, 0, 1, 2]), "enable_tpl_la": rng.choice([0, 1]),
                 "intra_period_length": rng.choice([-1, 0, 5, 15])},
                rng.choice(obsfam.CONTENTS), rng.choice([64, 96, 130, 176, 258, 352]), rng.choice([64, 72, 98, 144, 288]), bits, rng.randrange(1, 999))
        add(2, {}, "motion", 1920, 1088)
        add(1, {}, "noise", 4096, 2160)
        add(1, {}, "grad", 64, 2160)
        add(1, {}, "grad", 4096, 64)
        add(300, {"intra_period_length": 63}, "motion")
    return out


def known(r, kind):
    s = r["case"]["sets"]
    return {"kind": kind, "hierarchical_levels": s.get("hierarchical_levels", 4), "logical_processors": s.get("logical_processors"),
            "rate_control_mode": s.get("rate_control_mode", 0), "superres_mode": s.get("superres_mode", 0),
            "is_16bit_pipeline": s.get("is_16bit_pipeline", 0), "bits": r["case"].get("bits", 8),
            "enc_mode": s.get("enc_mode", 8), "enable_tpl_la": int(s.get("enable_tpl_la", 1)),
            "intra_refresh_type": int(s.get("intra_refresh_type", 2)),
            "pixels_ge_8M": int(r["case"].get("w", 64) * r["case"].get("h", 64) >= 8000000)}


def run(res):
    res.cov["rule"] = ("cases = accepted configurations x contents x sizes x lengths (distinct recorder command lines); "
                       "non-trivial = the run produced packets that both decoders accepted")
    res.assumptions += ["libaom 3.6.0 runtime library through a hand-declared ABI is the independent decoder; if it cannot be loaded the SVT decoder alone is used and the evidence says so",
                        "sample fidelity is decided by digest equality of the visible samples; the specification contributes the matching by display position"]
    cs = cases(res)
    groups = [(obsfam.key_of(c) + "#%d" % i, [c]) for i, c in enumerate(cs)]
    bg = obsfam.run_groups(res, groups, want_dec=["--aom", "--svt"], timeout=200, packets=False, known_key_fn=known,
                           what="C01 recon vs independent decode", dec_errors=False)     # decoder errors are judged below, with their own keys
    unavailable = 0
    for g, runs in bg.items():
        for r in runs:
            if r.get("dec") and any(e["ev"] == "OracleUnavailable" for e in r["dec"]["events"]):
                unavailable += 1
            if r.get("dec"):
                for e in r["dec"]["events"]:
                    if e["ev"] == "DecError":
                        res.violation("decoder %s reports an error on the emitted bitstream: %s (%s)" % (e["who"], e.get("msg"), r["desc"]), "",
                                      key=dict(known(r, "decerror"), who=e["who"]))
    res.cov["oracle_unavailable_runs"] = unavailable
