"""C03 -- one packet per submitted picture, in order, timestamps, EOS; recon count; decodes to N pictures.
Session.tla (API-visible protocol) + Bitstream.tla (reader-side display order / count) + Observe.tla
(the independent decoder outputs exactly N pictures and they equal the recon by display position);
the GOP-level design is model-checked in Reorder.tla."""
import os
import random

import vlib
from checks import common, corpus, stream

LEVEL = "model_checking"


def cases(res):
    rng = random.Random(res.seed * 13 + 3)
    out = []

    def add(n, sets, args=(), w=64, h=64):
        s = {"enc_mode": 8, "logical_processors": 2}
        s.update(sets)
        if s.get("hierarchical_levels") == 5 and "lp_keep" not in s:
            s["logical_processors"] = 4          # hl=5 with lp=2 is a recorded finding (one explicit case below)
        s.pop("lp_keep", None)
        out.append({"args": ["-n", str(n), "-w", str(w), "-h", str(h)] + list(args), "sets": s, "n": n, "w": w, "h": h})
    # every stream length around mini-GOP boundaries for several hierarchical depths
    quick = res.tier == "quick"
    for hl, ns in ((3, [0, 1, 2, 7, 8, 9, 10, 16, 17, 18]), (4, [1, 3, 15, 16, 17, 18, 33]), (2, [1, 4, 5, 6, 9]),
                   (5, [2, 31, 32, 33, 34]), (1, [3, 4]), (0, [1, 5])):
        for n in (ns if not quick else ns[::2] + ns[-1:]):
            add(n, {"hierarchical_levels": hl, "recon_enabled": rng.choice([0, 1]), "intra_period_length": -1},
                ["--pts", rng.choice(["seq", "x3", "big", "dup", "dec"]), "--policy", rng.choice(["each", "each", "every:3", "random:%d" % rng.randrange(99)])])
    # intra period / refresh type / look-ahead / overlays / tpl
    for ip, rt in ((0, 2), (1, 2), (3, 1), (7, 2), (8, 1), (15, 2), (16, 1), (-1, 1)):
        add(rng.choice([9, 18, 26, 35]), {"intra_period_length": ip, "intra_refresh_type": rt, "recon_enabled": 1,
                                           "hierarchical_levels": rng.choice([3, 4])}, ["--pts", "x3"])
    # intra periods that cut mini-GOPs short at every offset (open and closed GOP): the intra picture then sits in a partial
    # mini-GOP whose pictures must still each be shown exactly once
    ips = [8, 11, 13, 20, 29] if quick else [2, 4, 5, 8, 9, 10, 11, 12, 13, 14, 20, 21, 27, 29, 30, 40]
    for ip in ips:
        for rt in (1, 2):
            for hl in ((4,) if quick else (2, 3, 4, 5)):
                if hl == 3 and rt == 2 and ip < 9:
                    continue                      # recorded finding (C19): stalls at <= 2 logical processors
                add(40 if quick else rng.choice([40, 49, 57]), {"intra_period_length": ip, "intra_refresh_type": rt, "hierarchical_levels": hl,
                                                                 "recon_enabled": 1, "logical_processors": 4}, ["--pts", "x3"])
    for lad in (0, 1, 17, 33):
        add(rng.choice([12, 20, 40]), {"look_ahead_distance": lad, "enable_tpl_la": rng.choice([0, 1]), "recon_enabled": 1})
    for hl in (3, 4):
        add(rng.choice([17, 25, 34]), {"enable_overlays": 1, "tf_level": 1, "hierarchical_levels": hl, "recon_enabled": 1}, ["--pts", "x3"])
        add(rng.choice([9, 16, 33]), {"enable_overlays": 1, "tf_level": 1, "hierarchical_levels": hl, "intra_period_length": 15, "intra_refresh_type": 2})
    add(40, {"hierarchical_levels": 5, "logical_processors": 2, "lp_keep": 1})
    add(30, {"rate_control_mode": 1, "target_bit_rate": 150000, "recon_enabled": 1})
    add(21, {"logical_processors": 8, "recon_enabled": 1}, ["--policy", "none"], w=128, h=128)
    if not quick:
        for n in (64, 65, 100, 129, 200):
            add(n, {"hierarchical_levels": rng.choice([3, 4, 5]), "recon_enabled": 1, "intra_period_length": rng.choice([-1, 31, 63])},
                ["--policy", "random:%d" % rng.randrange(999), "--pts", "big"])
        for hl in (2, 3, 4, 5):
            for n in range(1, 2 ** hl + 3):
                add(n, {"hierarchical_levels": hl, "recon_enabled": n % 2, "intra_period_length": -1})
        add(600, {"hierarchical_levels": 4, "recon_enabled": 1, "intra_period_length": 47})
    return out


def run(res):
    res.cov["rule"] = ("cases = recorder command lines (distinct by stream length, GOP shape: hierarchical levels, intra period, "
                       "refresh type, overlays, look-ahead, TPL, pts pattern, retrieval policy); each run is validated against "
                       "Session.tla, Bitstream.tla and Observe.tla")
    res.assumptions += ["end of stream is a separate picture-less submission (the form the sample application uses)",
                        "libaom 3.6.0 runtime library is the independent decoder (hand-declared ABI, self-checking version)"]
    model_part(res)
    cs = cases(res)
    rs = corpus.run_cases(cs, want_dec=["--aom"], timeout=60)
    b = corpus.Bundle()
    for r in rs:
        n = r["case"]["n"]
        res.case(r["desc"])
        if r["rc"] not in (0,):
            tail = [e for e in r["events"] if e["ev"] in ("Timeout", "Drained")]
            res.violation("encode did not complete (rc=%s, %s): %s" % (r["rc"], tail[-1:] , r["desc"]), r["log"][-2000:],
                          key={"kind": "incomplete", "hierarchical_levels": r["case"]["sets"].get("hierarchical_levels", 4),
                               "enable_overlays": int(r["case"]["sets"].get("enable_overlays", 0)),
                               "intra_refresh_type": int(r["case"]["sets"].get("intra_refresh_type", 2)),
                               "intra_period_length": int(r["case"]["sets"].get("intra_period_length", -2)),
                               "crashed": int(r["rc"] in (-11, 139, -6, 134)),
                               "logical_processors": r["case"]["sets"].get("logical_processors")})
            continue
        b.add("Session", stream.session_events(r), r["desc"])
        be, errs, pk = stream.bitstream_events(r, n_expected=n, expect={"hdrdig": ""})   # API header clause: C02
        b.add("Bitstream", be, r["desc"])
        st = r["case"]["sets"]
        if st.get("intra_period_length") == -1 and not st.get("enable_overlays") and n <= 80 and "--pts dec" not in r["desc"]:
            b.add("PacketizeTrace", stream.packetize_events(r, pk), r["desc"])      # binds the GOP/TU design model
        if r["dec"] is not None and n > 0:
            recon_on = int(r["case"]["sets"].get("recon_enabled", 0))
            oe = stream.observe_events(r["desc"], r, r["dec"], packets=False, recon=bool(recon_on))
            # the decoder must output exactly N pictures
            ndec = len([e for e in r["dec"]["events"] if e["ev"] == "Dec" and e["who"] == "aom"])
            oe.insert(-1, {"ev": "Count", "who": "aom", "n": ndec, "expected": n})
            b.add("Observe", [x for x in oe if x["ev"] != "Count"], r["desc"])
            if ndec != n and not any(e["ev"] == "OracleUnavailable" for e in r["dec"]["events"]):
                res.violation("independent decoder output %d pictures for %d submitted: %s" % (ndec, n, r["desc"]), "", key={"kind": "count"})
    res.sample({"session_trace_prefix": b.recs.get("Session", [])[:14]})

    def ses_key(rej):
        ev = rej["event"] or {}
        if ev.get("ev") == "Packet" and "--pts dec" in rej["desc"]:
            return {"kind": "pts_order", "pts": "dec"}
        return None
    b.validate(res, "Session", "C03 API protocol", key_fn=ses_key)
    b.validate(res, "Bitstream", "C03 reader side")
    b.validate(res, "Observe", "C03 decoded pictures")
    b.validate(res, "PacketizeTrace", "C03 temporal-unit structure vs. Packetize.tla")
    corpus.cleanup(rs)


def model_part(res):
    for cfg in (["Packetize_small.cfg", "Packetize_wrap.cfg", "Packetize_live.cfg"] if res.tier == "quick" else ["Packetize_small.cfg", "Packetize_wrap.cfg", "Packetize_live.cfg", "Packetize_big.cfg"]):
        if not os.path.exists(os.path.join(vlib.SPECS, cfg)):
            continue
        r = vlib.tlc("Packetize", cfg, timeout=3000, heap="16g")
        res.tlc_stats(r)
        res.case("tlc:" + cfg)
        if not r["ok"]:
            res.violation("Packetize model (%s) violates %s" % (cfg, r["violated"]), r["out"][-6000:])
