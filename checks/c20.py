"""C20 -- disabled coding tools never appear; the requested tiling is used.
Bitstream.tla (ToolsOK / TilesOK and the sequence-level switches) on every frame and sequence header of a
corpus in which each tool switch is turned off (and, as a control, on), judged from the independent parser.
Block level (BlockTools.tla): every stream is parsed by the repository's decoder built with guarded per-tool block counters
(palette, filter intra, CfL, intrabc, OBMC, local warp, inter-intra, wedge / difference / distance weighted compound, skip mode);
a tool the configuration disables must be used by no block of any frame."""
import random

import vlib
from checks import corpus, stream

LEVEL = "exploration"

# configuration switch -> (sets, frame-level tools that must be 0, sequence-level tools that must be 0)
OFF = {
    "loop filter": ({"disable_dlf_flag": 1}, ["lf"], []),
    "cdef": ({"cdef_level": 0}, ["cdef"], ["cdef"]),
    "loop restoration": ({"enable_restoration_filtering": 0}, ["lr"], ["restoration"]),
    "intra block copy": ({"intrabc_mode": 0, "screen_content_mode": 1}, ["ibc"], []),
    "global motion": ({"enable_global_motion": 0}, ["gm"], []),
    "warped motion": ({"enable_warped_motion": 0}, ["warp"], ["warped"]),
    "obmc+warped (motion modes)": ({"obmc_level": 0, "enable_warped_motion": 0}, ["mms", "warp"], ["warped"]),
    "filter intra": ({"filter_intra_level": 0}, [], ["filter_intra"]),
    "inter-intra": ({"inter_intra_compound": 0}, [], ["interintra"]),
    "superres": ({"superres_mode": 0}, ["superres"], ["superres"]),
    "screen content tools (palette, intrabc)": ({"screen_content_mode": 0}, ["sct", "ibc", "palette_possible"], []),
    "palette": ({"palette_level": 0, "intrabc_mode": 0, "screen_content_mode": 0}, ["palette_possible", "ibc"], []),
}


# configuration switch -> block-level tools (names of BlockTools.tla) that no block may use
OFF_BLOCK = {
    "palette": ({"palette_level": 0, "screen_content_mode": 1}, ["palette"]),
    "screen content off": ({"screen_content_mode": 0}, ["palette", "intrabc"]),
    "intra block copy": ({"intrabc_mode": 0, "screen_content_mode": 1}, ["intrabc"]),
    "filter intra": ({"filter_intra_level": 0}, ["filter_intra"]),
    "chroma from luma": ({"disable_cfl_flag": 1}, ["cfl"]),
    "obmc": ({"obmc_level": 0}, ["obmc"]),
    "local warp": ({"enable_warped_motion": 0}, ["warp"]),
    "inter-intra": ({"inter_intra_compound": 0}, ["interintra"]),
    "compound off": ({"compound_level": 0}, ["wedge", "diffwtd", "distwtd"]),
    "compound without wedge": ({"compound_level": 1}, ["wedge"]),
}
TOOL_NAMES = ["blocks", "palette", "filter_intra", "cfl", "intrabc", "obmc", "warp", "interintra", "wedge", "diffwtd", "distwtd", "skip_mode"]


def block_level(res):
    """Block-level part: every stream is parsed by the repository's decoder built with the guarded per-tool counters;
    BlockTools.tla requires a zero count for every tool the configuration disables."""
    import os
    from checks import common
    quick = res.tier == "quick"
    cs = []
    for name, (sets, toff) in OFF_BLOCK.items():
        for pr in ([6, 4] if quick else [6, 5, 4, 2]):
            for content in (["screen"] if "screen_content_mode" in sets and sets["screen_content_mode"] == 1 else ["pan", "screen"] if quick else ["pan", "motion", "screen"]):
                s = {"enc_mode": pr, "logical_processors": 4, "enable_tpl_la": 1}
                s.update(sets)
                n = 8 if pr >= 5 else 5
                cs.append({"args": ["-n", str(n), "-w", "128", "-h", "128", "--content", content], "sets": s, "n": n, "w": 128, "h": 128,
                           "off": toff, "tag": "blockoff:" + name})
    for pr in ([6, 4] if quick else [6, 5, 4, 2, 0]):       # controls: nothing forbidden -- shows which tools the corpus actually exercises
        for content, extra in (("pan", {}), ("screen", {"screen_content_mode": 1}), ("screen", {"screen_content_mode": 1, "intrabc_mode": 1, "palette_level": 1})):
            s = {"enc_mode": pr, "logical_processors": 4, "enable_tpl_la": 1}
            s.update(extra)
            cs.append({"args": ["-n", "8", "-w", "128", "-h", "128", "--content", content], "sets": s, "n": 8, "w": 128, "h": 128, "off": [], "tag": "blockcontrol"})
    rs = corpus.run_cases(cs, timeout=400)

    def dec(r):
        if r["rc"] != 0 or not os.path.exists(r["out"] + ".pkts"):
            return None
        trc = r["out"] + ".tools"
        d = common.run_dec(r["out"] + ".pkts", r["out"] + ".decb", ["--svt", "--threads", "1", "-w", "128", "-h", "128", "--bits", "8",
                                                                    "--trace", "dectools", "--trace-out", trc], timeout=200)
        rows = [a for _, _, _, _, ev, a in vlib.read_trace(trc, "dectools")] if os.path.exists(trc) else []
        for f in (trc, r["out"] + ".decb"):
            if os.path.exists(f):
                os.unlink(f)
        return d, rows
    outs = common.parallel(dec, rs)
    b = corpus.Bundle()
    used = {}
    for r, o in zip(rs, outs):
        res.case(r["desc"] + " [" + r["case"]["tag"] + "]")
        if o is None or o[0]["rc"] != 0 or not o[1]:
            res.cov.setdefault("incomplete_block_level_runs", []).append(r["desc"])
            continue
        d, rows = o
        b.add("BlockTools", [{"ev": "Run", "off": r["case"]["off"]}] + [{"ev": "Tools", "c": a} for a in rows] + [{"ev": "RunEnd"}],
              "%s [%s]" % (r["desc"], r["case"]["tag"]))
        for a in rows:
            for nme, v in zip(TOOL_NAMES, a):
                if v:
                    used[nme] = used.get(nme, 0) + v
    res.cov["blocks_using_tool"] = used
    b.validate(res, "BlockTools", "C20 block-level use of disabled tools",
               key_fn=lambda rej: {"kind": "block_tool", "tag": rej["desc"].split("[")[-1].rstrip("]")})
    corpus.cleanup(rs)


def tile_expect(w, h, cols_log2, rows_log2, sb=64):
    sbc, sbr = (w + sb - 1) // sb, (h + sb - 1) // sb

    def n(sbn, lg):
        lg = min(lg, (sbn - 1).bit_length())
        tw = (sbn + (1 << lg) - 1) >> lg
        return (sbn + tw - 1) // tw
    return n(sbc, cols_log2), n(sbr, rows_log2)


def run(res):
    res.cov["rule"] = ("cases = each tool switch off (and a default-on control) x presets {8,6(thorough: 5,4,2)} x screen/natural content; "
                       "tile_rows 0..(6) x tile_columns 0..(4) x sizes; every frame header judged")
    res.assumptions += ["block level: counted by the repository's own decoder (guarded counters in parse_block), which C08 compares with libaom",
                        "expected tile counts follow the AV1 uniform tile spacing formula for the coded frame size"]
    rng = random.Random(res.seed * 37 + 3)
    cs = []

    def add(n, sets, expect, content="motion", w=128, h=128, preset=8, tag=""):
        s = {"enc_mode": preset, "logical_processors": 2}
        s.update(sets)
        cs.append({"args": ["-n", str(n), "-w", str(w), "-h", str(h), "--content", content], "sets": s, "n": n, "w": w, "h": h,
                   "expect": expect, "tag": tag})
    presets = [8, 6] if res.tier == "quick" else [8, 6, 5, 4, 2]
    for name, (sets, foff, soff) in OFF.items():
        for pr in presets:
            for content in (["motion", "screen"] if res.tier == "thorough" or pr == 8 else ["motion"]):
                s = dict(sets)
                if content == "screen" and "screen_content_mode" not in s:
                    s["screen_content_mode"] = 1
                add(10 if pr >= 6 else 5, s, {"off": {k: 1 for k in foff}, "seqoff": {k: 1 for k in soff}}, content, preset=pr, tag="off:" + name)
    # every switch again on a picture with several tiles (some stages take over another stage's work for multi-tile pictures and must
    # carry the switch along), smooth content at a mid quantizer where the in-loop filters pay off
    for name, (sets, foff, soff) in OFF.items():
        for tiles in ({"tile_columns": 1}, {"tile_rows": 1}) if res.tier == "thorough" else ({"tile_columns": 1},):
            add(10, dict(sets, qp=45, **tiles), {"off": {k: 1 for k in foff}, "seqoff": {k: 1 for k in soff}}, "pan", 256, 128, preset=8, tag="off+tiles:" + name)
    for pr in presets:   # controls: defaults (tools may appear; nothing is required)
        add(10 if pr >= 6 else 5, {}, {}, "motion", preset=pr, tag="control")
        add(8 if pr >= 6 else 4, {"screen_content_mode": 1}, {}, "screen", preset=pr, tag="control-sc")
    # tiling
    sizes = [(64, 64), (256, 128), (320, 192), (640, 128)] if res.tier == "quick" else [(64, 64), (128, 64), (256, 128), (320, 192), (640, 128), (128, 448), (832, 320), (1280, 384)]
    for (w, h) in sizes:
        combos = [(0, 0), (1, 0), (0, 1), (2, 1), (4, 6)] if res.tier == "quick" else [(c, r) for c in range(0, 5) for r in range(0, 7, 2)]
        for (c, r) in combos:
            tc, tr = tile_expect(w, h, c, r)
            add(3, {"tile_columns": c, "tile_rows": r}, {"tiles": 1, "tilecols": tc, "tilerows": tr}, "motion", w, h, tag="tiles")
    rs = corpus.run_cases(cs, timeout=240)
    b = corpus.Bundle()
    for r in rs:
        res.case(r["desc"])
        if r["rc"] != 0:
            res.cov.setdefault("incomplete_encodes", []).append(r["desc"])
            continue
        be, errs, pk = stream.bitstream_events(r, n_expected=r["case"]["n"], expect=dict(r["case"]["expect"], hdrdig=""))
        b.add("Bitstream", be, "%s [%s]" % (r["desc"], r["case"]["tag"]))
        for x in be:
            if x["ev"] == "Frame" and not x["showex"]:
                for k, v in x["tools"].items():
                    if v:
                        res.cov.setdefault("frames_using_tool", {}).setdefault(k, 0)
                        res.cov["frames_using_tool"][k] += 1
    res.sample({"case": cs[0]["sets"], "expect": cs[0]["expect"]})
    b.validate(res, "Bitstream", "C20 tool switches / tiling")
    corpus.cleanup(rs)
    block_level(res)
