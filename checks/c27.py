"""C27 -- output and progress do not depend on how the application paces its calls.
Model: Packetize.tla -- the delivered sequence is the same for every completion order, and the pipeline makes
progress whenever the consumer drains (Progress / Finishes).  Code: the same stream retrieved with different
pacing policies (drain after every send, every k sends, only at the end, random polling with delays, one
packet per send); every pattern that completes must give the same packets and recon (Observe.tla) and the
drain-after-each-send pattern must always complete."""
import random

import vlib
from checks import obsfam

LEVEL = "model_checking"


def run(res):
    res.cov["rule"] = ("cases = stream (length, GOP, recon on/off, lp) x pacing policy; all completed members of a group must agree; "
                       "policy 'each' must complete")
    res.assumptions += ["patterns on which the application does not drain may legitimately block (full recon / packet pools): they are not required to complete"]
    for cfg in ["Packetize_small.cfg", "Packetize_live.cfg", "Packetize_wrap.cfg"]:
        r = vlib.tlc("Packetize", cfg, timeout=3000, heap="16g")
        res.tlc_stats(r)
        res.case("tlc:" + cfg)
        if not r["ok"]:
            res.violation("Packetize model (%s) violates %s" % (cfg, r["violated"]), r["out"][-6000:])
    rng = random.Random(res.seed * 53 + 8)
    streams = [(12, {"recon_enabled": 1, "logical_processors": 1}), (26, {"recon_enabled": 1, "logical_processors": 4}),
               (40, {"recon_enabled": 0, "logical_processors": 4, "hierarchical_levels": 3}), (70, {"recon_enabled": 0, "logical_processors": 2}),
               (70, {"recon_enabled": 0, "logical_processors": 2, "enable_tpl_la": 1})]
    if res.tier == "thorough":
        streams += [(150, {"recon_enabled": 1, "logical_processors": 4}), (33, {"recon_enabled": 1, "logical_processors": 8, "enable_overlays": 1, "tf_level": 1, "hierarchical_levels": 3}),
                    (90, {"recon_enabled": 0, "logical_processors": 1, "look_ahead_distance": 33}), (300, {"recon_enabled": 0, "logical_processors": 4})]
    groups = []
    for n, sets in streams:
        base = ["-n", str(n), "-w", "64", "-h", "64"]
        pols = ["each", "every:2", "every:5", "random:%d" % rng.randrange(999), "random:%d" % rng.randrange(999)]
        if not sets.get("recon_enabled"):
            pols.append("none")          # retrieve nothing until EOS: allowed to block only when pools run out (5000 packets)
        if res.tier == "thorough":
            pols += ["random:%d" % rng.randrange(9999) for _ in range(5)]
        cs = []
        for p in pols:
            s = {"enc_mode": 8}
            s.update(sets)
            cs.append({"args": base + ["--policy", p], "key_args": base, "sets": s, "n": n, "policy": p})
        groups.append((obsfam.key_of(cs[0]), cs))

    # lagging consumer with recon enabled: the recon pool (18 objects for <= 2 logical processors) fills up and the encoder
    # blocks on it; whatever the application retrieves later must still be the same pictures.  Seeded delays at the lock /
    # semaphore operations (also in the application thread) widen the windows around the hand-off.
    for n, w, h in ((50, 64, 64), (40, 192, 128)):
        base = ["-n", str(n), "-w", str(w), "-h", str(h)]
        cs = []
        for i, p in enumerate(["each", "none", "every:25", "none", "every:19", "none"]):
            args = base + ["--policy", p]
            if i:
                # delays only in the application thread (target 1), only in the library threads (2), or everywhere (0)
                args += ["--perturb", "%d:%d:%d:%d" % (rng.randrange(1, 10 ** 6), 900, 3000, [1, 1, 2, 1, 0][i - 1])]
            cs.append({"args": args, "key_args": base + ["lag"], "sets": {"enc_mode": 8, "recon_enabled": 1, "logical_processors": 2}, "n": n, "policy": p})
        groups.append((obsfam.key_of(cs[0]), cs))

    # the last hand-overs of a stream: with 16k+1 pictures the stream ends with a show-existing packet that follows the last
    # temporal unit; the packetization stage is held back right after every hand-over (semaphore post), so whatever it still
    # does to a packet it has already handed over happens long after the application looked at it.  An application that is
    # already waiting (policy each / every:k) and one that fetches everything after EOS (none) must see the same packets.
    from checks import c04
    lo, hi = c04.kernel_ranges()["packetization_kernel"]
    for n in ((17, 33) if res.tier == "quick" else (17, 33, 49, 34, 18)):
        base = ["-n", str(n), "-w", "64", "-h", "64"]
        s = {"enc_mode": 8, "recon_enabled": 0, "logical_processors": 4}
        cs = [{"args": base + ["--policy", "none"], "key_args": base + ["tail"], "sets": dict(s), "n": n, "policy": "none"}]
        for p in ("each", "every:2", "none"):
            for us in ((30000,) if res.tier == "quick" else (30000, 150000)):
                cs.append({"args": base + ["--policy", p, "--slow-kernel", "%x:%x:1000:%d:1" % (lo, hi, us)], "key_args": base + ["tail"],
                           "sets": dict(s), "n": n, "policy": p})
        groups.append((obsfam.key_of(cs[0]), cs))

    def known(r, kind):
        return {"kind": kind, "policy": r["case"]["policy"].split(":")[0], "recon": int(r["case"]["sets"].get("recon_enabled", 0))}
    obsfam.run_groups(res, groups, timeout=120, what="C27 independence of call pacing", known_key_fn=known)
    res.add("traces_validated_against_impl", 0)
