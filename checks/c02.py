"""C02 -- every packet is one well-formed temporal unit.  Bitstream.tla (reader-side grammar, sizes,
sequence-header identity, picture type) on every packet of a configuration-diverse corpus, parsed by the
independent parser tools/av1obu.py; the temporal-unit assembly design is model-checked in Packetize.tla."""
import random

import vlib
from checks import common, corpus, stream

LEVEL = "model_checking"


def cases(res):
    rng = random.Random(res.seed * 17 + 5)
    out = []

    def add(n, sets, args=(), w=64, h=64, bits=8):
        s = {"enc_mode": 8, "logical_processors": 4}
        s.update(sets)
        out.append({"args": ["-n", str(n), "-w", str(w), "-h", str(h), "--bits", str(bits)] + list(args), "sets": s, "n": n, "w": w, "h": h, "bits": bits})
    add(18, {})
    add(20, {"hierarchical_levels": 3, "intra_period_length": 7, "intra_refresh_type": 2})
    add(20, {"hierarchical_levels": 3, "intra_period_length": 8, "intra_refresh_type": 1})
    add(17, {"enable_overlays": 1, "tf_level": 1, "hierarchical_levels": 3})
    add(12, {"tile_columns": 1, "tile_rows": 1}, w=256, h=128)
    add(10, {"tile_columns": 2}, w=320, h=64)
    # tile layouts whose tile count is not a power of two (uniform spacing over 5 superblock columns / 3 rows): the size fields INSIDE the
    # tile group (every tile but the last) can only be validated by decoding -> these cases are also given to the independent decoder
    for sets, w, h in (({"tile_columns": 2}, 320, 128), ({"tile_columns": 2, "tile_rows": 1}, 320, 128), ({"tile_rows": 2, "tile_columns": 1}, 256, 192),
                       ({"tile_columns": 1}, 256, 64)):
        add(8, dict(sets, recon_enabled=1, enable_tpl_la=0), w=w, h=h)
        out[-1]["decode"] = True
    add(12, {}, bits=10, w=96, h=80)
    add(12, {"film_grain_denoise_strength": 8}, args=["--content", "noise"], w=128, h=64)
    add(12, {"screen_content_mode": 1}, args=["--content", "screen"], w=128, h=128)
    add(12, {"superres_mode": 1, "superres_denom": 12, "superres_kf_denom": 12}, w=192, h=128)
    add(14, {"rate_control_mode": 1, "target_bit_rate": 100000})
    add(14, {"rate_control_mode": 2, "target_bit_rate": 100000})
    add(9, {"enc_mode": 6}, w=128, h=128)
    add(25, {"intra_period_length": 0, "intra_refresh_type": 2})
    add(25, {"intra_period_length": 0, "intra_refresh_type": 1})
    add(1, {})
    add(2, {"hierarchical_levels": 0})
    add(30, {"hierarchical_levels": 5, "intra_period_length": -1})
    # longer than the 2048-slot packetization queue: every slot (and whatever state hangs off it) is used a second time
    add(2100, {"intra_period_length": -1, "logical_processors": 8}, args=["--content", "pan"])
    # boundary hunt for the leb128 size fields: many small frames so that OBU payloads of exactly 127 / 128 bytes occur
    for qp in (range(22, 64, 3) if res.tier == "quick" else range(16, 64)):
        add(160 if res.tier == "quick" else 220, {"qp": qp, "enable_qp_scaling_flag": 1, "logical_processors": 2, "intra_period_length": -1},
            args=["--content", "motion", "--cseed", str(qp)])
    if res.tier == "thorough":
        for i in range(40):
            add(rng.choice([3, 8, 9, 16, 17, 25, 33, 40]),
                {"hierarchical_levels": rng.choice([1, 2, 3, 4, 5]), "intra_period_length": rng.choice([-1, 0, 3, 15, 16, 31]),
                 "intra_refresh_type": rng.choice([1, 2]), "enc_mode": rng.choice([8, 8, 7, 6, 5]),
                 "tile_columns": rng.choice([0, 0, 1]), "tile_rows": rng.choice([0, 0, 1]), "qp": rng.choice([10, 30, 50, 63])},
                args=["--content", rng.choice(["noise", "motion", "grad", "screen", "extreme", "flat"]), "--cseed", str(rng.randrange(999))],
                w=rng.choice([64, 128, 176, 200, 256]), h=rng.choice([64, 96, 144, 128]), bits=rng.choice([8, 8, 10]))
        add(300, {"hierarchical_levels": 4, "intra_period_length": 63})
    return out


def run(res):
    res.cov["rule"] = ("cases = recorder command lines, distinct by configuration (GOP shape, tiles, bit depth, film grain, screen "
                       "content, superres, rate control, preset) and content; every packet of every stream is parsed and judged")
    res.assumptions += ["tools/av1obu.py (independent parser written from the AV1 specification) is trusted to report OBU boundaries and header fields",
                        "tile-group OBU counting inside OBU_FRAME is not modelled (the encoder emits one OBU_FRAME per frame)"]
    for cfg in ["Packetize_small.cfg", "Packetize_wrap.cfg"] + (["Packetize_big.cfg"] if res.tier == "thorough" else []):
        r = vlib.tlc("Packetize", cfg, timeout=3000, heap="16g")
        res.tlc_stats(r)
        res.case("tlc:" + cfg)
        if not r["ok"]:
            res.violation("Packetize model (%s) violates %s" % (cfg, r["violated"]), r["out"][-6000:])
    cs = cases(res)
    rs = corpus.run_cases([c for c in cs if not c.get("decode")], timeout=90)
    rsd = corpus.run_cases([c for c in cs if c.get("decode")], want_dec=["--aom"], timeout=90)
    b = corpus.Bundle()
    # "syntactically valid OBUs whose size fields match their payloads", for the fields the container-level walk cannot see: the independent
    # decoder must consume every packet without error, output one picture per packet, and reproduce the encoder's reconstruction
    for r in rsd:
        if r["rc"] != 0 or not r.get("dec"):
            continue
        for e in r["dec"]["events"]:
            if e["ev"] in ("DecError", "Timeout"):
                res.violation("independent decoder rejects a packet: %s (%s)" % (e.get("msg", e.get("phase")), r["desc"]), "", key={"kind": "decode"})
        nd = len([e for e in r["dec"]["events"] if e["ev"] == "Dec"])
        if nd != r["case"]["n"]:
            res.violation("independent decoder output %d pictures for %d packets: %s" % (nd, r["case"]["n"], r["desc"]), "", key={"kind": "decode_count"})
        b.add("Observe", stream.observe_events(r["desc"], r, r["dec"], packets=False, recon=True), r["desc"])
    rs = rs + rsd
    npk = 0
    for r in rs:
        res.case(r["desc"])
        if r["rc"] != 0:
            res.cov.setdefault("incomplete_encodes", []).append(r["desc"])   # completion is judged by C03 / C11
            continue
        exp = stream.default_expect(r)
        be, errs, pk = stream.bitstream_events(r, n_expected=r["case"]["n"])
        npk += len(pk)
        for x in be:
            if x["ev"] == "Obu" and x["type"] in (3, 6):
                pay = x["total"] - 2 if x["total"] - 2 < 128 else x["total"] - 3
                if pay in (126, 127, 128, 129):
                    res.add("frame_obus_with_payload_%d" % pay)
        for e in errs:
            res.violation("packet does not parse as a sequence of OBUs: %s (%s)" % (e, r["desc"]), "", key={"kind": "parse"})
        # clause "byte-identical ... to the header returned by the stream-header API"
        seqdigs = {x["dig"] for x in be if x["ev"] == "Seq"}
        if exp["hdrdig"] and seqdigs and seqdigs != {exp["hdrdig"]}:
            res.violation("stream-header API bytes differ from the in-band sequence header (%s)" % r["desc"], "",
                          key={"kind": "stream_header_api_differs"})
            be[0] = dict(be[0], cfg=dict(be[0]["cfg"], hdrdig=""))
        b.add("Bitstream", be, r["desc"])
    res.add("packets_parsed", npk)
    res.sample({"bitstream_trace_prefix": b.recs.get("Bitstream", [])[:9]})
    b.validate(res, "Bitstream", "C02 temporal-unit grammar")
    b.validate(res, "Observe", "C02 tile-group payloads decode to the encoder's reconstruction", key_fn=lambda rej: {"kind": "decode_mismatch"})
    # binding self-test: corrupted packets must be rejected
    selftest(res, rs)
    corpus.cleanup(rs)


def selftest(res, rs):
    good = [r for r in rs if r["rc"] == 0 and r["case"]["n"] >= 9]
    if not good:
        return
    r = good[0]
    be, errs, pk = stream.bitstream_events(r, n_expected=r["case"]["n"], expect={"hdrdig": ""})
    muts = []
    i = next(k for k, x in enumerate(be) if x["ev"] == "Obu" and x["type"] == 2 and k > 10)
    muts.append(("temporal delimiter removed", be[:i] + be[i + 1:]))
    i = next(k for k, x in enumerate(be) if x["ev"] == "Pkt" and k > 10)
    y = list(be)
    y[i] = dict(be[i], len=be[i]["len"] + 1)
    muts.append(("packet length does not match OBU sizes", y))
    i = next(k for k, x in enumerate(be) if x["ev"] == "Frame" and x.get("show") == 1 and k > 10)
    y = list(be)
    y[i] = dict(be[i], show=0, showable=1, rff=1)
    muts.append(("packet without displayed frame", y))
    n = 0
    for name, y in muts:
        import os
        p = os.path.join(vlib.tmpdir(), "bs_selftest.ndjson")
        vlib.write_ndjson(p, y)
        rr = vlib.tlc("Bitstream", "Bitstream.cfg", workers=1, env={"TRACE": p}, timeout=600)
        if rr["ok"]:
            raise vlib.ModelFailure("binding self-test failed: corrupted bitstream trace (%s) accepted" % name)
        n += 1
    res.cov["corrupted_traces_rejected"] = n
