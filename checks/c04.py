"""C04 -- determinism under every thread interleaving, and termination.
Model: Packetize.tla (same delivered sequence for every completion order of the parallel middle), plus the
exactly-once / order results of SRM.tla and EncDecSeg.tla (C23, C24).  Code: the same input/configuration
(including the thread count) encoded under different seeded schedule perturbations (every lock / semaphore
operation of the library is a scheduling point); Observe.tla requires identical packets and recon pictures."""
import random

import vlib
from checks import obsfam

LEVEL = "model_checking"

CONFIGS = [
    ({}, "motion", 128, 128, 8, 14),
    ({"enable_tpl_la": 1}, "motion", 64, 64, 8, 70),
    ({"enable_qp_scaling_flag": 0, "enable_tpl_la": 0}, "noise", 128, 64, 8, 12),
    ({"tile_columns": 1, "tile_rows": 1}, "motion", 256, 128, 8, 10),
    ({"rate_control_mode": 1, "target_bit_rate": 200000}, "motion", 176, 144, 8, 20),
    ({"rate_control_mode": 2, "target_bit_rate": 200000}, "motion", 176, 144, 8, 20),
]
CONFIGS_THOROUGH = [
    ({"enc_mode": 6}, "motion", 128, 128, 8, 10),
    ({}, "grad", 96, 80, 10, 10),
    ({"hierarchical_levels": 5, "intra_period_length": 15}, "edges", 128, 128, 8, 40),
    ({"enable_overlays": 1, "tf_level": 1, "hierarchical_levels": 3}, "motion", 128, 64, 8, 17),
    ({"film_grain_denoise_strength": 10}, "noise", 128, 64, 8, 10),
    ({"screen_content_mode": 1}, "screen", 128, 128, 8, 10),
    ({"look_ahead_distance": 17, "enable_tpl_la": 1}, "motion", 128, 128, 8, 30),
]


def known(r, kind):
    s = r["case"]["sets"]
    return {"kind": "nondeterministic" if kind == "mismatch" else kind, "rate_control_mode": s.get("rate_control_mode", 0),
            "enable_tpl_la": int(s.get("enable_tpl_la", 0)),
            "hierarchical_levels": s.get("hierarchical_levels", 4), "logical_processors": s.get("logical_processors")}


KERNEL_THREADS = ["resource_coordination_kernel", "picture_analysis_kernel", "picture_decision_kernel", "motion_estimation_kernel",
                  "initial_rate_control_kernel", "source_based_operations_kernel", "picture_manager_kernel", "rate_control_kernel",
                  "mode_decision_configuration_kernel", "mode_decision_kernel", "dlf_kernel", "cdef_kernel", "rest_kernel",
                  "entropy_coding_kernel", "packetization_kernel"]


def kernel_ranges():
    """code range of every pipeline kernel's thread function in the recorder binary (static, -no-pie)."""
    from checks import common
    exe = common.enc_record_exe()
    rc, out = vlib.sh(["nm", "-S", "--defined-only", exe], timeout=120)
    rg = {}
    for l in out.splitlines():
        f = l.split()
        if len(f) == 4 and f[2] in "tT" and f[3] in KERNEL_THREADS:
            rg[f[3]] = (int(f[0], 16), int(f[0], 16) + int(f[1], 16))
    if len(rg) < 12:
        raise vlib.ModelFailure("could not locate the pipeline kernels in the recorder binary (%d found)" % len(rg))
    return rg


def slow_kernel_groups(res):
    """One pipeline stage at a time is made slow relative to all others (every thread of that kernel sleeps each time it
    receives a task): a systematic walk through the 'stage X falls behind' schedules that uniform noise rarely produces.
    Streams are long enough for a second (inter) base-layer picture, with and without TPL."""
    rg = kernel_ranges()
    quick = res.tier == "quick"
    groups = []
    confs = [({"enable_tpl_la": 1}, "motion", 128, 128, 49, 8)] if quick else \
            [({"enable_tpl_la": 1}, "motion", 128, 128, 49, 8), ({"enable_tpl_la": 0}, "motion", 128, 128, 40, 8),
             ({"enable_tpl_la": 1, "enc_mode": 6}, "edges", 128, 96, 40, 6), ({"enable_tpl_la": 1, "tile_columns": 1}, "fastpan", 256, 128, 36, 8)]
    for sets, content, w, h, n, preset in confs:
        s = {"enc_mode": preset, "logical_processors": 4, "recon_enabled": 1}
        s.update(sets)
        base = ["-n", str(n), "-w", str(w), "-h", str(h), "--content", content]
        cs = [{"args": list(base), "key_args": base, "sets": dict(s), "n": n, "w": w, "h": h, "bits": 8}]
        for k in sorted(rg):
            for us in ([3000] if quick else [3000, 20000]):
                lo, hi = rg[k]
                cs.append({"args": base + ["--slow-kernel", "%x:%x:1000:%d" % (lo, hi, us)], "key_args": base, "sets": dict(s),
                           "n": n, "w": w, "h": h, "bits": 8, "slow": k})
        groups.append((obsfam.key_of(cs[0]), cs))
    # "stage X is held back right AFTER each of its hand-overs" (whatever X still does to an object it already passed on happens
    # late), with the frame-end CDF update off: that update makes every picture wait for the packetization feedback of its
    # references -- an extra dependency that hides hand-overs made too early
    confs2 = [({"enable_tpl_la": 0, "frame_end_cdf_update": 0}, "fastpan", 352, 288, 18, 8)]
    if not quick:
        confs2.append(({"enable_tpl_la": 1, "frame_end_cdf_update": 0}, "motion", 256, 128, 33, 8))
    for sets, content, w, h, n, preset in confs2:
        s = {"enc_mode": preset, "logical_processors": 4, "recon_enabled": 1}
        s.update(sets)
        base = ["-n", str(n), "-w", str(w), "-h", str(h), "--content", content]
        cs = [{"args": list(base), "key_args": base, "sets": dict(s), "n": n, "w": w, "h": h, "bits": 8}]
        for k in sorted(rg):
            lo, hi = rg[k]
            cs.append({"args": base + ["--slow-kernel", "%x:%x:1000:%d:1" % (lo, hi, 30000 if quick else 100000)], "key_args": base, "sets": dict(s),
                       "n": n, "w": w, "h": h, "bits": 8, "slow": k + "/after-post"})
        groups.append((obsfam.key_of(cs[0]), cs))
    res.cov["slow_kernel_runs"] = sum(len(c) - 1 for _, c in groups)
    return groups


def run(res):
    res.cov["rule"] = ("cases = (configuration, content, thread count) x schedule-perturbation seeds; all runs of one "
                       "(configuration, content, thread count) must agree; distinct by full command line")
    res.assumptions += ["perturbation (seeded yields/sleeps at every mutex/semaphore operation, and one pipeline stage at a time slowed down) samples schedules; it does not enumerate them",
                        "exhaustive interleavings are explored on the specifications only (SRMMC, EncDecSegMC, Packetize)"]
    for cfg in ["Packetize_small.cfg", "Packetize_live.cfg"]:
        r = vlib.tlc("Packetize", cfg, timeout=3000, heap="16g")
        res.tlc_stats(r)
        res.case("tlc:" + cfg)
        if not r["ok"]:
            res.violation("Packetize model (%s) violates %s" % (cfg, r["violated"]), r["out"][-6000:])
    rng = random.Random(res.seed * 23 + 11)
    quick = res.tier == "quick"
    groups = []
    for sets, content, w, h, bits, n in CONFIGS + ([] if quick else CONFIGS_THOROUGH):
        for lp in ([4] if quick else [2, 4, 8]):
            s = {"enc_mode": 8, "logical_processors": lp, "recon_enabled": 1}
            s.update(sets)
            base = ["-n", str(n), "-w", str(w), "-h", str(h), "--bits", str(bits), "--content", content]
            cs = []
            for k in range(5 if quick else 14):
                args = list(base)
                if k:
                    args += ["--perturb", "%d:%d:%d" % (rng.randrange(1, 10 ** 6), rng.choice([100, 300, 600]), rng.choice([20, 100, 400]))]
                cs.append({"args": args, "key_args": base, "sets": dict(s), "n": n, "w": w, "h": h, "bits": bits})
            groups.append((obsfam.key_of(cs[0]), cs))
    groups += slow_kernel_groups(res)
    obsfam.run_groups(res, groups, timeout=120, known_key_fn=known, what="C04 determinism under perturbed schedules")
    res.add("traces_validated_against_impl", 0)
