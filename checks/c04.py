"""C04 -- determinism under every thread interleaving, and termination.
Model: Packetize.tla (same delivered sequence for every completion order of the parallel middle), plus the
exactly-once / order results of SRM.tla and EncDecSeg.tla (C23, C24).  Code: the same input/configuration
(including the thread count) encoded under different seeded schedule perturbations (every lock / semaphore
operation of the library is a scheduling point); Observe.tla requires identical packets and recon pictures."""
import random

import vlib
from checks import obsfam

LEVEL = "model_checking"

CONFIGS = [
    ({}, "motion", 128, 128, 8, 14),
    ({"enable_tpl_la": 1}, "motion", 64, 64, 8, 70),
    ({"enable_qp_scaling_flag": 0, "enable_tpl_la": 0}, "noise", 128, 64, 8, 12),
    ({"tile_columns": 1, "tile_rows": 1}, "motion", 256, 128, 8, 10),
    ({"rate_control_mode": 1, "target_bit_rate": 200000}, "motion", 176, 144, 8, 20),
    ({"rate_control_mode": 2, "target_bit_rate": 200000}, "motion", 176, 144, 8, 20),
]
CONFIGS_THOROUGH = [
    ({"enc_mode": 6}, "motion", 128, 128, 8, 10),
    ({}, "grad", 96, 80, 10, 10),
    ({"hierarchical_levels": 5, "intra_period_length": 15}, "edges", 128, 128, 8, 40),
    ({"enable_overlays": 1, "tf_level": 1, "hierarchical_levels": 3}, "motion", 128, 64, 8, 17),
    ({"film_grain_denoise_strength": 10}, "noise", 128, 64, 8, 10),
    ({"screen_content_mode": 1}, "screen", 128, 128, 8, 10),
    ({"look_ahead_distance": 17, "enable_tpl_la": 1}, "motion", 128, 128, 8, 30),
]


def known(r, kind):
    s = r["case"]["sets"]
    return {"kind": "nondeterministic" if kind == "mismatch" else kind, "rate_control_mode": s.get("rate_control_mode", 0),
            "enable_tpl_la": int(s.get("enable_tpl_la", 0)),
            "hierarchical_levels": s.get("hierarchical_levels", 4), "logical_processors": s.get("logical_processors")}


def run(res):
    res.cov["rule"] = ("cases = (configuration, content, thread count) x schedule-perturbation seeds; all runs of one "
                       "(configuration, content, thread count) must agree; distinct by full command line")
    res.assumptions += ["perturbation (seeded yields/sleeps at every mutex/semaphore operation) samples schedules; it does not enumerate them",
                        "exhaustive interleavings are explored on the specifications only (SRMMC, EncDecSegMC, Packetize)"]
    for cfg in ["Packetize_small.cfg", "Packetize_live.cfg"]:
        r = vlib.tlc("Packetize", cfg, timeout=3000, heap="16g")
        res.tlc_stats(r)
        res.case("tlc:" + cfg)
        if not r["ok"]:
            res.violation("Packetize model (%s) violates %s" % (cfg, r["violated"]), r["out"][-6000:])
    rng = random.Random(res.seed * 23 + 11)
    quick = res.tier == "quick"
    groups = []
    for sets, content, w, h, bits, n in CONFIGS + ([] if quick else CONFIGS_THOROUGH):
        for lp in ([4] if quick else [2, 4, 8]):
            s = {"enc_mode": 8, "logical_processors": lp, "recon_enabled": 1}
            s.update(sets)
            base = ["-n", str(n), "-w", str(w), "-h", str(h), "--bits", str(bits), "--content", content]
            cs = []
            for k in range(5 if quick else 14):
                args = list(base)
                if k:
                    args += ["--perturb", "%d:%d:%d" % (rng.randrange(1, 10 ** 6), rng.choice([100, 300, 600]), rng.choice([20, 100, 400]))]
                cs.append({"args": args, "key_args": base, "sets": dict(s), "n": n, "w": w, "h": h, "bits": bits})
            groups.append((obsfam.key_of(cs[0]), cs))
    obsfam.run_groups(res, groups, timeout=120, known_key_fn=known, what="C04 determinism under perturbed schedules")
    res.add("traces_validated_against_impl", 0)
