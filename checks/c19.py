"""C19 -- intra refresh placement; key frames are random-access points.
Bitstream.tla: intra-coded pictures exactly at display positions multiple of P+1 (KEY and shown for IDR
refresh), a shown key frame refreshes every DPB slot and nothing later references across it.
Observe.tla: decoding the stream from every packet that carries a shown key frame (independent decoder)
gives the same pictures for those positions as decoding from the start."""
import os
import random

import vlib
from checks import common, corpus, stream

LEVEL = "exploration"


def cases(res):
    rng = random.Random(res.seed * 31 + 2)
    out = []

    def add(n, sets, w=64, h=64):
        s = {"enc_mode": 8, "logical_processors": 4}
        s.update(sets)
        out.append({"args": ["-n", str(n), "-w", str(w), "-h", str(h)], "sets": s, "n": n, "w": w, "h": h})
    periods = [-1, 0, 1, 2, 3, 7, 8, 15, 16] if res.tier == "quick" else [-1, 0, 1, 2, 3, 4, 5, 7, 8, 9, 15, 16, 17, 23, 31, 32, 33, 63]
    for p in periods:
        for rt in (1, 2):
            for hl in ((3, 4) if res.tier == "quick" else (1, 2, 3, 4)):
                n = rng.choice([18, 27, 35, 41]) if p < 32 else 140
                add(n, {"intra_period_length": p, "intra_refresh_type": rt, "hierarchical_levels": hl})
    # streams longer than the picture-control-set pools (objects are recycled), few threads = small pools
    for p, hl in ((-1, 4), (9, 4), (13, 4), (-1, 3), (6, 3)):
        add(60 if res.tier == "quick" else 130, {"intra_period_length": p, "intra_refresh_type": 2, "hierarchical_levels": hl, "logical_processors": 1})
    add(60, {"intra_period_length": 9, "intra_refresh_type": 1, "logical_processors": 1})
    for p in (7, 15):
        add(34, {"intra_period_length": p, "intra_refresh_type": 2, "enable_overlays": 1, "tf_level": 1, "hierarchical_levels": 3})
        add(34, {"intra_period_length": p, "intra_refresh_type": 2, "look_ahead_distance": 17, "enable_tpl_la": 1})
    # the same placement rules under rate control (the intra-period counter is advanced on a different path when a rate-control mode is on)
    for rc, p, rt in ((1, 9, 2), (2, 7, 2), (1, 5, 1)) + (() if res.tier == "quick" else ((1, 16, 2), (2, 15, 1), (1, 31, 2), (2, 3, 2))):
        add(45 if p < 16 else 100, {"intra_period_length": p, "intra_refresh_type": rt, "rate_control_mode": rc, "target_bit_rate": 300000})
    return out


def run(res):
    res.cov["rule"] = ("cases = intra_period_length x intra_refresh_type x hierarchical levels x overlays/look-ahead x stream lengths; "
                       "every shown key frame of every stream is also used as a cut point")
    res.assumptions += ["cut-and-decode uses libaom 3.6.0 as the independent decoder", "scene-change detection is rejected by the library and not exercised"]
    cs = cases(res)
    rs = corpus.run_cases(cs, want_dec=["--aom"], timeout=45)
    b = corpus.Bundle()
    cuts = 0
    cutjobs = []
    for r in rs:
        res.case(r["desc"])
        n = r["case"]["n"]
        if r["rc"] != 0:
            st = r["case"]["sets"]
            res.violation("encode did not complete: " + r["desc"], r["log"][-1000:],
                          key={"kind": "incomplete", "hierarchical_levels": st.get("hierarchical_levels", 4),
                               "intra_refresh_type": st.get("intra_refresh_type", 1), "logical_processors": st.get("logical_processors"),
                               "intra_period_length": st.get("intra_period_length", -2), "crashed": int(r["rc"] in (-11, 139, -6, 134))})
            continue
        be, errs, pk = stream.bitstream_events(r, n_expected=n, expect={"hdrdig": ""})
        b.add("Bitstream", be, r["desc"])
        # packets that carry a shown key frame
        kpk, cur = [], -1
        for x in be:
            if x["ev"] == "Pkt":
                cur = x["i"]
            if x["ev"] == "Frame" and not x["showex"] and x["ftype"] == 0 and x["show"] == 1 and cur > 0:
                kpk.append(cur)
        for k in kpk:
            cutjobs.append((r, k))
    # cut-and-decode

    def cut(job):
        r, k = job
        d = common.run_dec(r["out"] + ".pkts", r["out"] + ".cut%d" % k, ["--aom", "--from", str(k), "-w", "64", "-h", "64"], timeout=60)
        return r, k, d
    by_run = {}
    for r, k, d in common.parallel(cut, cutjobs):
        by_run.setdefault(r["desc"], []).append((k, d))
        if os.path.exists(r["out"] + ".cut%d" % k):
            os.unlink(r["out"] + ".cut%d" % k)
    for r in rs:
        if r["rc"] != 0 or r["dec"] is None:
            continue
        oe = stream.observe_events(r["desc"], None, r["dec"])
        body = oe[1:-1]
        for k, d in sorted(by_run.get(r["desc"], [])):
            cuts += 1
            for e in d["events"]:
                if e["ev"] == "Dec":
                    body.append({"ev": "Obs", "class": "pic", "who": "aom_from_%d" % k, "k": e["i"] + k, "dig": e["dig"]})
                elif e["ev"] == "DecError":
                    body.append({"ev": "DecError", "who": "aom_from_%d" % k, "msg": e.get("msg", "")})
        # counts differ by construction (suffix decodes): only equality per position is asserted -> no RunEnd
        b.add("Observe", [oe[0]] + body, r["desc"])
    res.add("key_frame_cut_points_decoded", cuts)
    res.sample({"cut_example": [x for x in b.recs.get("Observe", []) if "from" in x.get("who", "")][:3]})
    b.validate(res, "Bitstream", "C19 intra placement / DPB reset")
    b.validate(res, "Observe", "C19 decode from key frame = decode from start")
    corpus.cleanup(rs)
