"""Corpus runner shared by the stream-level checks (C01, C02, C03, C18, C19, C20, C22, ...): runs a list of
cases (recorder command lines) in parallel and packages the traces for the requested specifications."""
import json
import os

import vlib
from checks import common, stream


def case_desc(case):
    return "enc_record " + " ".join(case["args"]) + " " + " ".join("%s=%s" % kv for kv in sorted(case.get("sets", {}).items()))


_calls = 0


def run_cases(cases, want_dec=None, timeout=150, variant="hooks", keep=False):
    """cases: list of dict(args=[...], sets={...}, n=frames, w=, h=, bits=, expect={...}).
    want_dec: None or list of dec_record args (e.g. ['--aom'] or ['--aom','--svt'])."""
    tdir = vlib.tmpdir()
    global _calls
    _calls += 1
    call = _calls            # several calls in one process must not share file names

    def one(j):
        i, c = j
        out = os.path.join(tdir, "case_%d_%d_%d" % (os.getpid(), call, i))
        if c.get("twopass"):
            # two-pass encode: a first session collects the statistics (rc_firstpass_stats_out), a second one consumes them
            st = out + ".stats"
            p1 = common.run_enc(out + "_p1", c["args"] + ["--stats-out", st], c.get("sets"), timeout=timeout, variant=variant)
            for ext in (".trc", ".pkts", ".ev"):
                if os.path.exists(out + "_p1" + ext):
                    os.unlink(out + "_p1" + ext)
            if p1["rc"] != 0 or not os.path.exists(st):
                p1["case"] = c
                p1["desc"] = case_desc(c) + " [two-pass, FIRST pass]"
                p1["dec"] = None
                p1["out"] = out
                return p1
            r = common.run_enc(out, c["args"] + ["--stats-in", st], c.get("sets"), timeout=timeout, variant=variant)
            os.unlink(st)
            r["case"] = c
            r["desc"] = case_desc(c) + " [two-pass]"
            r["dec"] = None
            if want_dec and os.path.exists(out + ".pkts") and os.path.getsize(out + ".pkts") > 0:
                dargs = list(want_dec) + ["-w", str(c.get("w", 64)), "-h", str(c.get("h", 64)), "--bits", str(c.get("bits", 8))]
                r["dec"] = common.run_dec(out + ".pkts", out + ".dec", dargs + c.get("dec_args", []), timeout=timeout, variant=variant)
            return r
        r = common.run_enc(out, c["args"], c.get("sets"), timeout=timeout, variant=variant)
        r["case"] = c
        r["desc"] = case_desc(c)
        r["dec"] = None
        if want_dec and os.path.exists(out + ".pkts") and os.path.getsize(out + ".pkts") > 0:
            dargs = list(want_dec) + ["-w", str(c.get("w", 64)), "-h", str(c.get("h", 64)), "--bits", str(c.get("bits", 8))]
            dargs += c.get("dec_args", [])
            r["dec"] = common.run_dec(out + ".pkts", out + ".dec", dargs, timeout=timeout, variant=variant)
        return r
    rs = common.parallel(one, list(enumerate(cases)))
    return rs


def cleanup(rs):
    for r in rs:
        for ext in (".trc", ".pkts", ".ev", ".dec"):
            p = r["out"] + ext
            if os.path.exists(p):
                os.unlink(p)


class Bundle:
    """Accumulates concatenated traces per specification module."""

    def __init__(self):
        self.recs = {}
        self.index = {}

    def add(self, module, recs, desc):
        a = self.recs.setdefault(module, [])
        ix = self.index.setdefault(module, [])
        ix.append((len(a) + 1, len(a) + len(recs), desc))
        a.extend(recs)

    def validate(self, res, module, what, key_fn=None, retry_fn=None):
        """Validate; on rejection report and -- so that the rest of the corpus is still checked --
        drop the offending execution and validate again (bounded)."""
        recs, index = self.recs.get(module, []), self.index.get(module, [])
        first = True
        for _ in range(12):
            if not recs:
                return
            ok, rej = common.validate_trace(res, module, recs, index, "b%d" % os.getpid(), what, count_traces=first)
            first = False
            if ok:
                return
            hit = [(a, b, d) for a, b, d in index if a <= rej["bad"] <= b]
            key = key_fn(rej) if key_fn else None
            common.report_rejection(res, rej, key=key)
            if not hit:
                return
            a, b, d = hit[0]
            repl = retry_fn(rej, recs[a - 1:b]) if retry_fn else None
            # rebuild without (or with the repaired version of) the rejected execution
            nrecs, nindex = [], []
            for (x, y, dd) in index:
                part = recs[x - 1:y]
                if (x, y) == (a, b):
                    if repl is None:
                        continue
                    part = repl
                nindex.append((len(nrecs) + 1, len(nrecs) + len(part), dd))
                nrecs.extend(part)
            recs, index = nrecs, nindex
