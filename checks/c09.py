"""C09 -- multi-threaded decoding is safe and equal to single-threaded decoding.
(DecRowDeps.tla adds the data dependencies between row jobs across TILE COLUMNS: recon top-down per column, deblocking of
row r only after rows r-1..r+1 are reconstructed in every column, CDEF after deblocking of r-1..r+1.)
Model: DecMT.tla -- the frame-level stage/row protocol (row hand-out under the row mutex, done maps, start
flags, the motion-field and end-of-frame barriers) explored exhaustively for 2-3 threads x 2-3 rows x 2 frames:
each row once per stage, stage ordering, no stale start flag, resets only behind the barrier, completion.
Code: the same streams (1..8 tiles) decoded with threads 1..16 under seeded schedule perturbation; Observe.tla
requires the pictures of the 1-thread run; the decoder must tear down (no crash, no hang); thorough: ASan.  The row jobs of every multi-threaded decode are recorded by
guarded hooks (frame reset, recon row done, LF/CDEF/LR row begin and done-map updates) and validated event by event against
DecRowsTrace.tla (direction B)."""
import os
import random
import re

import vlib
from checks import common, corpus, stream

LEVEL = "model_checking"


def run(res):
    res.cov["rule"] = ("cases = TLC configurations of DecMT.tla + (stream, decoder thread count, perturbation seed) decodes; all decodes of a "
                       "stream must equal the single-thread pictures; distinct by stream configuration x threads x seed")
    res.assumptions += ["DecMT.tla (start flags, barriers) is bound observationally; the row-job dependencies are bound by trace validation (DecRowsTrace.tla)",
                        "'data race' in the C11 sense is not judged: the protocol is built on plain volatile flags and the model assumes word-atomic sequentially consistent accesses (x86-TSO for the orders it relies on)"]
    cfgs = ["DecMT.cfg", "DecMT_rows.cfg", "DecMT_live.cfg"] + (["DecMT_big.cfg"] if res.tier == "thorough" else [])
    for cfg in cfgs:
        r = vlib.tlc("DecMT", cfg, timeout=3000, heap="16g")
        res.tlc_stats(r)
        res.case("tlc:" + cfg)
        if not r["ok"]:
            res.violation("DecMT model (%s) violates %s" % (cfg, r["violated"]), r["out"][-6000:])
    # tile-column data dependencies of the row jobs (DecRowDeps.tla): the code's wait condition keeps intra prediction from
    # reading deblocked lines; the one-index-away variant must violate it (vacuity guard), columns must be able to run ahead
    r = vlib.tlc("DecRowDeps", "DecRowDeps.cfg", workers=4, timeout=900)
    res.tlc_stats(r)
    res.case("tlc:DecRowDeps")
    if not r["ok"]:
        res.violation("DecRowDeps model violates %s" % r["violated"], r["out"][-4000:])
    for cfg, inv in (("DecRowDeps_col0.cfg", "NoHazard"), ("DecRowDeps_wit.cfg", "NeverAhead")):
        g = vlib.tlc("DecRowDeps", cfg, workers=4, timeout=900)
        if g["ok"] or g["violated"] != inv:
            raise vlib.ModelFailure("DecRowDeps guard %s: expected a violation of %s" % (cfg, inv))
    # the superblock wavefront inside each stage (DecWave.tla): each stage's wait expression, as coded, implies the data
    # dependency (left + above-right superblock complete) on every grid / thread assignment and cannot stall; the threshold
    # weakened by one must violate (vacuity guard); rows must really overlap (witness)
    wave = [(k, "") for k in ("recon", "lf", "cdef", "lr")] + [(k, "w1") for k in ("recon", "lf", "lr")]
    for k, sfx in wave:
        cfg = "DecWave_%s_%s.cfg" % (k, sfx or "0")
        r = vlib.tlc("DecWave", cfg, workers=2, timeout=900)
        res.tlc_stats(r)
        res.case("tlc:" + cfg)
        if not r["ok"]:
            res.violation("DecWave model (%s) violates %s" % (cfg, r["violated"]), r["out"][-4000:])
    guards = [("DecWave_%s_1.cfg" % k, "NoEarlyStart") for k in ("recon", "lf", "cdef", "lr")] + [("DecWave_wit.cfg", "NeverConcurrent")]
    # observation, not a finding: with ONE superblock column the CDEF progress word's reset value (0) already reads "superblock 0
    # done", so a row does not wait for the row above at all (DecWave_cdef_w1.cfg violates NoEarlyStart).  Pictures one
    # superblock wide and several high crash earlier in the real decoder (recorded C08 finding), so no execution can show it.
    guards.append(("DecWave_cdef_w1.cfg", "NoEarlyStart"))
    for cfg, inv in guards:
        g = vlib.tlc("DecWave", cfg, workers=2, timeout=900)
        if g["ok"] or g["violated"] != inv:
            raise vlib.ModelFailure("DecWave guard %s: expected a violation of %s" % (cfg, inv))
    res.cov["decwave_observation"] = "DecWave_cdef_w1.cfg (one superblock column): CDEF rows do not wait for the row above; unreachable in the real decoder (portrait grids crash first)"
    rng = random.Random(res.seed * 67 + 14)
    cs = []

    def add(n, sets, content="motion", w=128, h=128, bits=8):
        s = {"enc_mode": 8, "logical_processors": 4}
        s.update(sets)
        cs.append({"args": ["-n", str(n), "-w", str(w), "-h", str(h), "--bits", str(bits), "--content", content], "sets": s, "n": n, "w": w, "h": h, "bits": bits})
    add(12, {}, "motion", 192, 128)
    add(10, {"tile_columns": 1, "tile_rows": 1}, "motion", 256, 256)
    add(8, {"tile_columns": 2, "tile_rows": 1}, "noise", 512, 128)
    add(8, {}, "motion", 192, 128, 10)
    # tile columns of very different cost over several superblock rows: stage dependencies across tile columns
    add(12, {"tile_columns": 2, "qp": 40, "intra_period_length": 3}, "lopsided", 352, 288)
    add(8, {"tile_columns": 1, "tile_rows": 1, "qp": 30, "intra_period_length": 0}, "lopsided", 320, 256)
    add(8, {"enc_mode": 6}, "edges", 256, 128)                                   # loop restoration on (recorded finding)
    add(8, {"enc_mode": 6, "enable_restoration_filtering": 0}, "edges", 256, 128)
    if res.tier == "thorough":
        add(30, {"tile_columns": 1}, "motion", 320, 192)
        add(10, {"film_grain_denoise_strength": 10, "tile_rows": 1}, "noise", 256, 128)
        add(10, {"superres_mode": 2}, "motion", 256, 128)
        add(10, {"screen_content_mode": 1, "tile_columns": 1}, "screen", 256, 128)
        add(12, {"intra_period_length": 0}, "motion", 192, 192)
    rs = corpus.run_cases(cs, timeout=150)
    threads = [1, 2, 3, 4, 6, 8] if res.tier == "quick" else [1, 2, 3, 4, 5, 6, 7, 8]
    seeds = 2 if res.tier == "quick" else 5
    jobs = []
    for r in rs:
        if r["rc"] != 0:
            res.cov.setdefault("incomplete_encodes", []).append(r["desc"])
            continue
        for t in threads:
            for s in range(seeds if t > 1 else 1):
                jobs.append((r, t, s))

    def dec(j):
        r, t, s = j
        c = r["case"]
        out = r["out"] + ".dec_t%d_s%d" % (t, s)
        args = ["--svt", "--threads", str(t), "--who", "svt", "-w", str(c["w"]), "-h", str(c["h"]), "--bits", str(c["bits"])]
        if t > 1:
            args += ["--trace", "dec,decsb,decdpb", "--trace-out", out + ".trc"]     # row-job and superblock events of the multi-threaded stages
        if s:
            args += ["--perturb", "%d:%d:%d" % (rng.randrange(1, 10 ** 6), 200, 0)]      # yields only (the decoder busy-waits)
            if t > 1:
                # the emitting thread sleeps now and then right after an event: row workers drift against each other, so a row
                # regularly catches up with the row above and really has to wait at the top-right sync point
                args += ["--trace-jitter", "%d:%d:%d" % (rng.randrange(1, 10 ** 6), 120, 400)]
        d = common.run_dec(r["out"] + ".pkts", out, args, timeout=90, variant="hooks")
        d["loadavg"] = os.getloadavg()[0]
        if os.path.exists(out):
            os.unlink(out)
        d["rows"] = d["sbs"] = None
        if os.path.exists(out + ".trc"):
            d["rows"] = [{"ev": "Reset", "a": []}] + [{"ev": ev, "a": a} for _, _, _, _, ev, a in vlib.read_trace(out + ".trc", "dec")]
            d["sbs"] = [{"ev": "Reset", "a": []}] + [{"ev": ev, "a": a} for _, _, _, _, ev, a in vlib.read_trace(out + ".trc", "decsb")]
            d["dpb"] = [{"ev": "Reset", "a": []}] + [{"ev": ev, "a": a} for _, _, _, _, ev, a in vlib.read_trace(out + ".trc", "decdpb")]
            os.unlink(out + ".trc")
        return r, t, s, d
    b = corpus.Bundle()
    # the decoder's stages busy-wait on plain flags: keep the host from being oversubscribed (<= 2 decodes at a time);
    # the oversubscribed regime is exercised separately below (thorough) and is a recorded finding
    for r, t, s, d in common.parallel(dec, jobs, workers=2):
        desc = "%s | decode threads=%d seed=%d" % (r["desc"], t, s)
        res.case(desc)
        key = {"threads_ge_2": int(t >= 2), "regime": "normal", "bits": r["case"]["bits"]}
        if any(e["ev"] == "Timeout" for e in d["events"]):
            ph = [e.get("phase") for e in d["events"] if e["ev"] == "Timeout"]
            # this regime presupposes a host that is not oversubscribed (<= 2 decodes at a time): when other work keeps more
            # runnable threads than cores, the stall is the recorded oversubscription finding, not a new one
            la = max(d.get("loadavg", 0.0), os.getloadavg()[0])
            if la > (os.cpu_count() or 16):
                key["regime"] = "oversubscribed"
            res.violation("multi-threaded decode hangs (%s, host load %.0f): %s" % (ph, la, desc), d["log"][-800:], key=dict(key, kind="hang"))
            continue
        if d["rc"] not in (0,) or not any(e["ev"] == "DecTeardown" for e in d["events"]):
            res.violation("multi-threaded decode crashed or did not tear down (rc=%s): %s" % (d["rc"], desc), d["log"][-800:], key=dict(key, kind="crash"))
        b.add("Observe", stream.observe_events(r["desc"], None, d), desc)
        if d.get("rows") and len(d["rows"]) > 1:
            b.add("DecRowsTrace", d["rows"], desc)
        if d.get("dpb") and len(d["dpb"]) > 1:
            b.add("DecDpbTrace", d["dpb"], desc)
        if d.get("sbs") and len(d["sbs"]) > 1:
            b.add("DecWaveTrace", d["sbs"], desc)
        elif t > 1 and d["rc"] == 0:
            raise vlib.ModelFailure("no superblock events (stream decsb) recorded for a multi-threaded decode: hooks missing? " + desc)
    res.sample({"observations": b.recs.get("Observe", [])[:4]})
    res.sample({"row_job_trace_prefix": b.recs.get("DecRowsTrace", [])[:12]})
    def kf(rej):
        hit = [r for r in rs if rej["desc"].startswith(r["desc"])]
        st = hit[0]["case"]["sets"] if hit else {}
        lr = 1 if (st.get("enable_restoration_filtering", -1) == 1 or (st.get("enable_restoration_filtering", -1) == -1 and st.get("enc_mode", 8) <= 6)) else 0
        return {"kind": "mismatch", "loop_restoration": lr}
    b.validate(res, "Observe", "C09 multi-threaded = single-threaded pictures", key_fn=kf)
    # the row-job protocol of every multi-threaded decode, event by event (DecRowsTrace.tla)
    b.validate(res, "DecRowsTrace", "C09 decoder row-job protocol (recon -> LF -> CDEF -> LR dependencies, once per row, reset behind the barrier)",
               key_fn=lambda rej: {"kind": "row_protocol", "event": (rej.get("event") or {}).get("ev")})
    # the superblock wavefront inside every stage (DecWaveTrace.tla): a superblock starts only after its left and above-right
    # neighbours of the same stage are complete
    res.sample({"superblock_trace_prefix": b.recs.get("DecWaveTrace", [])[:10]})
    b.validate(res, "DecWaveTrace", "C09 superblock wavefront inside the decoder stages (top-right sync of recon, deblocking, CDEF, restoration)",
               key_fn=lambda rej: {"kind": "sb_wavefront", "event": (rej.get("event") or {}).get("ev"), "stage": ((rej.get("event") or {}).get("a") or [None])[0]})
    # the picture-buffer manager under multi-threading (DecDpbTrace.tla; its exhaustive model runs in C08)
    b.validate(res, "DecDpbTrace", "C09 decoder picture-buffer manager under multi-threaded decoding follows DecDpb.tla",
               key_fn=lambda rej: {"kind": "dpb", "event": (rej.get("event") or {}).get("ev")})
    if res.tier == "thorough":
        # oversubscribed regime: 10 concurrent decodes with up to 16 busy-waiting threads each and sleeps inside critical sections
        jo = [(r, t, 1 + i) for i, r in enumerate([x for x in rs if x["rc"] == 0][:2]) for t in (6, 10, 14, 16, 16)]

        def deco(j):
            r, t, s = j
            c = r["case"]
            out = r["out"] + ".deco_t%d_%d" % (t, s)
            d = common.run_dec(r["out"] + ".pkts", out, ["--svt", "--threads", str(t), "-w", str(c["w"]), "-h", str(c["h"]), "--bits", str(c["bits"]),
                                                           "--perturb", "%d:300:60" % (s * 131 + t)], timeout=100)
            if os.path.exists(out):
                os.unlink(out)
            return r, t, d
        for r, t, d in common.parallel(deco, jo, workers=10):
            res.case("oversubscribed threads=%d %s" % (t, r["desc"]))
            if d["rc"] != 0 or any(e["ev"] == "Timeout" for e in d["events"]):
                res.violation("oversubscribed multi-threaded decode does not finish / crashes (rc=%s) threads=%d: %s" % (d["rc"], t, r["desc"]), d["log"][-600:],
                              key={"kind": "hang", "regime": "oversubscribed"})
        # s = bytes the harness allocates beyond each temporal unit.  The decoder's bit reader fetches whole 32-bit words
        # and looks one word ahead (dec_bits_init, EbDecBitstream.c), i.e. it reads past data_size for ANY thread count:
        # with s = 0 that over-read is what ASan stops at (recorded finding); s = 64 lets the run go on to the
        # multi-threaded parse / recon / filter jobs this property is about.
        ja = [(r, t, 64) for r in rs[:3] if r["rc"] == 0 for t in (2, 4, 8)] + [(r, 1, 0) for r in rs[:1] if r["rc"] == 0]

        def deca(j):
            r, t, s = j
            c = r["case"]
            out = r["out"] + ".deca_t%d" % t
            d = common.run_dec(r["out"] + ".pkts", out, ["--svt", "--threads", str(t), "-w", str(c["w"]), "-h", str(c["h"]), "--bits", str(c["bits"]),
                                                           "--buf-slack", str(s)], timeout=300, variant="san")
            return r, t, s, d
        for r, t, s, d in common.parallel(deca, ja, workers=4):
            res.case("asan threads=%d slack=%d %s" % (t, s, r["desc"]))
            if d["rc"] != 0:
                m = re.search(r"SUMMARY: AddressSanitizer: (\S+) \S*?([A-Za-z0-9_]+\.[ch]):\d+ in (\w+)", d["log"])
                key = {"kind": "asan", "error": m.group(1) if m else "?", "file": m.group(2) if m else "?", "func": m.group(3) if m else "?",
                       "exact_input_buffer": s == 0}
                res.violation("sanitizer build: decode fails (rc=%s, %s in %s) threads=%d input-buffer slack=%d: %s"
                              % (d["rc"], key["error"], key["func"], t, s, r["desc"]), d["log"][-2500:], key=key)
    corpus.cleanup(rs)
