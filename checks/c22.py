"""C22 -- long streams, order-hint and queue wrap-around.
(i)  RelDist.tla: theorem (TLC, all bits <= 8) + the full table computed by the five real helper functions
     judged row by row;  (ii) Packetize.tla with reorder depth D in {2,4} << N (every slot reused);
(iii) real streams longer than 2^7 order hints and than the 2048-deep packetization queue (quick; 5000-deep queues in thorough),
     validated by Session.tla, Bitstream.tla (order hints modulo, DPB) and Observe.tla (recon = independent decode)."""
import os

import vlib
from checks import common, corpus, stream

LEVEL = "model_checking"


def run(res):
    res.cov["rule"] = ("cases = TLC configurations + one table row per (bits,a,b) evaluated by the five real helpers + long encodes "
                       "(distinct command lines); non-trivial long encode = longer than 2^order_hint_bits pictures")
    res.assumptions += ["long streams use small pictures (64x64 .. 128x128) to stay within the time budget"]
    r = vlib.tlc("RelDist", "RelDist_thm.cfg", timeout=900)
    res.tlc_stats(r)
    res.case("tlc:RelDist_thm")
    if not r["ok"]:
        res.violation("RelDist theorem violated in the specification: %s" % r["violated"], r["out"][-3000:])
    for cfg in ["Packetize_wrap.cfg", "Packetize_small.cfg"]:
        r = vlib.tlc("Packetize", cfg, timeout=3000, heap="16g")
        res.tlc_stats(r)
        res.case("tlc:" + cfg)
        if not r["ok"]:
            res.violation("Packetize model (%s) violates %s" % (cfg, r["violated"]), r["out"][-6000:])
    # (i) replay of the real helpers
    exe = vlib.build_harness("reldist_replay", ["reldist_replay.c"], sync=False)
    hi = 7 if res.tier == "quick" else 8
    rc, out = vlib.sh([exe, "1", str(hi)], timeout=120)
    if rc != 0:
        res.violation("order-hint distance helpers crashed (rc=%s)" % rc, out[-2000:])
    else:
        p = os.path.join(vlib.tmpdir(), "reldist.ndjson")
        open(p, "w").write(out)
        nrows = out.count("\n")
        ok, consumed, rr = vlib.tlc_trace("RelDist", "RelDist.cfg", p, timeout=1800)
        res.add("reldist_rows_validated", consumed)
        res.add("traces_validated_against_impl", 1)
        res.case("reldist table bits<=%d" % hi)
        res.sample({"reldist_rows": out.splitlines()[5:8]})
        if not ok:
            row = out.splitlines()[consumed] if consumed < nrows else "?"
            res.violation("a real order-hint distance helper disagrees with RelDist.tla at row %d: %s (order of results: "
                          "get_relative_dist_enc, AMVP, picture decision, MD configuration, decoder)" % (consumed + 1, row), row)
    # (iii) long streams
    cs = []

    def add(n, sets, content="motion", w=128, h=128, args=()):
        s = {"enc_mode": 8, "logical_processors": 8, "recon_enabled": 1}
        s.update(sets)
        cs.append({"args": ["-n", str(n), "-w", str(w), "-h", str(h), "--content", content, "--pts", "big"] + list(args), "sets": s,
                   "n": n, "w": w, "h": h})
    add(300, {"intra_period_length": -1})
    add(270, {"intra_period_length": 31, "hierarchical_levels": 3}, "motion", 64, 64)
    add(200, {"hierarchical_levels": 2, "intra_period_length": -1}, "edges", 128, 64)
    # past the 2048-deep packetization / reorder queues, with temporal units that straddle the physical end of the ring
    # (five-layer mini-GOPs, key frames every 32 pictures: decode orders 2047 and 2048 share a temporal unit)
    add(2100, {"intra_period_length": 32}, "pan", 64, 64)
    if res.tier == "thorough":
        add(2100, {"intra_period_length": -2, "hierarchical_levels": 3}, "pan", 64, 64)
        add(4200, {"intra_period_length": 47, "hierarchical_levels": 4}, "pan", 64, 64)
        add(2200, {"intra_period_length": -1}, "motion", 64, 64)
        add(5200, {"intra_period_length": 31, "hierarchical_levels": 3}, "motion", 64, 64)
        # overlays: only complete mini-GOPs and no key frame inside the stream -- a partial mini-GOP of 8..15 pictures at the end of
        # the stream or before a key frame stalls the session (recorded C03 finding, which C03 keeps reporting)
        add(2305, {"hierarchical_levels": 4, "intra_period_length": -1, "enable_overlays": 1, "tf_level": 1}, "motion", 64, 64)
        add(700, {"intra_period_length": -1, "enc_mode": 6}, "motion", 176, 144)
    rs = corpus.run_cases(cs, want_dec=["--aom"], timeout=900 if res.tier == "thorough" else 200)
    b = corpus.Bundle()
    for r in rs:
        n = r["case"]["n"]
        res.case(r["desc"])
        if r["rc"] != 0:
            res.violation("long encode did not complete (rc=%s): %s" % (r["rc"], r["desc"]), r["log"][-1500:], key={"kind": "incomplete"})
            continue
        b.add("Session", stream.session_events(r), r["desc"])
        be, errs, pk = stream.bitstream_events(r, n_expected=n, expect={"hdrdig": ""})
        b.add("Bitstream", be, r["desc"])
        b.add("Observe", stream.observe_events(r["desc"], r, r["dec"], packets=False, recon=True), r["desc"])
        ndec = len([e for e in r["dec"]["events"] if e["ev"] == "Dec"])
        if ndec != n:
            res.violation("independent decoder output %d pictures for %d submitted: %s" % (ndec, n, r["desc"]), "", key={"kind": "count"})
    b.validate(res, "Session", "C22 long stream, API protocol")
    b.validate(res, "Bitstream", "C22 long stream, order hints / DPB")
    b.validate(res, "Observe", "C22 long stream, recon = independent decode")
    corpus.cleanup(rs)
