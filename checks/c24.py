"""C24 -- wave-front EncDec segments: TLC exhaustive over all small grids x segment grids x worker
interleavings (EncDecSegMC) + trace validation of real encodes (EncDecSegTrace), which also compares the
tables computed by the real enc_dec_segments_init with the specification's geometry entry by entry."""
import collections
import json
import os

import vlib
from checks import common

LEVEL = "model_checking"
INVS = "GeometryOK NeverTwice NoStuck DepsRespected AssignedValid OneRunner DepNoUnderflow FeedbackBounded"


def mc_cfg(name, maxw, maxh, nw, live=False, cap=8):
    p = os.path.join(vlib.tmpdir(), "EncDecSegMC_%s.cfg" % name)
    with open(p, "w") as f:
        f.write("SPECIFICATION %s\nCONSTANTS MaxW = %d MaxH = %d NW = %d MaxRowsCap = %d\n" %
                ("FairSpec" if live else "Spec", maxw, maxh, nw, cap))
        if live:
            f.write("PROPERTIES Completes\n")
        else:
            f.write("INVARIANTS %s\n" % INVS)
        f.write("CHECK_DEADLOCK FALSE\n")
    return p


def model_part(res):
    cfgs = [("4x4w2", 4, 4, 2, False, 8), ("3x3w3", 3, 3, 3, False, 8), ("3x3live", 3, 3, 2, True, 8),
            ("4x4cap2", 4, 4, 2, False, 2), ("6x2w1", 6, 2, 1, False, 8), ("2x6w1", 2, 6, 1, False, 8)]
    if res.tier == "thorough":
        cfgs += [("5x5w2", 5, 5, 2, False, 8), ("4x3w3", 4, 3, 3, False, 8), ("4x4live", 4, 4, 2, True, 8),
                 ("8x8w1", 8, 8, 1, False, 8)]
    for c in cfgs:
        r = vlib.tlc("EncDecSegMC", mc_cfg(*c), timeout=3400, heap="24g")
        res.tlc_stats(r)
        res.case("tlc:" + c[0])
        if not r["ok"]:
            res.violation("EncDecSeg model %s violates %s" % (c[0], r["violated"]), r["out"][-8000:])


ENC = [
    (["-n", "6", "-w", "256", "-h", "192"], {"enc_mode": 8, "logical_processors": 4}),
    (["-n", "5", "-w", "64", "-h", "192"], {"enc_mode": 8, "logical_processors": 4}),          # one SB wide
    (["-n", "5", "-w", "320", "-h", "256", "--perturb", "3:250:50"], {"enc_mode": 8, "logical_processors": 8, "tile_rows": 1}),
    (["-n", "4", "-w", "192", "-h", "64"], {"enc_mode": 8, "logical_processors": 16}),         # one SB high
    (["-n", "4", "-w", "256", "-h", "256"], {"enc_mode": 8, "logical_processors": 6, "super_block_size": 128}),
    (["-n", "5", "-w", "200", "-h", "136", "--perturb", "9:300:80"], {"enc_mode": 8, "logical_processors": 3, "tile_columns": 1}),
]
ENC += [
    (["-n", "4", "-w", "192", "-h", "144"], {"enc_mode": 8, "logical_processors": 8}),            # segment rows do not divide SB rows
    (["-n", "4", "-w", "256", "-h", "208", "--perturb", "31:300:50"], {"enc_mode": 8, "logical_processors": 16}),
]
ENC_THOROUGH = [
    (["-n", "6", "-w", "640", "-h", "384", "--perturb", "21:200:50"], {"enc_mode": 8, "logical_processors": 16}),
    (["-n", "4", "-w", "832", "-h", "128", "--perturb", "22:200:50"], {"enc_mode": 8, "logical_processors": 8}),
    (["-n", "4", "-w", "128", "-h", "704", "--perturb", "23:200:50"], {"enc_mode": 8, "logical_processors": 8, "tile_rows": 2}),
    (["-n", "8", "-w", "384", "-h", "320", "--perturb", "24:300:50"], {"enc_mode": 6, "logical_processors": 5, "tile_rows": 1, "tile_columns": 1}),
    (["-n", "4", "-w", "512", "-h", "512", "--perturb", "25:300:50"], {"enc_mode": 8, "logical_processors": 12, "super_block_size": 128, "tile_rows": 1}),
]


def trace_part(res):
    runs = ENC + (ENC_THOROUGH if res.tier == "thorough" else [])
    tdir = vlib.tmpdir()

    def one(j):
        i, (args, sets) = j
        return common.run_enc(os.path.join(tdir, "seg_%d" % i), args + ["--trace", "seg"], sets, timeout=150)
    allrecs, index = [], []
    grids = collections.Counter()
    for r in common.parallel(one, list(enumerate(runs))):
        desc = " ".join(r["cmd"][1:])
        completed = r["rc"] == 0
        res.case("enc:" + desc)
        if not completed:
            res.violation("encode did not complete (rc=%s): EncDec segment scheduling must always complete the picture; run: %s" % (r["rc"], desc),
                          r["log"][-3000:], key={"kind": "incomplete", "cmd": desc})
        for recs in common.seg_records(r["out"] + ".trc", completed):
            a = recs[0]["a"]
            grids[(a[0], a[1], a[4], a[5])] += 1
            index.append((len(allrecs) + 1, len(allrecs) + len(recs), "%s: picture/tile-group W=%d H=%d reqSC=%d reqSR=%d" % (desc, a[0], a[1], a[2], a[3])))
            allrecs += recs
        for ext in (".trc", ".pkts", ".ev"):
            if os.path.exists(r["out"] + ext):
                os.unlink(r["out"] + ext)
    res.cov["grids_seen_in_real_encodes"] = ["W=%d H=%d segRows=%d segBands=%d (x%d)" % (k + (v,)) for k, v in sorted(grids.items())]
    return allrecs, index


def replay_part(res):
    """Direction A: the real enc_dec_segments_init / assign_enc_dec_segments driven over every small grid."""
    exe = vlib.build_harness("seg_replay", ["seg_replay.c"])
    runs = [(6, 6, 3, 0), (5, 5, 2, 1)] if res.tier == "quick" else [(8, 8, 3, 0), (8, 8, 1, 0), (7, 7, 4, 0), (6, 6, 2, 1), (6, 6, 3, 1), (9, 4, 3, 0), (3, 10, 3, 0)]
    tdir = vlib.tmpdir()

    def one(j):
        i, (mw, mh, nw, cap) = j
        trc = os.path.join(tdir, "segreplay_%d.trc" % i)
        rc, out = vlib.sh([exe, trc, str(res.seed * 100 + i), str(mw), str(mh), str(nw), str(cap)], timeout=600)
        return i, (mw, mh, nw, cap), rc, out, trc
    for i, cfgx, rc, out, trc in common.parallel(one, list(enumerate(runs))):
        desc = "seg_replay maxW=%d maxH=%d workers=%d capMode=%d" % cfgx
        res.case("replay:" + desc)
        if rc != 0:
            res.violation("real segment scheduler did not finish the grid sweep (rc=%s): %s" % (rc, desc), out[-2000:])
            continue
        allrecs, index = [], []
        for recs in common.seg_records(trc, completed=False):
            a = recs[0]["a"]
            index.append((len(allrecs) + 1, len(allrecs) + len(recs), "%s: grid W=%d H=%d reqSC=%d reqSR=%d maxRows=%d" % (desc, a[0], a[1], a[2], a[3], a[6])))
            allrecs += recs
        os.unlink(trc)
        res.add("grids_replayed_into_real_code", len(index))
        validate(res, allrecs, index, "replay%d" % i)


def validate(res, recs, index, label):
    if not recs:
        raise vlib.ModelFailure("no segment events recorded")
    p = os.path.join(vlib.tmpdir(), "seg_%s.ndjson" % label)
    vlib.write_ndjson(p, recs)
    ok, consumed, r = vlib.tlc_trace("EncDecSegTrace", "EncDecSegTrace.cfg", p, timeout=3000, heap="16g")
    res.add("trace_events_validated", consumed)
    res.add("traces_validated_against_impl", len(index))
    res.cov.setdefault("event_counts", {})[label] = dict(collections.Counter(x["ev"] for x in recs))
    if not ok:
        bad = consumed + 1
        hit = [(a, b, d) for a, b, d in index if a <= bad <= b]
        inst = recs[hit[0][0] - 1:hit[0][1]] if hit else recs[max(0, bad - 50):bad]
        res.violation("segment trace rejected by EncDecSegTrace.tla at event %d: %s (%s)" %
                      (bad, json.dumps(recs[bad - 1]) if bad <= len(recs) else "end", hit[0][2] if hit else "?"),
                      "last accepted events and the rejected one:\n" + "\n".join(json.dumps(x) for x in recs[max(0, bad - 10):bad]) +
                      "\n\nfull instance trace (NDJSON):\n" + "\n".join(json.dumps(x) for x in inst))
    return ok


def selftest(res, recs):
    first = []
    for x in recs:
        first.append(x)
        if x["ev"] == "EndSeg":
            break
    muts = []
    # 1. two consecutive SbStart/SbEnd pairs of different superblocks swapped (breaks visiting order / neighbours)
    sb = [i for i, x in enumerate(first) if x["ev"] == "SbStart"]
    if len(sb) >= 2:
        y = list(first)
        i, j = sb[0], sb[1]
        y[i], y[j] = dict(first[j], t=first[i]["t"]), dict(first[i], t=first[j]["t"])
        muts.append(("SbStart order swapped", y))
    # 2. a dependency decrement lost
    for i, x in enumerate(first):
        if x["ev"] in ("SegRight", "SegBL"):
            y = list(first)
            y[i] = dict(x, a=[x["a"][0], x["a"][1] + 1] + x["a"][2:])
            muts.append(("dependency counter off by one", y))
            break
    # 3. last superblock never processed
    se = [i for i, x in enumerate(first) if x["ev"] in ("SbStart", "SbEnd")]
    if se:
        y = [x for k, x in enumerate(first) if k not in se[-2:]]
        muts.append(("last superblock skipped", y))
    n = 0
    for name, y in muts:
        p = os.path.join(vlib.tmpdir(), "seg_selftest.ndjson")
        vlib.write_ndjson(p, y)
        r = vlib.tlc("EncDecSegTrace", "EncDecSegTrace.cfg", workers=1, env={"TRACE": p}, timeout=600)
        if r["ok"]:
            raise vlib.ModelFailure("binding self-test failed: corrupted segment trace (%s) was accepted" % name)
        n += 1
    res.cov["corrupted_traces_rejected"] = n


def run(res):
    res.cov["rule"] = ("cases = exhaustive TLC configurations (each covers every W<=MaxW, H<=MaxH, requested segment grid and "
                       "interleaving of NW workers) + real encodes (distinct command lines); every picture/tile group of "
                       "every encode is one validated trace")
    res.assumptions += ["exhaustive interleavings only for grids up to 5x5 superblocks and up to 3 workers; larger grids are covered by one-worker model runs and by real traces",
                        "the feedback task pool is assumed not to run dry (the real pool is sized by the encoder)"]
    model_part(res)
    replay_part(res)
    recs, index = trace_part(res)
    ok = validate(res, recs, index, "encode")
    res.sample({"segment_trace_prefix": recs[:10]})
    if ok:
        selftest(res, recs)


def replay(res, path):
    txt = open(path).read()
    if "full instance trace (NDJSON):" not in txt:
        print(txt)
        return
    body = txt.split("full instance trace (NDJSON):\n", 1)[1]
    recs = [json.loads(l) for l in body.splitlines() if l.strip().startswith("{")]
    validate(res, recs, [(1, len(recs), "replay")], "replay")
