"""C08 -- the decoder's output matches reference AV1 decoders.  Observe.tla: for every stream the pictures
returned by the SVT decoder (internal pipeline 8 and 16 bit, film grain applied) and by libaom 3.6.0 are
observations of the same items, in the same order, with the same count, and none reports an error."""
import os
import random

import vlib
from checks import common, corpus, stream

LEVEL = "exploration"


def run(res):
    res.cov["rule"] = ("cases = bitstreams produced by the SVT encoder under diverse configurations (film grain, superres, 10-bit, tiles, "
                       "screen content, overlays, intra-only, rate control) x decoder pipeline bit depth; every output picture compared")
    res.assumptions += ["no independent ENCODER is available offline, so only tools the SVT encoder emits are exercised",
                        "libaom 3.6.0 runtime library is the reference decoder"]
    # the decoder's picture-buffer manager (DecDpb.tla): every sequence of refresh sets / show-existing frames a valid stream can
    # carry (3 slots, 5 buffers): exact reference counts, free iff unreferenced, no slot on a free buffer, a new frame never takes a
    # referenced buffer, the pool never runs dry; with as many buffers as slots it does (guard); all buffers get used (witness)
    r = vlib.tlc("DecDpb", "DecDpb.cfg", workers=4, timeout=900)
    res.tlc_stats(r)
    res.case("tlc:DecDpb.cfg")
    if not r["ok"]:
        res.violation("DecDpb model violates %s" % r["violated"], r["out"][-4000:])
    for cfg, inv in (("DecDpb_small.cfg", "NoBad"), ("DecDpb_wit.cfg", "NeverAllBusy")):
        g = vlib.tlc("DecDpb", cfg, workers=4, timeout=900)
        if g["ok"] or g["violated"] != inv:
            raise vlib.ModelFailure("DecDpb guard %s: expected a violation of %s" % (cfg, inv))
    rng = random.Random(res.seed * 61 + 12)
    cs = []

    def add(n, sets, content="motion", w=64, h=64, bits=8):
        s = {"enc_mode": 8, "logical_processors": 4}
        s.update(sets)
        cs.append({"args": ["-n", str(n), "-w", str(w), "-h", str(h), "--bits", str(bits), "--content", content], "sets": s, "n": n, "w": w, "h": h, "bits": bits})
    add(17, {})
    add(10, {"film_grain_denoise_strength": 10}, "noise", 128, 64)
    add(10, {"film_grain_denoise_strength": 50}, "noise", 96, 80, 10)
    add(10, {"superres_mode": 1, "superres_denom": 12, "superres_kf_denom": 14}, "grad", 192, 128)
    add(10, {"superres_mode": 2}, "motion", 192, 128)
    add(10, {}, "motion", 96, 80, 10)
    add(12, {"tile_columns": 1, "tile_rows": 1}, "motion", 256, 128)
    add(10, {"screen_content_mode": 1}, "screen", 128, 128)
    # palette-coded blocks whose colour levels sweep the sample range incl. power-of-two distances from the maximum (the points where the
    # literal width of the delta-coded palette colours changes), 8 and 10 bit
    add(9, {"screen_content_mode": 1}, "palsweep", 192, 128)
    add(9, {"screen_content_mode": 1, "qp": 20}, "palsweep", 128, 128, 10)
    add(17, {"enable_overlays": 1, "tf_level": 1, "hierarchical_levels": 3}, "motion", 128, 64)
    add(12, {"intra_period_length": 0}, "edges")
    add(9, {"enc_mode": 5}, "motion", 128, 128)
    add(12, {"rate_control_mode": 1, "target_bit_rate": 300000, "logical_processors": 1}, "motion", 176, 144)
    add(6, {"super_block_size": 128, "enc_mode": 3}, "motion", 128, 128)
    # streams past the order-hint wrap (7 bits: 128 pictures) with several distinct references per frame (presets <= 5):
    # every reader-side use of order hints (skip mode, motion field, reference signs) must be wrap aware
    add(140, {"enc_mode": 4, "qp": 40, "enable_tpl_la": 1}, "pan", 64, 64)
    add(140, {"enc_mode": 5, "qp": 40, "enable_tpl_la": 1}, "pan", 64, 64)
    add(5, {}, "motion", 128, 192)            # taller than wide (recorded finding: decoder crash)
    add(5, {}, "grad", 72, 88)
    if res.tier == "thorough":
        for i in range(50):
            add(rng.choice([5, 9, 17, 26]), {"enc_mode": rng.choice([8, 7, 6, 5, 4]), "qp": rng.choice([5, 25, 45, 63]),
                                             "film_grain_denoise_strength": rng.choice([0, 0, 12, 40]), "tile_columns": rng.choice([0, 1]), "tile_rows": rng.choice([0, 1]),
                                             "screen_content_mode": rng.choice([0, 0, 1]), "hierarchical_levels": rng.choice([2, 3, 4]),
                                             "superres_mode": rng.choice([0, 0, 2])},
                rng.choice(["motion", "noise", "grad", "extreme", "edges", "screen"]), rng.choice([64, 96, 130, 176, 258]), rng.choice([64, 72, 98, 144]), rng.choice([8, 8, 10]))
    rs = corpus.run_cases(cs, want_dec=["--aom", "--svt", "--16bit", "0", "--who", "svt_pipe8"], timeout=150)

    def second(r):
        if r["rc"] != 0 or not os.path.exists(r["out"] + ".pkts"):
            return None
        c = r["case"]
        d = common.run_dec(r["out"] + ".pkts", r["out"] + ".dec16", ["--svt", "--16bit", "1", "--who", "svt_pipe16", "-w", str(c["w"]), "-h", str(c["h"]),
                                                                      "--bits", str(c["bits"]), "--trace", "decdpb", "--trace-out", r["out"] + ".dpb"], timeout=150)
        d["dpb"] = None
        if os.path.exists(r["out"] + ".dpb"):
            d["dpb"] = [{"ev": "Reset", "a": []}] + [{"ev": ev, "a": a} for _, _, _, _, ev, a in vlib.read_trace(r["out"] + ".dpb", "decdpb")]
            os.unlink(r["out"] + ".dpb")
        return d
    d16 = common.parallel(second, rs)
    b = corpus.Bundle()
    for r, d2 in zip(rs, d16):
        res.case(r["desc"])
        if r["rc"] != 0 or r["dec"] is None:
            res.cov.setdefault("incomplete_encodes", []).append(r["desc"])
            continue
        oe = stream.observe_events(r["desc"], None, r["dec"])
        if d2:
            oe = oe[:-1] + stream.observe_events(r["desc"], None, d2)[1:]
        b.add("Observe", oe, r["desc"])
        if d2 and d2.get("dpb") and len(d2["dpb"]) > 1:
            b.add("DecDpbTrace", d2["dpb"], r["desc"])
        elif d2 and d2["rc"] == 0:
            raise vlib.ModelFailure("no picture-buffer events (stream decdpb) recorded: hooks missing? " + r["desc"])
        for d in (r["dec"], d2):
            for e in (d["events"] if d else []):
                if e["ev"] in ("DecError", "Timeout"):
                    res.violation("decoder %s fails on a valid stream: %s (%s)" % (e.get("who"), e.get("msg", e.get("phase")), r["desc"]), "",
                                  key={"kind": "decerror", "who": e.get("who"), "bits": r["case"]["bits"]})
            if d and d["rc"] not in (0, 3) and not any(e["ev"] == "DecTeardown" for e in d["events"]):
                c = r["case"]
                res.violation("decoder process died (rc=%s) on a valid stream: %s" % (d["rc"], r["desc"]), d["log"][-800:],
                              key={"kind": "crash", "portrait": int((c["h"] + 63) // 64 > (c["w"] + 63) // 64)})
        if os.path.exists(r["out"] + ".dec16"):
            os.unlink(r["out"] + ".dec16")
    res.sample({"observations": b.recs.get("Observe", [])[:6]})

    def kf(rej):
        hit = [r for r in rs if r["desc"] == rej["desc"]]
        s = hit[0]["case"]["sets"] if hit else {}
        return {"kind": "mismatch", "who": (rej["event"] or {}).get("who"), "film_grain": 1 if s.get("film_grain_denoise_strength") else 0,
                "bits": hit[0]["case"]["bits"] if hit else 8, "superres_mode": s.get("superres_mode", 0)}
    b.validate(res, "Observe", "C08 SVT decoder = reference decoder", key_fn=kf)
    # the decoder's picture-buffer manager, step by step with its complete state (DecDpbTrace.tla over DecDpb.tla)
    res.sample({"dpb_trace_prefix": b.recs.get("DecDpbTrace", [])[:6]})
    b.validate(res, "DecDpbTrace", "C08 decoder picture-buffer manager (reference counts, slot maps, free list) follows DecDpb.tla",
               key_fn=lambda rej: {"kind": "dpb", "event": (rej.get("event") or {}).get("ev")})
    corpus.cleanup(rs)
