"""C25 -- the entropy coder round-trips every symbol sequence.
Model: RangeCoder.tla, exact integer transcription of the symbol layer (partition of the range, renormalisation,
CDF adaptation, the reader's search): for sampled ranges, five CDF families per alphabet size (uniform, all mass on
the first / last symbol, zero-probability symbols) and every short symbol sequence TLC checks that every symbol gets
a non-empty nested interval, that the intervals tile the range, that the reader's search inverts the writer and that
the adapted table stays valid.  Code: sequences are written with the real writer and read back with the real
decoder-side reader; after every symbol the real writer range, reader range and both CDF arrays must equal the
model's values (RangeCoderTrace), and 8*bytes <= tell + 7."""
import itertools
import json
import os
import random
import subprocess

import vlib

LEVEL = "model_checking"


def run(res):
    res.cov["rule"] = ("cases = TLC configurations + symbol sequences replayed through the real writer/reader: exhaustive for lengths 0..L over "
                       "alphabets {2,3,4} x 6 CDF families x adaptation on/off, plus seeded long sequences (alphabets 2..16), booleans with extreme probabilities "
                       "and literals; distinct by sequence line")
    res.assumptions += ["the byte layer (carry propagation, decoder window) is exercised by replay only, not modelled",
                        "ranges in the exhaustive model are sampled (the partition depends on rng >> 8 and, in one branch, on rng itself)"]
    r = vlib.tlc("RangeCoder", "RangeCoder_quick.cfg" if res.tier == "quick" else "RangeCoder.cfg", timeout=3400, heap="16g")
    res.tlc_stats(r)
    res.case("tlc:RangeCoder")
    if not r["ok"]:
        res.violation("RangeCoder model violates %s" % r["violated"], r["out"][-5000:])
    exe = vlib.build_harness("rc_replay", ["rc_replay.c"], sync=False)
    rng = random.Random(res.seed * 71 + 16)
    lines = []
    L = 3 if res.tier == "quick" else 5
    for n in (2, 3, 4):
        for ck in range(6):
            for ad in (0, 1):
                for ln in range(0, (L if n < 4 else L - 1) + 1):
                    for seq in itertools.product(range(n), repeat=ln):
                        lines.append("S %d %d %d %d %s" % (n, ad, ck, ln, " ".join(map(str, seq))))
    nlong = 150 if res.tier == "quick" else 1500
    for _ in range(nlong):
        n = rng.randrange(2, 17)
        ln = rng.choice([1, 7, 33, 100, 300] if res.tier == "quick" else [1, 7, 33, 100, 300, 900])
        bias = rng.choice([None, 0, n - 1])
        seq = [(bias if (bias is not None and rng.random() < 0.9) else rng.randrange(n)) for _ in range(ln)]
        lines.append("S %d %d %d %d %s" % (n, rng.randrange(2), rng.randrange(6), ln, " ".join(map(str, seq))))
    for _ in range(60 if res.tier == "quick" else 600):
        ln = rng.choice([1, 5, 40, 200])
        lines.append("B %d %s" % (ln, " ".join("%d %d" % (rng.choice([1, 2, 127, 128, 129, 254, 255, rng.randrange(1, 256)]), rng.randrange(2)) for _ in range(ln))))
    for bits in range(1, 17):
        for v in {0, (1 << bits) - 1, rng.randrange(1 << bits)}:
            lines.append("L %d %d" % (bits, v))
    p = subprocess.run([exe], input=("\n".join(lines) + "\n").encode(), capture_output=True, timeout=600)
    out = p.stdout.decode()
    rows = out.splitlines()
    if p.returncode != 0 or len(rows) != len(lines):
        bad = lines[len(rows)] if len(rows) < len(lines) else "?"
        res.violation("real writer/reader crashed or aborted (rc=%s) on sequence: %s" % (p.returncode, bad[:300]), p.stderr.decode()[-1500:] + "\ninput line: " + bad)
        rows = rows[:len(rows)]
    for ln in lines:
        res.case(ln if len(ln) < 200 else ln[:200] + "#%d" % hash(ln))
    # one trace row per coded item, carrying the logged state before it (chained from the previous item's logged state)
    recs, owner = [], []
    for si, x in enumerate(rows):
        q = json.loads(x)
        rb, cb = 32768, q.get("cdf0")
        for st in q["steps"]:
            if q["kind"] == "S":
                recs.append({"kind": "S", "n": q["n"], "adapt": q["adapt"], "rb": rb, "cb": cb, "s": st["s"], "d": st["d"], "wr": st["wr"], "rr": st["rr"],
                             "wc": st["wc"], "rc": st["rc"]})
                cb = st["wc"]
            elif q["kind"] == "B":
                recs.append({"kind": "B", "rb": rb, "p": st["p"], "s": st["s"], "d": st["d"], "wr": st["wr"], "rr": st["rr"]})
            else:
                recs.append({"kind": "L", "rb": rb, "bits": st["bits"], "s": st["s"], "d": st["d"], "wr": st["wr"], "rr": st["rr"]})
            rb = st["wr"]
            owner.append(si)
        recs.append({"kind": "E", "bytes": q["bytes"], "tell": q["tell"], "nbits": q["nbits"]})
        owner.append(si)
    tp = os.path.join(vlib.tmpdir(), "rc.ndjson")
    vlib.write_ndjson(tp, recs)
    ok, consumed, rr = vlib.tlc_trace("RangeCoder", "RangeCoderTrace.cfg", tp, timeout=3000, heap="16g")
    res.add("coded_items_validated", consumed)
    res.add("sequences_replayed", len(rows))
    res.add("traces_validated_against_impl", len(rows))
    res.sample({"sequence": lines[40], "first_item": recs[0]})
    if not ok:
        si = owner[consumed] if consumed < len(owner) else -1
        res.violation("real writer/reader disagrees with RangeCoder.tla at coded item %d (sequence: %s): %s" % (consumed + 1, lines[si][:200], json.dumps(recs[consumed])[:500]),
                      "input line: %s\n\nrejected item:\n%s" % (lines[si], json.dumps(recs[consumed])))


def replay(res, path):
    print(open(path).read()[:4000])
