"""Shared driver for the Observe.tla family (C01, C04, C05, C06, C08, C13, C21, C26, C27): runs groups of
recorder invocations that the property declares equivalent (same key = same input + same semantic
configuration, different environment) and lets Observe.tla judge that all observations agree."""
import json
import os

import vlib
from checks import common, corpus, stream


def key_of(case, ignore=()):
    """Semantic key: content/size/frames + configuration without the environment fields in `ignore`."""
    sets = {k: v for k, v in case.get("sets", {}).items() if k not in ignore}
    args = case.get("key_args", case["args"])
    return json.dumps({"args": args, "sets": sets}, sort_keys=True)


def run_groups(res, groups, want_dec=None, timeout=120, variant="hooks", recon=True, packets=True,
               known_key_fn=None, what="observations", require_complete=True, extra_fn=None, dec_errors=True):
    """groups: list of (key, [cases]).  All cases of a group must observe the same packets / pictures.
    Returns list of (key, [runs])."""
    flat = []
    for gi, (key, cs) in enumerate(groups):
        for c in cs:
            # TPL look-ahead makes CQP output (rarely) schedule dependent -- a recorded C04 finding; cross-run
            # comparisons therefore run without it unless the case asks for it explicitly
            c.setdefault("sets", {}).setdefault("enable_tpl_la", 0)
            c["_g"] = gi
            c["_key"] = key
            flat.append(c)
    rs = corpus.run_cases(flat, want_dec=want_dec, timeout=timeout, variant=variant)
    b = corpus.Bundle()
    by_group = {}
    for r in rs:
        c = r["case"]
        res.case(r["desc"])
        by_group.setdefault(c["_g"], []).append(r)
        if r["rc"] != 0 and require_complete:
            kk = dict(known_key_fn(r, "incomplete"), enable_tpl_la=int(c["sets"].get("enable_tpl_la", 0))) if known_key_fn else None
            res.violation("run did not complete (rc=%s): %s" % (r["rc"], r["desc"]),
                          r["log"][-1500:] + "\n" + json.dumps([e for e in r["events"] if e["ev"] in ("Timeout", "Drained")]), key=kk)
            continue
        extra = extra_fn(r) if extra_fn else None
        oe = stream.observe_events(c["_key"], r, r.get("dec"), packets=packets,
                                   recon=recon and bool(int(c.get("sets", {}).get("recon_enabled", 0))), extra=extra, dec_errors=dec_errors)
        b.add("Observe", oe, r["desc"])
    res.sample({"observe_trace_prefix": b.recs.get("Observe", [])[:8]})

    def kf(rej):
        if not known_key_fn:
            return None
        hit = [r for r in rs if r["desc"] == rej["desc"]]
        if not hit:
            return None
        k = dict(known_key_fn(hit[0], "mismatch"), enable_tpl_la=int(hit[0]["case"]["sets"].get("enable_tpl_la", 0)))
        k["first_item"] = (rej.get("event") or {}).get("k")      # index of the first packet / picture that differs
        k["slow"] = hit[0]["case"].get("slow", "none")            # the pipeline kernel that was slowed down in the rejected run
        return k
    b.validate(res, "Observe", what, key_fn=kf)
    corpus.cleanup(rs)
    return by_group


CONTENTS = ["motion", "noise", "grad", "extreme", "edges", "screen", "flat"]
