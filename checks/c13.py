"""C13 -- the library's default configuration is complete and well-defined.
Observe.tla: (a) class "cfg": every declared field of EbSvtAv1EncConfiguration (list generated from the API
header) observed after svt_av1_enc_init_handle must have the same value whatever the caller's memory held
before (zero, 0xFF, 0xAA, random, left over from a non-default configuration); (b) with only width/height (and
preset / thread count for speed) set by the caller, set_parameter accepts the configuration and the encode
gives identical packets and recon for every prior memory content."""
import json

import vlib
from checks import common, corpus, obsfam, stream

LEVEL = "model_checking"
PREFILLS = ["00", "ff", "aa", "rand:1", "rand:77", "used"]


def run(res):
    res.cov["rule"] = ("cases = prior contents of the configuration memory x encodes; per case every declared field of the struct is one "
                       "observation; distinct by prefill pattern and command line")
    res.assumptions += ["struct padding is not compared (fields are enumerated from the header declaration)"]
    res.cov["exhaustive"] = True
    fills = PREFILLS if res.tier == "quick" else PREFILLS + ["rand:%d" % i for i in range(100, 112)]
    cs = []
    for pf in fills:
        for lp, n in ((2, 10),) if res.tier == "quick" else ((2, 10), (4, 17)):
            base = ["-n", str(n), "-w", "64", "-h", "64"]
            cs.append({"args": base + ["--prefill", pf], "key_args": base, "sets": {"enc_mode": 8, "logical_processors": lp, "recon_enabled": 1},
                       "n": n, "prefill": pf})
    rs = corpus.run_cases(cs, timeout=60)
    b = corpus.Bundle()
    nfields = 0
    for r in rs:
        res.case(r["desc"])
        pf = r["case"]["prefill"]
        d = [e for e in r["events"] if e["ev"] == "Defaults"]
        body = []
        if d:
            fields = sorted(k for k in d[0] if k != "ev")
            nfields = len(fields)
            for i, k in enumerate(fields):
                body.append({"ev": "Obs", "class": "cfg", "who": pf, "k": i, "dig": "%s=%s" % (k, json.dumps(d[0][k]))})
        b.add("Observe", [{"ev": "Run", "key": "defaults"}] + body + [{"ev": "RunEnd"}], "defaults after prefill " + pf)
        sp = [e for e in r["events"] if e["ev"] == "SetParameter"]
        if r["rc"] != 0:
            what = "set_parameter rejected the defaults (rc=%s)" % sp[0]["rc"] if sp and sp[0]["rc"] != 0 else "encode with the returned defaults did not complete (rc=%s)" % r["rc"]
            res.violation("%s after prefill %s: %s" % (what, pf, r["desc"]), r["log"][-1200:], key={"kind": "run", "prefill": pf.split(":")[0]})
            continue
        key = obsfam.key_of(r["case"])
        b.add("Observe", stream.observe_events(key, r, None, recon=True), r["desc"])
    res.cov["fields_per_configuration"] = nfields
    res.sample({"defaults_observations": b.recs["Observe"][1:5]})

    def kf(rej):
        ev = rej["event"] or {}
        if ev.get("class") == "cfg":
            return {"kind": "field", "field": ev["dig"].split("=")[0]}
        return {"kind": "output"}
    b.validate(res, "Observe", "C13 defaults independent of prior memory", key_fn=kf)
    corpus.cleanup(rs)
    # model level: the claim is one line of Api.tla (InitHandle overwrites cfg); TLC run kept for the state counts
    r = vlib.tlc("Api", "Api.cfg", timeout=900)
    res.tlc_stats(r)
    res.add("traces_validated_against_impl", len(rs))
