"""C14 -- API calls in any order return error codes instead of crashing or blocking.
specs/Api.tla is the documented call protocol; TLC enumerates its complete state graph; every distinct
(state, call, state') edge becomes a call program that is executed on the real library in its own process
(direction A): outcome class of every call must be one the model allows, no crash, no call may fail to
return (20 s alarm per call), and the session must still be torn down afterwards."""
import json

import vlib
from checks import apirun
import apigraph

LEVEL = "model_checking"


def run(res):
    res.cov["rule"] = ("cases = transition cover of the Api.tla state graph: one call program per distinct (abstract state, call, "
                       "abstract state') edge, prefix = shortest path from the initial state; non-trivial = program executed to its end or to a judged failure")
    res.assumptions += ["decoder: DecApi.tla with temporal units of a valid stream (malformed data is C10)",
                        "calls outside the protocol are followed only by teardown", "a call that has not returned after 20 s counts as blocking"]
    r, nodes, edges = apigraph.load_graph()
    res.tlc_stats(r)
    progs = apigraph.programs(nodes, edges)
    res.cov["exhaustive"] = res.tier == "thorough"
    res.cov["programs_in_cover"] = len(progs)
    sel = apirun.select(progs, res.tier, res.seed)
    results = apirun.run_programs(sel)
    res.add("traces_validated_against_impl", len(results))
    seen = set()
    for rr in results:
        calls = [c for c, a, act, b in rr["prog"]]
        res.case(json.dumps(calls))
        for key, txt in apirun.judge_calls(res, rr):
            sig = json.dumps(key, sort_keys=True)
            if sig in seen:
                continue
            seen.add(sig)
            res.violation("C14: " + txt, "program:\n" + "\n".join(calls) + "\n\nevents:\n" + "\n".join(json.dumps(e) for e in rr["events"]), key=key)
    long_sessions(res)
    decoder_part(res)
    res.cov["unconfirmed_observations"] = list(apirun.UNCONFIRMED)[:20]
    res.sample({"program": [c for c, a, act, b in sel[len(sel) // 2]]})
    res.sample({"program": [c for c, a, act, b in sel[-1]]})


def decoder_part(res):
    """DecApi.tla: the decoder's call protocol, same procedure (complete graph -> one program per abstract edge -> real library),
    with 1 and 3 decoder threads."""
    r, nodes, edges = apigraph.load_graph("DecApi", "DecApi.cfg")
    res.tlc_stats(r)
    progs = apigraph.programs(nodes, edges)
    res.cov["decoder_programs_in_cover"] = len(progs)
    seen = set()
    for threads in (1, 3):
        results = apirun.run_programs(progs, lp=threads, dec=True)
        res.add("traces_validated_against_impl", len(results))
        for rr in results:
            calls = [c for c, a, act, b in rr["prog"]]
            res.case("dec threads=%d %s" % (threads, json.dumps(calls)))
            for key, txt in apirun.judge_calls(res, rr):
                key = dict(key, api="decoder")
                sig = json.dumps(key, sort_keys=True)
                if sig in seen:
                    continue
                seen.add(sig)
                res.violation("C14 (decoder, %d threads): %s" % (threads, txt),
                              "program:\n" + "\n".join(calls) + "\n\nevents:\n" + "\n".join(json.dumps(e) for e in rr["events"]), key=key)


def long_sessions(res):
    """The abstract programs send at most two pictures.  'No call other than the documented blocking packet wait blocks
    indefinitely' also quantifies over long sessions: the in-flight picture pools are sized by set_parameter from the
    thread count, and send_picture blocks when they run dry.  Sessions longer than every pool, at 1, 2 and 4 logical
    processors, retrieving output after every send (so the application never withholds anything): every call must return
    and the session must be a behaviour of Session.tla."""
    from checks import corpus, stream
    cs = []
    for lp in (1, 2, 4):
        for hl, n in ((4, 45), (3, 40)) if res.tier == "quick" else ((4, 45), (3, 40), (2, 60), (4, 120)):
            cs.append({"args": ["-n", str(n), "-w", "64", "-h", "64", "--policy", "each"], "n": n, "w": 64, "h": 64,
                       "sets": {"enc_mode": 8, "logical_processors": lp, "hierarchical_levels": hl, "intra_period_length": -1}})
    rs = corpus.run_cases(cs, want_dec=None, timeout=90)
    b = corpus.Bundle()
    for r in rs:
        res.case(r["desc"])
        if r["rc"] != 0:
            tmo = [e for e in r["events"] if e["ev"] == "Timeout"]
            ph = tmo[-1].get("phase") if tmo else "?"
            res.violation("C14: a call of a long session does not return (phase %s, %s pictures sent): %s" % (ph, tmo[-1].get("sent") if tmo else "?", r["desc"]),
                          r["log"][-2000:], key={"kind": "blocked", "call": ph, "phase": "streaming-long",
                                                  "hierarchical_levels": r["case"]["sets"]["hierarchical_levels"]})
            continue
        b.add("Session", stream.session_events(r), r["desc"])
    b.validate(res, "Session", "C14 long sessions")
    corpus.cleanup(rs)


def replay(res, path):
    txt = open(path).read()
    print(txt[:3000])
