"""C14 -- API calls in any order return error codes instead of crashing or blocking.
specs/Api.tla is the documented call protocol; TLC enumerates its complete state graph; every distinct
(state, call, state') edge becomes a call program that is executed on the real library in its own process
(direction A): outcome class of every call must be one the model allows, no crash, no call may fail to
return (20 s alarm per call), and the session must still be torn down afterwards."""
import json

import vlib
from checks import apirun
import apigraph

LEVEL = "model_checking"


def run(res):
    res.cov["rule"] = ("cases = transition cover of the Api.tla state graph: one call program per distinct (abstract state, call, "
                       "abstract state') edge, prefix = shortest path from the initial state; non-trivial = program executed to its end or to a judged failure")
    res.assumptions += ["encoder API only (the decoder's entry points are exercised by C09/C15 session runs)",
                        "calls outside the protocol are followed only by teardown", "a call that has not returned after 20 s counts as blocking"]
    r, nodes, edges = apigraph.load_graph()
    res.tlc_stats(r)
    progs = apigraph.programs(nodes, edges)
    res.cov["exhaustive"] = res.tier == "thorough"
    res.cov["programs_in_cover"] = len(progs)
    sel = apirun.select(progs, res.tier, res.seed)
    results = apirun.run_programs(sel)
    res.add("traces_validated_against_impl", len(results))
    seen = set()
    for rr in results:
        calls = [c for c, a, act, b in rr["prog"]]
        res.case(json.dumps(calls))
        for key, txt in apirun.judge_calls(res, rr):
            sig = json.dumps(key, sort_keys=True)
            if sig in seen:
                continue
            seen.add(sig)
            res.violation("C14: " + txt, "program:\n" + "\n".join(calls) + "\n\nevents:\n" + "\n".join(json.dumps(e) for e in rr["events"]), key=key)
    res.sample({"program": [c for c, a, act, b in sel[len(sel) // 2]]})
    res.sample({"program": [c for c, a, act, b in sel[-1]]})


def replay(res, path):
    txt = open(path).read()
    print(txt[:3000])
