"""C26 -- reported per-frame distortion statistics are exact.  Observe.tla, class "stat": for every packet the
luma / Cb / Cr SSE attached to the packet (stat_report = 1) and the SSE recomputed by an independent decode --
sum of squared differences between the submitted picture (regenerated from the same content generator) and the
picture libaom decodes from that packet, as 32-bit values -- are two observations of the same item."""
import random

import vlib
from checks import common, corpus, stream

LEVEL = "exploration"


def run(res):
    res.cov["rule"] = ("cases = 8-bit and 10-bit contents x sizes (incl. non multiples of 8) x presets x temporal filtering on/off x GOP; "
                       "every packet contributes three compared values; non-trivial = run with at least one hidden/show-existing picture")
    res.assumptions += ["the source is regenerated in the decoder-side harness from the shared deterministic content generator",
                        "picture k of the independent decoder's output is the picture displayed by packet k (checked by C02/C03)"]
    rng = random.Random(res.seed * 59 + 10)
    cs = []

    def add(n, sets, content, w, h, cseed=1, bits=8):
        s = {"enc_mode": 8, "logical_processors": 2, "stat_report": 1}
        s.update(sets)
        if bits == 10:
            s["encoder_bit_depth"] = 10
        cs.append({"args": ["-n", str(n), "-w", str(w), "-h", str(h), "--bits", str(bits), "--content", content, "--cseed", str(cseed)], "sets": s,
                   "n": n, "w": w, "h": h, "bits": bits, "dec_args": ["--src", "%s,%d,%d" % (content, cseed, bits)]})
    add(17, {}, "motion", 64, 64)
    add(12, {"tf_level": 0}, "noise", 66, 70)
    add(12, {"tf_level": 1}, "noise", 66, 70)
    add(10, {"qp": 20}, "grad", 178, 146)
    add(10, {"qp": 63}, "extreme", 72, 88)
    add(9, {"enc_mode": 6}, "motion", 128, 128)
    add(17, {"hierarchical_levels": 3, "intra_period_length": 7, "logical_processors": 4}, "edges", 96, 64)
    add(10, {"rate_control_mode": 1, "target_bit_rate": 100000, "logical_processors": 1}, "motion", 176, 144)
    # presets that temporally filter more than the base layer (<= 6), complete mini-GOPs, slowly moving content the filter really changes:
    # the statistics must still refer to the SUBMITTED picture, not to the filtered one
    add(20, {"enc_mode": 6, "hierarchical_levels": 3}, "pan", 176, 144)
    add(20, {"enc_mode": 6, "hierarchical_levels": 3, "qp": 30}, "grad", 128, 96)
    add(34, {"enc_mode": 5, "hierarchical_levels": 4}, "pan", 128, 128)
    # 10-bit input (a separate statistics path in the encoder)
    add(12, {}, "motion", 96, 80, bits=10)
    add(9, {"qp": 30, "hierarchical_levels": 3}, "noise", 70, 66, bits=10)
    if res.tier == "thorough":
        for i in range(40):
            add(rng.choice([5, 9, 17, 26]), {"enc_mode": rng.choice([8, 7, 6, 5, 4]), "qp": rng.choice([5, 25, 45, 63]), "tf_level": rng.choice([0, 1, 2]),
                                             "hierarchical_levels": rng.choice([2, 3, 4]), "enable_overlays": rng.choice([0, 0, 1])},
                rng.choice(["motion", "noise", "grad", "extreme", "edges", "screen", "flat"]), rng.choice([64, 70, 130, 176, 258]), rng.choice([64, 66, 98, 144]), rng.randrange(1, 99))
    rs = corpus.run_cases(cs, want_dec=["--aom"], timeout=120)
    b = corpus.Bundle()
    for r in rs:
        res.case(r["desc"])
        if r["rc"] != 0 or r["dec"] is None:
            res.cov.setdefault("incomplete_encodes", []).append(r["desc"])
            continue
        pk = stream.ev_of(r, "Packet")
        dec = [e for e in r["dec"]["events"] if e["ev"] == "Dec" and e["who"] == "aom"]
        body = [{"ev": "Run", "key": r["desc"]}]
        # reference pictures first, then non-reference pictures (pic_type 4), so that a recorded finding about the
        # latter cannot hide a disagreement on the former
        nonref = {e["i"] for e in pk if e["pic_type"] == 4}
        for grp in (False, True):
            for e in pk:
                if (e["i"] in nonref) == grp:
                    body.append({"ev": "Obs", "class": "stat", "who": "reported", "k": e["i"], "dig": "%d/%d/%d" % tuple(e["sse"]), "nonref": int(grp)})
            for e in dec:
                if (e["i"] in nonref) == grp:
                    body.append({"ev": "Obs", "class": "stat", "who": "recomputed", "k": e["i"], "dig": "%d/%d/%d" % tuple(e["sse"]), "nonref": int(grp)})
        body.append({"ev": "RunEnd"})
        b.add("Observe", body, r["desc"])
    res.sample({"stat_observations": b.recs.get("Observe", [])[1:4]})

    def kf(rej):
        hit = [r for r in rs if r["desc"] == rej["desc"]]
        s = hit[0]["case"]["sets"] if hit else {}
        return {"kind": "sse_mismatch", "nonref": (rej["event"] or {}).get("nonref", 0), "enable_overlays": int(s.get("enable_overlays", 0))}
    b.validate(res, "Observe", "C26 reported SSE = SSE of the decoded picture", key_fn=kf)
    corpus.cleanup(rs)
