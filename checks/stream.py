"""Event builders: turn one recorded encode (+ optional decodes) into the event streams consumed by
Session.tla, Bitstream.tla and Observe.tla."""
import hashlib
import json
import os
import sys

import vlib
sys.path.insert(0, os.path.join(vlib.ROOT, "tools"))
import av1obu  # noqa: E402

EOS, SHOWEX, TD = 1, 2, 4


def ev_of(run, name):
    return [e for e in run["events"] if e["ev"] == name]


def cfg_of(run):
    c = ev_of(run, "Cfg")
    return c[0] if c else {}


def session_events(run):
    """Events for Session.tla from the recorder's application-level log."""
    out = [{"ev": "Start", "recon": int(cfg_of(run).get("recon_enabled", 0))}]
    for e in run["events"]:
        if e["ev"] == "Send":
            out.append({"ev": "Send", "k": e["k"], "pts": str(e["pts"]), "priv": str(e["priv"]), "rc": e["rc"]})
        elif e["ev"] == "SendEos":
            out.append({"ev": "SendEos", "rc": e["rc"]})
        elif e["ev"] == "Packet":
            out.append({"ev": "Packet", "i": e["i"], "rc": e["rc"], "pts": str(e["pts"]), "dts": str(e["dts"]),
                        "priv": str(e["priv"]), "eosflag": 1 if e["flags"] & EOS else 0, "len": e["len"]})
        elif e["ev"] == "Recon":
            out.append({"ev": "Recon", "i": e["i"], "rc": e["rc"], "pos": e["pts"],
                        "eosflag": 1 if e["flags"] & EOS else 0})
        elif e["ev"] == "Drained" and e.get("ok"):
            out.append({"ev": "Drained"})
        elif e["ev"] in ("PacketAfterEos", "ReconAfterEos", "ReconError", "Timeout"):
            out.append({"ev": e["ev"]})       # not an action of the specification
    return out


TOOL_KEYS = ["lf", "cdef", "lr", "ibc", "warp", "mms", "gm", "superres", "sct", "refsel", "skipmode", "switchable_interp", "palette_possible"]
SEQ_TOOL_KEYS = ["filter_intra", "intra_edge", "interintra", "masked_compound", "warped", "dual_filter", "jnt_comp",
                 "ref_frame_mvs", "superres", "cdef", "restoration", "film_grain"]


def frame_tools(h):
    return {
        "lf": 1 if (h["loop_filter_level"][0] or h["loop_filter_level"][1]) else 0,
        "cdef": 1 if (h.get("cdef_coded") and (h["cdef_bits"] or any(h["cdef_y_strengths"]) or any(h["cdef_uv_strengths"]))) else 0,
        "lr": 1 if any(h["lr_type"]) else 0,
        "ibc": h["allow_intrabc"], "warp": h["allow_warped_motion"], "mms": h.get("is_motion_mode_switchable", 0),
        "gm": h.get("gm_used", 0), "superres": h.get("use_superres", 0), "sct": h["allow_screen_content_tools"],
        "refsel": h["reference_select"], "skipmode": h.get("skip_mode_present", 0),
        "switchable_interp": 1 if h.get("is_filter_switchable") else 0,
        "palette_possible": h["allow_screen_content_tools"],
    }


def seq_tools(s):
    return {"filter_intra": s["enable_filter_intra"], "intra_edge": s["enable_intra_edge_filter"],
            "interintra": s["enable_interintra_compound"], "masked_compound": s["enable_masked_compound"],
            "warped": s["enable_warped_motion"], "dual_filter": s["enable_dual_filter"], "jnt_comp": s["enable_jnt_comp"],
            "ref_frame_mvs": s["enable_ref_frame_mvs"], "superres": s["enable_superres"], "cdef": s["enable_cdef"],
            "restoration": s["enable_restoration"], "film_grain": s["film_grain_params_present"]}


def default_expect(run):
    c = cfg_of(run)
    hdr = ev_of(run, "StreamHeader")
    hd = ""
    if hdr and hdr[0].get("hex"):
        hd = hashlib.sha256(bytes.fromhex(hdr[0]["hex"])).hexdigest()[:16]
    return {"ohbits": 7, "period": int(c.get("intra_period_length", -1)), "idr": 1 if c.get("intra_refresh_type") == 2 else 0,
            "hdrdig": hd, "qfixed": 0, "qkey": 0, "qinter": 0, "qmin": 0, "qmax": 255,
            "off": {k: 0 for k in TOOL_KEYS}, "seqoff": {k: 0 for k in SEQ_TOOL_KEYS},
            "tiles": 0, "tilecols": 0, "tilerows": 0}


def bitstream_events(run, expect=None, n_expected=None):
    """Events for Bitstream.tla. Returns (events, parse_errors, packets)."""
    pk = av1obu.read_pkts(run["out"] + ".pkts")
    st = av1obu.new_state()
    exp = default_expect(run)
    if expect:
        for k, v in expect.items():
            if isinstance(v, dict):
                exp[k].update(v)
            else:
                exp[k] = v
    body = []
    errors = []
    first_seq = None
    for i, p in enumerate(pk):
        r = av1obu.parse_packet(p["data"], st)
        body.append({"ev": "Pkt", "i": i, "len": len(p["data"]), "td": 1 if p["flags"] & TD else 0,
                     "showex": 1 if p["flags"] & SHOWEX else 0, "eosflag": 1 if p["flags"] & EOS else 0,
                     "pictype": p["pic_type"]})
        for o in r["obus"]:
            if "error" in o:
                errors.append("packet %d: %s" % (i, o["error"]))
                body.append({"ev": "ParseError", "msg": o["error"]})      # not an action of the specification
                break
            body.append({"ev": "Obu", "type": o["type"], "total": o["hdr_len"] + o["size"], "forbidden": o["forbidden"],
                         "hassize": o["has_size"], "last": 1})
            if "seq" in o:
                if first_seq is None:
                    first_seq = o["seq"]
                body.append({"ev": "Seq", "dig": hashlib.sha256(o["raw"]).hexdigest()[:16], "ohbits": o["seq"]["OrderHintBits"],
                             "tools": seq_tools(o["seq"]), "sb128": o["seq"]["use_128x128_superblock"], "bitdepth": o["seq"]["BitDepth"]})
            if "fh" in o:
                h = o["fh"]
                if h.get("show_existing_frame"):
                    body.append({"ev": "Frame", "showex": 1, "slot": h["frame_to_show_map_idx"], "obutype": o["type"]})
                else:
                    body.append({"ev": "Frame", "showex": 0, "slot": -1, "obutype": o["type"], "lasttg": 1,
                                 "ftype": h["frame_type"], "show": h["show_frame"], "showable": h["showable_frame"],
                                 "oh": h["order_hint"], "rff": h["refresh_frame_flags"],
                                 "refs": h["ref_frame_idx"] if h["ref_frame_idx"] else [0] * 7,
                                 "q": h["base_q_idx"], "tools": frame_tools(h), "tilecols": h["TileCols"], "tilerows": h["TileRows"],
                                 "sbcols": h["sb_cols"], "sbrows": h["sb_rows"], "errres": h["error_resilient_mode"],
                                 "parsed": h["parsed_to"]})
        body.append({"ev": "End", "i": i})
    if first_seq is not None:
        exp["ohbits"] = first_seq["OrderHintBits"]
    evs = [{"ev": "Stream", "cfg": exp}] + body
    if n_expected is not None:
        evs.append({"ev": "Close", "n": n_expected})
    return evs, errors, pk


def observe_events(key, run=None, dec=None, packets=True, recon=True, extra=None, dec_errors=True):
    """Events for Observe.tla: one Run ... RunEnd block."""
    out = [{"ev": "Run", "key": key}]
    if run is not None:
        if packets:
            for e in ev_of(run, "Packet"):
                out.append({"ev": "Obs", "class": "bytes", "who": "enc", "k": e["i"], "dig": "%s:%d:%d" % (e["dig"], e["flags"], e["pic_type"])})
        if recon:
            for e in sorted(ev_of(run, "Recon"), key=lambda e: e["pts"]):
                out.append({"ev": "Obs", "class": "pic", "who": "recon", "k": e["pts"], "dig": e["dig"]})
    if dec is not None:
        for e in dec["events"]:
            if e["ev"] == "Dec":
                out.append({"ev": "Obs", "class": "pic", "who": e["who"], "k": e["i"] + e.get("offset", 0), "dig": e["dig"]})
            elif e["ev"] in ("DecError", "Timeout") and dec_errors:
                out.append({"ev": "DecError", "who": e.get("who", "?"), "msg": e.get("msg", "")})   # not an action
    for x in (extra or []):
        out.append(x)
    out.append({"ev": "RunEnd"})
    return out


def packetize_events(run, packets=None):
    """Events for PacketizeTrace.tla: observed (display position, frames in the unit, show-existing, eos)."""
    c = cfg_of(run)
    pk = packets if packets is not None else av1obu.read_pkts(run["out"] + ".pkts")
    st = av1obu.new_state()
    out = [{"ev": "Run", "n": len(ev_of(run, "Send")), "levels": int(c.get("hierarchical_levels", 4))}]
    for i, p in enumerate(pk):
        r = av1obu.parse_packet(p["data"], st)
        fr = [o["fh"] for o in r["obus"] if "fh" in o]
        sx = 1 if (fr and fr[-1].get("show_existing_frame")) else 0
        out.append({"ev": "TU", "pos": i, "frames": 0 if sx else len(fr), "showex": sx, "eos": 1 if p["flags"] & EOS else 0})
    out.append({"ev": "End"})
    return out
