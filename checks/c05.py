"""C05 -- output independent of the number of threads / pinning / socket.  Model half: EncDecSeg.tla
(DepsRespected for every grid: each superblock's inputs are complete whatever the segment grid).  Code half:
the same input/configuration at different logical_processors / unpin / target_socket; Observe.tla requires
identical packets and recon (the thread settings are environment, not key)."""
import vlib
from checks import obsfam, c24

LEVEL = "model_checking"

CONFIGS = [
    ({}, "motion", 192, 144, 8, 12),
    ({"tile_rows": 1}, "noise", 256, 128, 8, 8),
    ({"rate_control_mode": 1, "target_bit_rate": 200000}, "motion", 176, 144, 8, 16),
    # large enough for every resolution-dependent stage (ME, TPL, CDEF, restoration segments) to be split into several segments
    ({}, "fastpan", 640, 384, 8, 10),
    ({"enable_tpl_la": 1, "hierarchical_levels": 3}, "fastpan", 128, 384, 8, 12),
]
CONFIGS_THOROUGH = [
    ({"enc_mode": 6}, "motion", 128, 128, 8, 8),
    ({}, "grad", 200, 136, 10, 8),
    ({"hierarchical_levels": 3, "intra_period_length": 7}, "edges", 64, 192, 8, 20),
    ({"enable_overlays": 1, "tf_level": 1, "hierarchical_levels": 3}, "motion", 128, 64, 8, 17),
    ({"film_grain_denoise_strength": 10, "tile_columns": 1}, "noise", 256, 64, 8, 8),
    ({"screen_content_mode": 1}, "screen", 320, 192, 8, 8),
    ({"rate_control_mode": 2, "target_bit_rate": 100000}, "motion", 176, 144, 8, 16),
]
ENV = [{"logical_processors": 1}, {"logical_processors": 2}, {"logical_processors": 3}, {"logical_processors": 4},
       {"logical_processors": 8, "unpin": 1}, {"logical_processors": 16}, {"logical_processors": 6, "target_socket": 0},
       {"logical_processors": 0, "unpin": 0}]


def known(r, kind):
    s = r["case"]["sets"]
    return {"kind": "thread_dependent" if kind == "mismatch" else kind, "rate_control_mode": s.get("rate_control_mode", 0),
            "hierarchical_levels": s.get("hierarchical_levels", 4), "logical_processors": s.get("logical_processors")}


def run(res):
    res.cov["rule"] = ("cases = configurations x thread settings (logical_processors, unpin, target_socket); all thread "
                       "settings of one configuration must agree; pic_based_rate_est (documented as lp-1 only) left at default")
    res.assumptions += ["pic_based_rate_est is documented as 'only active with lp 1' and is excluded from the quantifier"]
    for c in [("4x4w2", 4, 4, 2, False, 8), ("3x3w3", 3, 3, 3, False, 8)]:
        r = vlib.tlc("EncDecSegMC", c24.mc_cfg(*c), timeout=3000, heap="16g")
        res.tlc_stats(r)
        res.case("tlc:" + c[0])
        if not r["ok"]:
            res.violation("EncDecSeg model %s violates %s" % (c[0], r["violated"]), r["out"][-6000:])
    groups = []
    quick = res.tier == "quick"
    for sets, content, w, h, bits, n in CONFIGS + ([] if quick else CONFIGS_THOROUGH):
        base = ["-n", str(n), "-w", str(w), "-h", str(h), "--bits", str(bits), "--content", content]
        cs = []
        for env in (ENV[:6] if quick else ENV):
            s = {"enc_mode": 8, "recon_enabled": 1}
            s.update(sets)
            s.update(env)
            cs.append({"args": list(base), "sets": s, "n": n, "w": w, "h": h, "bits": bits})
        key = obsfam.key_of(cs[0], ignore=("logical_processors", "unpin", "target_socket"))
        groups.append((key, cs))
    obsfam.run_groups(res, groups, timeout=120, known_key_fn=known, what="C05 independence of thread settings")
    res.add("traces_validated_against_impl", 0)
