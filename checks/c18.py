"""C18 -- frame quantizers within the configured QP bounds.  Bitstream.tla (QOK) on the base_q_idx of every
coded frame header, read by the independent parser; expectations computed from the configuration only:
rate_control_mode 0 -> bounds (1,63) (documented: min/max apply to rate control modes) or, with fixed-QP
coding and no scaling, exactly Q(qp) (+ fixed offsets, clipped); modes 1/2 -> [Q(min), Q(max)]."""
import random

import vlib
from checks import corpus, stream

LEVEL = "exploration"


def Q(qp):
    return 4 * qp if qp <= 61 else (249 if qp == 62 else 255)


def clip(lo, hi, v):
    return max(lo, min(hi, v))


def cases(res):
    rng = random.Random(res.seed * 29 + 1)
    out = []

    def add(n, sets, expect, content="motion", w=128, h=64):
        s = {"enc_mode": 8, "logical_processors": 2, "intra_period_length": -1}
        s.update(sets)
        out.append({"args": ["-n", str(n), "-w", str(w), "-h", str(h), "--content", content], "sets": s, "n": n, "w": w, "h": h, "expect": expect})
    # fixed QP, no scaling: every frame uses Q(qp)
    for qp in ([0, 1, 20, 50, 62, 63] if res.tier == "quick" else range(0, 64, 3)):
        # NOTE: the API field enable_qp_scaling_flag is ignored by the library (copy_api_from_app hard-codes 1,
        # EbEncHandle.c:2190); the only "no scaling" mode is use_fixed_qindex_offsets = 1 (zero offsets)
        add(12, {"qp": qp, "enable_qp_scaling_flag": 0, "enable_tpl_la": 0}, {"qmin": Q(1), "qmax": Q(63)})
        s0 = {"qp": qp, "use_fixed_qindex_offsets": 1, "key_frame_qindex_offset": 0}
        add(12, s0, {"qfixed": 1, "qkey": clip(Q(1), Q(63), Q(qp)), "qinter": clip(Q(1), Q(63), Q(qp))})
    # fixed qindex offsets (uniform over layers so that the expectation needs no temporal-layer knowledge)
    for qp, off, koff in ((30, 12, -20), (60, 40, 30), (3, -30, -40), (40, 0, 0), (55, -200, 200)) if res.tier == "quick" else \
            [(rng.randrange(2, 63), rng.randrange(-120, 120), rng.randrange(-120, 120)) for _ in range(24)]:
        s = {"qp": qp, "use_fixed_qindex_offsets": 1, "key_frame_qindex_offset": koff}
        for i in range(6):
            s["qindex_offsets[%d]" % i] = off
        # 18 pictures = key frame + one complete 16-picture mini-GOP: every temporal layer 0..4 occurs (12 pictures stop at layer 3)
        add(18, s, {"qfixed": 1, "qkey": clip(Q(1), Q(63), Q(qp) + koff), "qinter": clip(Q(1), Q(63), Q(qp) + off)})
        for hl in (3, 2):
            s2 = dict(s, hierarchical_levels=hl)
            add(18, s2, {"qfixed": 1, "qkey": clip(Q(1), Q(63), Q(qp) + koff), "qinter": clip(Q(1), Q(63), Q(qp) + off)})
    # CQP with QP scaling / TPL: inside (1,63)
    for qp in (2, 35, 63):
        for tpl in (0, 1):
            add(17, {"qp": qp, "enable_qp_scaling_flag": 1, "enable_tpl_la": tpl}, {"qmin": Q(1), "qmax": Q(63)}, rng.choice(["motion", "noise", "flat"]))
    # rate control: min/max pairs including min == max, both rails
    pairs = [(10, 40), (30, 30), (1, 63), (50, 55), (5, 5), (62, 63)] if res.tier == "quick" else \
        [(a, b) for a in (1, 5, 20, 33, 50, 62) for b in (5, 20, 33, 50, 63) if a <= b]
    for (mn, mx) in pairs:
        for rc in (1, 2):
            for content, tbr in (("flat", 5000000), ("noise", 10000)):
                add(20, {"rate_control_mode": rc, "min_qp_allowed": mn, "max_qp_allowed": mx, "target_bit_rate": tbr, "logical_processors": 1},
                    {"qmin": Q(mn), "qmax": Q(mx)}, content, 176, 144)
    # two-pass VBR (first-pass statistics consumed by the second pass) between the same bounds
    for (mn, mx) in ((10, 40), (30, 30), (50, 55)):
        for content, tbr in (("noise", 20000), ("motion", 500000)):
            add(40, {"rate_control_mode": 1, "min_qp_allowed": mn, "max_qp_allowed": mx, "target_bit_rate": tbr, "logical_processors": 2},
                {"qmin": Q(mn), "qmax": Q(mx)}, content, 176, 144)
            out[-1]["twopass"] = True
    # several GOPs at the rails: the per-GOP key-frame refinement of 1-pass VBR runs after the per-mode clamp
    for (mn, mx, ip) in ((10, 30, 31), (20, 20, 15), (40, 63, 15), (1, 12, 31)):
        for rc in (1, 2):
            for content, tbr in (("noise", 20000), ("motion", 20000)) if mx < 63 else (("noise", 5000),):
                add(100 if res.tier == "quick" else 200, {"rate_control_mode": rc, "min_qp_allowed": mn, "max_qp_allowed": mx, "target_bit_rate": tbr,
                                                           "intra_period_length": ip, "logical_processors": 1},
                    {"qmin": Q(mn), "qmax": Q(mx)}, content, 176, 144)
    return out


def run(res):
    res.cov["rule"] = ("cases = rate_control_mode x enable_qp_scaling x qp / (min,max) pairs (incl. min==max) x fixed offsets x content "
                       "driving the controller to both rails; every coded frame header is judged")
    res.assumptions += ["Q(qp) = the 64-entry quantizer-to-qindex table (0,4,...,244,249,255)",
                        "2-pass rate control (needs first-pass statistics) is not exercised",
                        "fixed offsets are chosen uniform over temporal layers because the layer is not visible in the bitstream"]
    cs = cases(res)
    rs = corpus.run_cases(cs, timeout=90)
    b = corpus.Bundle()
    nfr = 0
    for r in rs:
        res.case(r["desc"])
        if r["rc"] != 0:
            res.cov.setdefault("incomplete_encodes", []).append(r["desc"])
            continue
        be, errs, pk = stream.bitstream_events(r, n_expected=r["case"]["n"], expect=dict(r["case"]["expect"], hdrdig=""))
        nfr += len([x for x in be if x["ev"] == "Frame" and not x["showex"]])
        b.add("Bitstream", be, r["desc"] + " expect=" + str(r["case"]["expect"]))
    res.add("frame_headers_judged", nfr)
    res.sample({"frames": [x for x in b.recs.get("Bitstream", []) if x["ev"] == "Frame"][:3]})
    b.validate(res, "Bitstream", "C18 quantizer bounds")
    corpus.cleanup(rs)
