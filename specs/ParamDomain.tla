---------------------------- MODULE ParamDomain ----------------------------
(***************************************************************************)
(* The DOCUMENTED domain of EbSvtAv1EncConfiguration (property C12).       *)
(*                                                                         *)
(* Sources (never the conditions of verify_settings):                      *)
(*   [H]  comments of Source/API/EbSvtAv1Enc.h                             *)
(*   [G]  Docs/svt-av1_encoder_user_guide.md, tables at lines 130-283      *)
(*   [D]  the library's own diagnostic texts ("... must be [a - b]")       *)
(*                                                                         *)
(* Per field:  lo..hi  documented range,  amb  values on which the sources *)
(* disagree (never judged).  Coupled constraints are separate predicates.  *)
(*                                                                         *)
(* The specification has two uses:                                         *)
(*   Gen   -- TLC enumerates Cases (single-field boundary sweeps and the   *)
(*            complete products of the coupled groups) and writes them as  *)
(*            NDJSON; harness/param_replay.c executes each on a fresh      *)
(*            handle: init_handle, apply, svt_av1_enc_set_parameter;       *)
(*   Judge -- every recorded row (effective configuration as stored in the *)
(*            structure, return code) must satisfy Verdict.                *)
(*                                                                         *)
(* Integers: TLC integers are 32 bit.  The recorder logs every field as    *)
(* the int32 reinterpretation of its stored value, so an unsigned field    *)
(* >= 2^31 appears NEGATIVE ("huge"); ~0 appears as -1.                    *)
(***************************************************************************)
EXTENDS Integers, Sequences, FiniteSets, TLC, Json, IOUtils, SequencesExt

IMax == 2147483647
IMin == -2147483647 - 1

R(lo, hi, amb, uns) == [lo |-> lo, hi |-> hi, amb |-> amb, uns |-> uns]
Tri  == R(-1, 1, {}, FALSE)       \* "-1 = DEFAULT, 0 = OFF, 1 = ON"   [G][D]
Flag == R(0, 1, {}, TRUE)         \* "[0-1]"                            [G][D]

(* field |-> documented range *)
Doc == [
  enc_mode                     |-> R(0, 8, {}, FALSE),          \* [G] [0-8]; [D] [0-MAX_ENC_PRESET]   (int8_t)
  intra_refresh_type           |-> R(1, 2, {}, FALSE),          \* [H][G][D] 1 = CRA, 2 = IDR
  hierarchical_levels          |-> R(0, 5, {}, TRUE),           \* [G][D] [0-5]
  pred_structure               |-> R(2, 2, {0, 1}, TRUE),       \* [G] [0-2] but [D] "must be [2]"
  source_width                 |-> R(64, 4095, {4096}, TRUE),   \* [G] [64-4096]; [D] "less than 4096" (4096 disputed)
  source_height                |-> R(64, 2159, 0 .. 63 \cup 2160 .. 2304, TRUE), \* [G] [0-2304]; [D] at least 64, "less than 2160"
  encoder_bit_depth            |-> R(8, 10, {}, TRUE),          \* [H][G][D] 8 or 10 (9 excluded below)
  is_16bit_pipeline            |-> Flag,                        \* [G] [0,1]
  encoder_color_format         |-> R(1, 1, {0, 2, 3}, TRUE),    \* [G] [0-3] but [D] "Only support 420 now"
  compressed_ten_bit_format    |-> R(0, 0, {1}, TRUE),          \* [G] [0-1] but [D] not supported in this version
  profile                      |-> R(0, 2, {}, TRUE),           \* [G] [0-2]; what each profile can signal: ProfileOut below
  tier                         |-> Flag,                        \* [H] 0 = Main, 1 = High
  stat_report                  |-> Flag,                        \* [G][D]
  qp                           |-> R(0, 63, {}, TRUE),          \* [G][D] [0-63]
  use_qp_file                  |-> Flag,                        \* [G] [0-1]
  use_fixed_qindex_offsets     |-> Flag,                        \* [G] [0-1]
  key_frame_qindex_offset      |-> R(-256, 255, {}, FALSE),     \* [G] [-256,255]
  key_frame_chroma_qindex_offset |-> R(-256, 255, {}, FALSE),   \* [G] [-256,255]
  disable_dlf_flag             |-> Flag,                        \* [G][D]
  film_grain_denoise_strength  |-> R(0, 50, {}, TRUE),          \* [G] [0-50]
  enable_warped_motion         |-> Tri,
  enable_global_motion         |-> Flag,                        \* [G][D] [0-1]
  cdef_level                   |-> R(-1, 4, {5}, FALSE),        \* [D] [0-4,-1]; [G] [0-5]
  enable_restoration_filtering |-> Tri,
  sg_filter_mode               |-> R(-1, 4, {}, FALSE),         \* [G][D]
  wn_filter_mode               |-> R(-1, 3, {}, FALSE),         \* [G][D]
  intra_angle_delta            |-> Tri,
  inter_intra_compound         |-> Tri,
  enable_paeth                 |-> Tri,
  mrp_level                    |-> R(-1, 9, {}, FALSE),         \* [G] [0-9], -1 default
  enable_smooth                |-> Tri,
  enable_mfmv                  |-> Tri,
  enable_redundant_blk         |-> Tri,
  spatial_sse_full_loop_level  |-> Tri,
  over_bndry_blk               |-> Tri,
  new_nearest_comb_inject      |-> Tri,
  nsq_table                    |-> Tri,
  frame_end_cdf_update         |-> Tri,
  pred_me                      |-> R(-1, 5, {}, FALSE),         \* [G][D]
  bipred_3x3_inject            |-> R(-1, 2, {}, FALSE),         \* [G][D]
  compound_level               |-> R(-1, 2, {}, FALSE),         \* [G][D]
  set_chroma_mode              |-> R(-1, 3, {}, FALSE),         \* [H][G][D]
  disable_cfl_flag             |-> Tri,
  obmc_level                   |-> R(-1, 3, {}, FALSE),         \* [G][D]
  rdoq_level                   |-> Tri,
  filter_intra_level           |-> Tri,
  enable_intra_edge_filter     |-> Tri,
  pic_based_rate_est           |-> Tri,
  use_default_me_hme           |-> Flag,
  enable_hme_flag              |-> Flag,
  ext_block_flag               |-> Flag,
  search_area_width            |-> R(1, 480, {}, TRUE),         \* [G][D]
  search_area_height           |-> R(1, 480, {}, TRUE),
  enable_hbd_mode_decision     |-> R(-1, 2, {}, FALSE),         \* [G][H] [0-2]; [D] [-1 - 2] and -1 is the default returned by init_handle
  palette_level                |-> R(-1, 6, {}, FALSE),         \* [G][H]
  rate_control_mode            |-> R(0, 2, {}, TRUE),           \* [G][D] [0-2]
  scene_change_detection       |-> R(0, 0, {1}, TRUE),          \* [H] flag, default 1; [D] "currently not supported"
  enable_tpl_la                |-> Flag,                        \* [H][G] [0-1]
  max_qp_allowed               |-> R(0, 63, {}, TRUE),          \* [G][D]
  min_qp_allowed               |-> R(0, 62, {63}, TRUE),        \* [G] [0-63]; [D] [0-62]
  vbr_bias_pct                 |-> R(0, 100, {}, TRUE),         \* [H][G] 0..100
  under_shoot_pct              |-> R(0, 100, {}, TRUE),         \* [H][G] 0-100
  over_shoot_pct               |-> R(0, 100, 101 .. 1000, TRUE),\* [G] 0-100; [H] 0-1000
  recode_loop                  |-> R(0, 3, {}, TRUE),           \* [H][G] 0..3
  screen_content_mode          |-> R(0, 2, {}, TRUE),           \* [G][D]
  intrabc_mode                 |-> R(-1, 3, {}, FALSE),         \* [H][G][D]
  enable_adaptive_quantization |-> R(0, 2, {}, TRUE),           \* [G][D]
  high_dynamic_range_input     |-> Flag,
  speed_control_flag           |-> Flag,
  unrestricted_motion_vector   |-> Flag,
  unpin                        |-> Flag,                        \* [H][G] [0,1]
  target_socket                |-> R(-1, 1, {}, FALSE),         \* [H][G][D]
  tile_columns                 |-> R(0, 4, {5, 6}, FALSE),      \* [G] [0-6]; [D] MaxTileCols is 16
  tile_rows                    |-> R(0, 6, {}, FALSE),          \* [G][D] [0-6]
  enable_hme_level0_flag       |-> Flag,
  enable_hme_level1_flag       |-> Flag,
  enable_hme_level2_flag       |-> Flag,
  tf_level                     |-> R(-1, 3, {}, FALSE),         \* [H][G] -1 default, 0..3
  altref_strength              |-> R(0, 6, {}, TRUE),           \* [G][D] [0-6]
  altref_nframes               |-> R(0, 13, {11, 12}, TRUE),    \* [G] [0-10]; [D] [0-13]; 13 is the default returned by init_handle
  enable_overlays              |-> Flag,                        \* [G] [0-1]
  superres_mode                |-> R(0, 2, {}, TRUE),           \* [D] only 0..2 implemented
  superres_denom               |-> R(8, 16, {}, TRUE),          \* [D] [8-16]
  superres_kf_denom            |-> R(8, 16, {}, TRUE),
  superres_qthres              |-> R(0, 63, {}, TRUE)           \* [D] [0-63]
]
Fields == DOMAIN Doc

(* -------- classification of one stored value -------- *)
Huge(f, v) == Doc[f].uns /\ v < 0                \* unsigned value >= 2^31
InAmb(f, v) == ~Huge(f, v) /\ v \in Doc[f].amb
InRange(f, v) == ~Huge(f, v) /\ v >= Doc[f].lo /\ v <= Doc[f].hi
                 /\ (f = "encoder_bit_depth" => v # 9)
(* Fields documented as applicable only in some mode are judged only in that mode:                          *)
(*   [H] max/min_qp_allowed "only applicable when rate control" is on -- the header says "mode 1", written    *)
(*   before the constrained VBR mode 2 existed, which uses the same bounds: judged in modes 1 and 2;          *)
(*   vbr_bias/under/over-shoot and recode_loop are "TWO PASS DATARATE CONTROL"/VBR options (mode 1);         *)
(*   qp "used under constant qp rate control"; [G] key-frame qindex offsets belong to                        *)
(*   use-fixed-qindex-offsets; [H] hbd mode decision "for 10 bit content".                                   *)
(* Outside the mode an out-of-range value is neither required to be rejected nor to be accepted.             *)
QpBounds == {"max_qp_allowed", "min_qp_allowed"}
VbrOnly == {"vbr_bias_pct", "under_shoot_pct", "over_shoot_pct", "recode_loop"}
RcOnly == QpBounds \cup VbrOnly
Applies(f, c) == /\ (f \in QpBounds => c.rate_control_mode \in {1, 2})
                 /\ (f \in VbrOnly => c.rate_control_mode = 1)
                 /\ (f = "qp" => c.rate_control_mode = 0)
                 /\ (f \in {"key_frame_qindex_offset", "key_frame_chroma_qindex_offset"} => c.use_fixed_qindex_offsets = 1)
                 /\ (f = "enable_hbd_mode_decision" => c.encoder_bit_depth = 10)
FieldOut(f, c) == Applies(f, c) /\ ~InRange(f, c[f]) /\ ~InAmb(f, c[f])
FieldAmb(f, c) == InAmb(f, c[f]) \/ (~Applies(f, c) /\ ~InRange(f, c[f]))

(* -------- coupled constraints over a complete configuration c (function field -> int) -------- *)
U(v) == v < 0   \* huge unsigned

(* [G] "if RateControlMode >= 1 intra-period limited to [-2, 255]"; [G][D] [-2, 2^31-2] otherwise *)
IntraPeriodOut(c) ==
  \/ c.intra_period_length < -2
  \/ c.intra_period_length > IMax - 1
  \/ (c.rate_control_mode >= 1 /\ c.rate_control_mode <= 2 /\ c.intra_period_length > 255)
(* [G][D] look-ahead [0-120]; the value ~0 returned by init_handle means "auto" *)
LadOut(c) == c.look_ahead_distance # -1 /\ (U(c.look_ahead_distance) \/ c.look_ahead_distance > 120)
(* [D] "The rate control mode 2/3 LAD must be equal to intra_period"; with the look-ahead limited to 120 no      *)
(* admissible look-ahead exists for an intra period above 120.  An automatic look-ahead (~0) is chosen by the   *)
(* library and cannot violate the rule.                                                                        *)
CvbrLadOut(c) == c.rate_control_mode = 2 /\ c.intra_period_length >= 0
                 /\ \/ c.intra_period_length > 120
                    \/ (c.look_ahead_distance # -1 /\ c.look_ahead_distance # c.intra_period_length)
(* an explicit look-ahead next to an automatic / absent intra period: the documentation does not say what it is compared with *)
CvbrLadAmb(c) == c.rate_control_mode = 2 /\ c.look_ahead_distance # -1 /\ c.intra_period_length < 0
(* [H] "It has to be smaller or equal to maxQpAllowed" *)
QpOrderOut(c) == c.rate_control_mode \in {1, 2} /\ ~U(c.min_qp_allowed) /\ ~U(c.max_qp_allowed) /\ c.min_qp_allowed > c.max_qp_allowed
(* [D] "MaxTiles is 128" *)
TilesOut(c) == c.tile_rows >= 0 /\ c.tile_columns >= 0 /\ c.tile_rows <= 6 /\ c.tile_columns <= 6
               /\ c.tile_rows + c.tile_columns > 7
(* [D] "The intra BC feature is only available when screen_content_mode is set to 1" *)
IbcOut(c) == c.intrabc_mode # -1 /\ c.screen_content_mode # 1
(* [D] "superres is not supported for 2-pass"; "Only rate control mode 0 and 1 are supported for 2-pass" *)
TwoPassOut(c) == c.rc_firstpass_stats_out # 0 /\ (c.superres_mode > 0 \/ c.rate_control_mode > 1)
(* [H] frame rate: < 1000 means an integer rate 1..60, otherwise Q16 with at most 240 fps; 0 is invalid [D] *)
FrameRateOut(c) == c.frame_rate_numerator = 0 /\ c.frame_rate_denominator = 0
                   /\ (c.frame_rate = 0 \/ U(c.frame_rate) \/ c.frame_rate > 240 * 65536)
FrameRateAmb(c) == c.frame_rate_numerator = 0 /\ c.frame_rate_denominator = 0
                   /\ c.frame_rate > 60 /\ c.frame_rate < 1000
(* [H] "When zero, the encoder will use -fps if FrameRateDenominator is also zero, otherwise an error is returned" *)
FrameRateFracOut(c) == (c.frame_rate_numerator = 0) # (c.frame_rate_denominator = 0)
(* the value computed from num/den is not documented for out-of-range quotients: do not judge *)
FrameRateFracAmb(c) == c.frame_rate_numerator # 0 /\ c.frame_rate_denominator # 0
                       /\ (U(c.frame_rate_numerator) \/ U(c.frame_rate_denominator)
                           \/ c.frame_rate_numerator > 240 * c.frame_rate_denominator
                           \/ c.frame_rate_numerator > 8388607
                           \/ c.frame_rate_numerator * 256 < c.frame_rate_denominator)
(* [D] even dimensions for 4:2:0 *)
ParityOut(c) == c.source_width % 2 = 1 \/ c.source_height % 2 = 1
(* [D] HME: region counts [1-2], level-0 totals [1-480], per-level sums [1-480], level-0 sum = total; only with HME on *)
HmeOut(c) ==
  /\ c.enable_hme_flag # 0
  /\ \/ U(c.number_hme_search_region_in_width) \/ c.number_hme_search_region_in_width = 0 \/ c.number_hme_search_region_in_width > 2
     \/ U(c.number_hme_search_region_in_height) \/ c.number_hme_search_region_in_height = 0 \/ c.number_hme_search_region_in_height > 2
     \/ U(c.hme_level0_total_search_area_width) \/ c.hme_level0_total_search_area_width = 0 \/ c.hme_level0_total_search_area_width > 480
     \/ U(c.hme_level0_total_search_area_height) \/ c.hme_level0_total_search_area_height = 0 \/ c.hme_level0_total_search_area_height > 480
(* sums over the first n entries of a region array (arrays have 2 entries, logged as lists) *)
HSum(a, n) == IF n = 1 THEN a[1] ELSE a[1] + a[2]
HmeSumsOut(c) ==
  /\ c.enable_hme_flag # 0 /\ ~HmeOut(c)
  /\ LET nw == c.number_hme_search_region_in_width
         nh == c.number_hme_search_region_in_height IN
     \/ HSum(c.hme_level0_search_area_in_width_array, nw) # c.hme_level0_total_search_area_width
     \/ HSum(c.hme_level0_search_area_in_height_array, nh) # c.hme_level0_total_search_area_height
     \/ \E s \in {HSum(c.hme_level1_search_area_in_width_array, nw), HSum(c.hme_level1_search_area_in_height_array, nh),
                   HSum(c.hme_level2_search_area_in_width_array, nw), HSum(c.hme_level2_search_area_in_height_array, nh)} :
            s < 1 \/ s > 480
(* the l1/l2 height sums are taken over the WIDTH count by the library; documented nowhere: not judged if the counts differ *)
HmeAmb(c) == c.enable_hme_flag # 0 /\ c.number_hme_search_region_in_width # c.number_hme_search_region_in_height
(* [D] manual prediction structure: entry number [1-32], decode order and temporal layer [0-31], list0 forward only  *)
(* with at least one reference inside the mini-GOP.  The recorder fills every entry i with (decode_order i, layer 0, *)
(* ref_list0 = <<1,0,0,0>>, ref_list1 = 0) and logs entry 0 as mps_decode_order etc., the one the cases modify.                 *)
ManualOut(c) == c.enable_manual_pred_struct # 0
                /\ \/ c.manual_pred_struct_entry_num > 32
                   \/ c.manual_pred_struct_entry_num < 1
                   \/ /\ c.manual_pred_struct_entry_num >= 1
                      /\ \/ U(c.mps_decode_order) \/ c.mps_decode_order > 31
                         \/ U(c.mps_temporal_layer) \/ c.mps_temporal_layer > 31
                         \/ c.mps_ref0 < 0 \/ c.mps_ref0 = 0 \/ 1 - c.mps_ref0 < 0
(* [D] says [1 - 32]; [H] calls the number "the minigop size" (2^levels): other counts in 1..32 are disputed *)
ManualAmb(c) == c.enable_manual_pred_struct # 0
                /\ \/ c.manual_pred_struct_entry_num \in (1 .. 32) \ {1, 2, 4, 8, 16, 32}
                   \* [D] gives [0 - 31] for the decode order; an order that is not below the entry number cannot index the mini-GOP
                   \/ (~U(c.mps_decode_order) /\ c.mps_decode_order <= 31 /\ c.mps_decode_order >= c.manual_pred_struct_entry_num)
(* [G] qindex offsets [-256,255] per layer; unused unless use_fixed_qindex_offsets *)
QBad(a) == \E i \in 1 .. Len(a) : a[i] < -256 \/ a[i] > 255
QOffOut(c) == c.use_fixed_qindex_offsets = 1 /\ (QBad(c.qindex_offsets) \/ QBad(c.chroma_qindex_offsets))
QOffAmb(c) == c.use_fixed_qindex_offsets # 1 /\ (QBad(c.qindex_offsets) \/ QBad(c.chroma_qindex_offsets))

(* [G] 0 main, 1 high, 2 professional.  What a sequence header of each profile can signal is fixed by the AV1 syntax  *)
(* (color_config: profile 0 is 4:2:0 / monochrome, profile 1 is 4:4:4, profile 2 is 4:2:2 unless the depth is 12) and is *)
(* what the library's own rejection messages state: "Non 420 color format requires profile 1 or 2", "Profile 1 requires *)
(* 4:4:4", "Profile 2 bit-depth <= 10 requires 4:2:2".  Formats: 0 = 4:0:0, 1 = 4:2:0, 2 = 4:2:2, 3 = 4:4:4.              *)
ProfileOut(c) == \/ (c.profile = 0 /\ c.encoder_color_format \in {2, 3})
                 \/ (c.profile = 1 /\ c.encoder_color_format # 3)
                 \/ (c.profile = 2 /\ c.encoder_bit_depth <= 10 /\ c.encoder_color_format # 2)
CoupledOut(c) == \/ ProfileOut(c) \/ IntraPeriodOut(c) \/ LadOut(c) \/ CvbrLadOut(c) \/ QpOrderOut(c) \/ TilesOut(c)
                 \/ IbcOut(c) \/ TwoPassOut(c) \/ FrameRateOut(c) \/ FrameRateFracOut(c) \/ ParityOut(c)
                 \/ HmeOut(c) \/ HmeSumsOut(c) \/ ManualOut(c) \/ QOffOut(c)
CoupledAmb(c) == CvbrLadAmb(c) \/ FrameRateAmb(c) \/ FrameRateFracAmb(c) \/ HmeAmb(c) \/ ManualAmb(c) \/ QOffAmb(c)

Out(c) == (\E f \in Fields : FieldOut(f, c)) \/ CoupledOut(c)
Amb(c) == (\E f \in Fields : FieldAmb(f, c)) \/ CoupledAmb(c)
WhyAmb(c) == {f \in Fields : FieldAmb(f, c)}
             \cup (IF CvbrLadAmb(c) THEN {"cvbr auto lad"} ELSE {}) \cup (IF FrameRateAmb(c) THEN {"frame_rate 61..999"} ELSE {})
             \cup (IF FrameRateFracAmb(c) THEN {"fps fraction"} ELSE {}) \cup (IF HmeAmb(c) THEN {"hme counts differ"} ELSE {})
             \cup (IF ManualAmb(c) THEN {"manual entry number"} ELSE {}) \cup (IF QOffAmb(c) THEN {"unused qindex offsets"} ELSE {})
(* "reject" | "skip" | "accept" *)
Verdict(c) == IF Out(c) THEN "reject" ELSE IF Amb(c) THEN "skip" ELSE "accept"

(* which documented clause makes c invalid (for the report) *)
Why(c) == {f \in Fields : FieldOut(f, c)}
          \cup (IF IntraPeriodOut(c) THEN {"intra_period"} ELSE {})
          \cup (IF ProfileOut(c) THEN {"profile vs colour format / bit depth"} ELSE {})
          \cup (IF LadOut(c) THEN {"look_ahead"} ELSE {})
          \cup (IF CvbrLadOut(c) THEN {"cvbr_lad"} ELSE {})
          \cup (IF QpOrderOut(c) THEN {"min>max qp"} ELSE {})
          \cup (IF TilesOut(c) THEN {"tiles>128"} ELSE {})
          \cup (IF IbcOut(c) THEN {"intrabc w/o scm"} ELSE {})
          \cup (IF TwoPassOut(c) THEN {"2-pass"} ELSE {})
          \cup (IF FrameRateOut(c) THEN {"frame_rate"} ELSE {})
          \cup (IF FrameRateFracOut(c) THEN {"fps num/den"} ELSE {})
          \cup (IF ParityOut(c) THEN {"odd size"} ELSE {})
          \cup (IF HmeOut(c) \/ HmeSumsOut(c) THEN {"hme"} ELSE {})
          \cup (IF ManualOut(c) THEN {"manual pred struct"} ELSE {})
          \cup (IF QOffOut(c) THEN {"qindex offsets"} ELSE {})

(* ===================== Gen: the case space ===================== *)
A(f, v) == [f |-> f, v |-> v]
Clip(S) == {v \in S : v >= IMin /\ v <= IMax}
Probe(f) == LET d == Doc[f] IN
   Clip({d.lo - 2, d.lo - 1, d.lo, d.lo + 1, (d.lo + d.hi) \div 2, d.hi - 1, d.hi, d.hi + 1, d.hi + 2,
         d.hi + 100, 127, 128, 255, 256, 65535, 65536, IMax, IMin, -1, -128, -129})
   \cup d.amb
Singles == UNION {{<<A(f, v)>> : v \in Probe(f)} : f \in Fields}
(* complete products of the coupled groups named in the property *)
Prod2(f, F, g, G) == {<<A(f, a), A(g, b)>> : a \in F, b \in G}
Prod3(f, F, g, G, h, H) == {<<A(f, a), A(g, b), A(h, d)>> : a \in F, b \in G, d \in H}
GroupRc == Prod3("rate_control_mode", {0, 1, 2, 3}, "intra_period_length", {-3, -2, -1, 0, 1, 31, 120, 255, 256, IMax - 1, IMax},
                 "look_ahead_distance", {0, 1, 31, 120, 121, 255, 256, -1, IMax, IMin})
GroupProfile == Prod3("profile", {0, 1, 2, 3}, "encoder_bit_depth", {8, 9, 10, 12, 16}, "encoder_color_format", {0, 1, 2, 3, 4})
GroupQp == Prod3("rate_control_mode", {0, 1, 2}, "min_qp_allowed", {0, 1, 30, 62, 63, 64}, "max_qp_allowed", {0, 1, 29, 30, 62, 63, 64})
GroupTiles == Prod2("tile_rows", -1 .. 7, "tile_columns", -1 .. 7)
GroupIbc == Prod2("intrabc_mode", -2 .. 4, "screen_content_mode", 0 .. 3)
GroupSuperres == Prod3("superres_mode", 0 .. 4, "rc_firstpass_stats_out", {0, 1}, "rate_control_mode", {0, 1, 2})
GroupFps == Prod3("frame_rate", {0, 1, 25, 60, 61, 999, 1000, 65536, 240 * 65536, 240 * 65536 + 1, IMax, -1},
                  "frame_rate_numerator", {0, 1, 30000, 60000}, "frame_rate_denominator", {0, 1, 1001})
GroupSize == Prod2("source_width", {0, 2, 62, 63, 64, 65, 66, 1920, 4094, 4095, 4096, 4097, 4098, 8192, 65536},
                   "source_height", {0, 2, 62, 63, 64, 65, 66, 1080, 2158, 2159, 2160, 2161, 2162, 2304, 2306, 4320, 65536})
GroupHme == Prod3("enable_hme_flag", {0, 1}, "number_hme_search_region_in_width", {0, 1, 2, 3, 1000, -1},
                  "number_hme_search_region_in_height", {0, 1, 2, 3, 1000, -1})
            \cup Prod3("enable_hme_flag", {0, 1}, "hme_level0_total_search_area_width", {0, 1, 479, 480, 481},
                       "hme_level0_total_search_area_height", {0, 1, 479, 480, 481})
            \cup Prod3("enable_hme_flag", {0, 1}, "hme_level0_search_area_in_width_array[0]", {0, 1, 32, 480},
                       "hme_level1_search_area_in_height_array[1]", {0, 1, 480, 481})
(* manual prediction structure: mps_valid = recorder fills N valid entries; the mps_ keys corrupt entry 0 *)
GroupManual == Prod2("enable_manual_pred_struct", {0, 1}, "manual_pred_struct_entry_num", {-1, 0, 1, 2, 3, 4, 8, 16, 31, 32, 33, 1000})
               \cup {<<A("enable_manual_pred_struct", 1), A("manual_pred_struct_entry_num", 4), A(k, v)>> :
                        k \in {"mps_decode_order", "mps_temporal_layer"}, v \in {0, 31, 32, 255}}
               \cup {<<A("enable_manual_pred_struct", 1), A("manual_pred_struct_entry_num", 4), A("mps_ref0", v)>> : v \in {-1, 0, 1, 5}}
GroupQOff == {<<A("use_fixed_qindex_offsets", u), A("qindex_offsets[0]", v)>> : u \in {0, 1}, v \in {-257, -256, 0, 255, 256}}
             \cup {<<A("use_fixed_qindex_offsets", u), A("chroma_qindex_offsets[1]", v)>> : u \in {0, 1}, v \in {-257, -256, 0, 255, 256}}

(* mode-dependent fields are swept inside their mode *)
GroupMode == UNION {{<<A("rate_control_mode", 1), A(f, v)>> : v \in Probe(f)} : f \in RcOnly}
             \cup UNION {{<<A("rate_control_mode", 2), A(f, v)>> : v \in Probe(f)} : f \in QpBounds}
             \cup UNION {{<<A("use_fixed_qindex_offsets", 1), A(f, v)>> : v \in Probe(f)} :
                            f \in {"key_frame_qindex_offset", "key_frame_chroma_qindex_offset"}}
             \cup {<<A("encoder_bit_depth", 10), A("enable_hbd_mode_decision", v)>> : v \in Probe("enable_hbd_mode_decision")}
             \cup {<<A("rate_control_mode", 1), A("qp", v)>> : v \in Probe("qp")}

Cases == Singles \cup GroupMode \cup GroupRc \cup GroupProfile \cup GroupQp \cup GroupTiles \cup GroupIbc \cup GroupSuperres
         \cup GroupFps \cup GroupSize \cup GroupHme \cup GroupManual \cup GroupQOff
(* random pairs of independent fields for the thorough tier are produced by the driver from Probe (PairSeed) *)

VARIABLE l
GenInit == l = 0 /\ ndJsonSerialize(IOEnv.OUT, SetToSeq(Cases))
GenSpec == GenInit /\ [][UNCHANGED l]_l
(* model sanity, checked in the Gen run: every probe set straddles its range; ranges are non-empty *)
DocSane == \A f \in Fields : /\ Doc[f].lo <= Doc[f].hi
                             /\ \E v \in Probe(f) : ~InRange(f, v) /\ ~InAmb(f, v)
                             /\ \E v \in Probe(f) : InRange(f, v)

DocSaneInv == DocSane

(* ===================== Judge: rows recorded from the real library ===================== *)
Tr == IF "TRACE" \in DOMAIN IOEnv THEN ndJsonDeserialize(IOEnv.TRACE) ELSE <<>>
BadParameter == -2147479547
(* the configuration returned by svt_av1_enc_init_handle (+ a picture size) must be judged "accept": otherwise   *)
(* every single-field sweep would be skipped (vacuity guard; row 1 of every judged file is the base configuration) *)
BaseJudged == Len(Tr) = 0 \/ Verdict(Tr[1].cfg) = "accept"
   \* EB_ErrorBadParameter = 0x80001005 as int32
(* Every row is judged; rows that fail are collected (TLC register 1, single worker) and written by the   *)
(* postcondition, so that one run reports every disagreement, not only the first.                        *)
JInit == l = 1 /\ TLCSet(1, <<>>) /\ TLCSet(2, [accept |-> 0, reject |-> 0, skip |-> 0])
RowOK(r) == LET v == Verdict(r.cfg) IN
   /\ r.returned = 1                                    \* the call came back (no crash, no hang)
   /\ v = "reject" => r.ret = BadParameter
   /\ v = "accept" => r.ret = 0
Note(r, i) == [i |-> i, verdict |-> Verdict(r.cfg), why |-> SetToSeq(Why(r.cfg)), ret |-> r.ret, returned |-> r.returned]
Count(v) == LET k == TLCGet(2) IN TLCSet(2, [k EXCEPT ![v] = @ + 1])
Row == /\ l <= Len(Tr)
       /\ Count(Verdict(Tr[l].cfg))
       /\ IF RowOK(Tr[l]) THEN TRUE ELSE TLCSet(1, Append(TLCGet(1), Note(Tr[l], l)))
       /\ l' = l + 1
JudgeSpec == JInit /\ [][Row]_l
Judged == /\ TLCGet("stats").diameter - 1 = Len(Tr)
          /\ IF BaseJudged THEN TRUE ELSE PrintT(<<"base configuration not judged", WhyAmb(Tr[1].cfg), Why(Tr[1].cfg)>>) /\ FALSE
          /\ ndJsonSerialize(IOEnv.VERDICTS, <<TLCGet(2)>> \o TLCGet(1))
          /\ TLCGet(1) = <<>>
=============================================================================
