SPECIFICATION Spec
CONSTANT MaxBits = 8
POSTCONDITION TraceAccepted
CHECK_DEADLOCK FALSE
