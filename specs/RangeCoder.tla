----------------------------- MODULE RangeCoder -----------------------------
(***************************************************************************)
(* Symbol layer of the arithmetic (range) coder, exact integer arithmetic. *)
(*   writer: Source/Lib/Common/Codec/EbBitstreamUnit.c :214-262            *)
(*           (od_ec_encode_q15, svt_od_ec_encode_bool_q15, normalisation)  *)
(*   reader: Source/Lib/Decoder/Codec/EbDecBitstreamUnit.h :139-228        *)
(*   CDF adaptation: EbCabacContextModel.h :523-542 (update_cdf) and       *)
(*                   EbDecBitstreamUnit.h :73 (dec_update_cdf)             *)
(* Constants of the code: EC_PROB_SHIFT = 6, EC_MIN_PROB = 4, CDF_SHIFT = 0,*)
(* CDF_PROB_TOP = 32768.  A CDF is stored inverted: icdf[i] = 32768 - cum. *)
(* The byte layer (low / carry propagation / dif window) is wider than 31  *)
(* bits and is not modelled: the byte string is opaque, only its length is *)
(* related to the writer's bit estimate.                                   *)
(***************************************************************************)
EXTENDS Integers, Sequences, FiniteSets, TLC, Json, IOUtils

TOP == 32768
MINP == 4

(* ((r >> 8) * (f >> 6) >> 1) + MINP * k      -- the scaled partition point *)
Part(r, f, k) == (((r \div 256) * (f \div 64)) \div 2) + MINP * k

RECURSIVE ILog(_)
ILog(x) == IF x = 0 THEN 0 ELSE 1 + ILog(x \div 2)
Norm(r) == r * (2 ^ (16 - ILog(r)))            \* rng << (16 - OD_ILOG_NZ(rng))

(* icdf: sequence of n inverse-cdf values (1-based), s: symbol 0..n-1 *)
Fl(icdf, s) == IF s = 0 THEN TOP ELSE icdf[s]
Fh(icdf, s) == icdf[s + 1]
(* writer: new (un-normalised) range when symbol s is coded in range r *)
EncU(r, icdf, s) == LET N == Len(icdf) - 1 IN IF Fl(icdf, s) < TOP THEN Part(r, Fl(icdf, s), N - (s - 1)) ELSE r
EncV(r, icdf, s) == LET N == Len(icdf) - 1 IN Part(r, Fh(icdf, s), N - s)
EncRange(r, icdf, s) == EncU(r, icdf, s) - EncV(r, icdf, s)

(* reader: the search  do { u = v; v = Part(r, icdf[++ret], N - ret) } while (c < v)  for a code value c *)
RECURSIVE Search(_, _, _, _)
Search(r, icdf, c, k) ==       \* k = candidate symbol
  LET N == Len(icdf) - 1 IN
    IF k >= N \/ c >= Part(r, icdf[k + 1], N - k) THEN k ELSE Search(r, icdf, c, k + 1)
DecSymbol(r, icdf, c) == Search(r, icdf, c, 0)

(* boolean with probability f (Q15 probability that the bit is one; aom_write maps p in 1..255 to f) *)
BoolF(p) == (8388607 - (p * 32768) + p) \div 256
BoolV(r, f) == (((r \div 256) * (f \div 64)) \div 2) + MINP
BoolRange(r, f, b) == IF b = 1 THEN BoolV(r, f) ELSE r - BoolV(r, f)

(* update_cdf: cdf = icdf values 1..n, cnt = adaptation counter *)
Speed(n) == IF n <= 1 THEN 0 ELSE IF n <= 3 THEN 1 ELSE 2
Rate(n, cnt) == 3 + (IF cnt > 15 THEN 1 ELSE 0) + (IF cnt > 31 THEN 1 ELSE 0) + Speed(n)
Adapt(icdf, cnt, s) ==
  LET n == Len(icdf)
      rate == Rate(n, cnt)
      step(i) == \* i = 0-based index < n-1 ; tmp = TOP for i < s, 0 for i >= s
         LET tmp == IF i >= s THEN 0 ELSE TOP
             c == icdf[i + 1] IN
           IF tmp < c THEN c - ((c - tmp) \div (2 ^ rate)) ELSE c + ((tmp - c) \div (2 ^ rate))
  IN [i \in 1 .. n |-> IF i <= n - 1 THEN step(i - 1) ELSE icdf[i]]
AdaptCnt(cnt) == IF cnt < 32 THEN cnt + 1 ELSE cnt

ValidIcdf(icdf) ==
  /\ Len(icdf) >= 2 /\ icdf[Len(icdf)] = 0 /\ icdf[1] < TOP
  /\ \A i \in 1 .. Len(icdf) - 1 : icdf[i] >= icdf[i + 1] /\ icdf[i] >= 0

(* ------------------------------------------------------------------------------------------- *)
(* exhaustive exploration of short symbol sequences with adaptation                             *)
CONSTANTS Alphabets, MaxLen, RSamples

UniformIcdf(n) == [i \in 1 .. n |-> TOP - ((TOP * i) \div n)]
FirstAll(n) == [i \in 1 .. n |-> IF i = n THEN 0 ELSE n - i]            \* all mass on symbol 0, minimal steps after it
LastAll(n) == [i \in 1 .. n |-> IF i = n THEN 0 ELSE TOP - i]           \* all mass on the last symbol
ZeroMid(n) == [i \in 1 .. n |-> IF i = n THEN 0 ELSE TOP - 1]           \* zero-probability symbols in the middle
AllOnFirst(n) == [i \in 1 .. n |-> 0]                                   \* every symbol but the first has probability 0
Families(n) == {UniformIcdf(n), FirstAll(n), LastAll(n), ZeroMid(n), AllOnFirst(n)}

VARIABLES rng, icdf, cnt, len, adapt, l
vars == <<rng, icdf, cnt, len, adapt, l>>

Init == /\ rng \in RSamples
        /\ \E n \in Alphabets : icdf \in Families(n)
        /\ cnt = 0 /\ len = 0 /\ adapt \in BOOLEAN /\ l = 1
Code(s) ==
  /\ len < MaxLen
  /\ rng' = Norm(EncRange(rng, icdf, s))
  /\ icdf' = IF adapt THEN Adapt(icdf, cnt, s) ELSE icdf
  /\ cnt' = IF adapt THEN AdaptCnt(cnt) ELSE cnt
  /\ len' = len + 1
  /\ UNCHANGED <<adapt, l>>
Next == \E s \in 0 .. Len(icdf) - 1 : Code(s)
Spec == Init /\ [][Next]_vars

(* C25: every symbol gets a non-empty, nested sub-interval, so the reader can recover it; the range stays normalised; *)
(* the adapted table stays a valid table                                                                              *)
RangeOK == rng >= 32768 /\ rng <= 65535
TableOK == ValidIcdf(icdf)
IntervalsOK ==
  \A s \in 0 .. Len(icdf) - 1 :
     LET u == EncU(rng, icdf, s)  v == EncV(rng, icdf, s) IN
       /\ v >= 0 /\ v < u /\ u <= rng                                        \* non-empty, inside the current range
       /\ (s > 0 => u = EncV(rng, icdf, s - 1))                              \* intervals tile the range without gaps
       /\ DecSymbol(rng, icdf, v) = s /\ DecSymbol(rng, icdf, u - 1) = s       \* the reader's search inverts the writer
BoolOK == \A p \in {1, 2, 64, 128, 200, 254, 255} : \A b \in 0 .. 1 :
            LET f == BoolF(p) IN f > 0 /\ f < TOP /\ BoolRange(rng, f, b) >= 1 /\ BoolRange(rng, f, b) < rng

(* ------------------------------------------------------------------------------------------- *)
(* trace part: sequences written by the real writer and read back by the real reader            *)
Tr == IF "TRACE" \in DOMAIN IOEnv THEN ndJsonDeserialize(IOEnv.TRACE) ELSE <<>>
(* one row = one coded item together with the (logged) state before it; by induction over the rows of a sequence *)
(* every logged state equals the model's                                                                          *)
SymRow(row) ==
  LET c == SubSeq(row.cb, 1, row.n)  k == row.cb[row.n + 1]  ad == row.adapt = 1
      nr == Norm(EncRange(row.rb, c, row.s))
      nc == IF ad THEN Adapt(c, k, row.s) ELSE c
      nk == IF ad THEN AdaptCnt(k) ELSE k
  IN /\ ValidIcdf(c)
     /\ row.d = row.s                                   \* the reader recovered the written symbol
     /\ row.wr = nr /\ row.rr = nr                      \* writer and reader ranges evolve as the model's
     /\ \A j \in 1 .. row.n : row.wc[j] = nc[j] /\ row.rc[j] = nc[j]
     /\ row.wc[row.n + 1] = nk /\ row.rc[row.n + 1] = nk
BoolRow(row) == LET nr == Norm(BoolRange(row.rb, BoolF(row.p), row.s)) IN row.d = row.s /\ row.wr = nr /\ row.rr = nr
RECURSIVE LitRange(_, _, _)
LitRange(r, v, bits) == IF bits = 0 THEN r ELSE LitRange(Norm(BoolRange(r, BoolF(128), (v \div (2 ^ (bits - 1))) % 2)), v, bits - 1)
LitRow(row) == row.d = row.s /\ row.wr = LitRange(row.rb, row.s, row.bits) /\ row.rr = row.wr
EndRow(row) == 8 * row.bytes <= row.tell + 7 /\ row.nbits >= row.tell   \* the bit estimate never under-reports the bytes emitted
RowOK(row) == CASE row.kind = "S" -> SymRow(row) [] row.kind = "B" -> BoolRow(row) [] row.kind = "L" -> LitRow(row)
                [] row.kind = "E" -> EndRow(row) [] OTHER -> FALSE
TraceInit == rng = 32768 /\ icdf = UniformIcdf(2) /\ cnt = 0 /\ len = 0 /\ adapt = FALSE /\ l = 1
TraceNext == l <= Len(Tr) /\ RowOK(Tr[l]) /\ l' = l + 1 /\ UNCHANGED <<rng, icdf, cnt, len, adapt>>
TraceSpec == TraceInit /\ [][TraceNext]_vars
TraceAccepted == TLCGet("stats").diameter - 1 = Len(Tr)
=============================================================================
