\* pool without full queue: 2 objects, 3 producers get and release
SPECIFICATION Spec
CONSTANTS NO = 2 NP = 3 NC = 0 MaxOps = 2 WithShutdown = FALSE WithNonBlocking = FALSE MaxInc = 2
INVARIANTS TypeOK NoDup NoMissedAssign SemCountsList WaitedFindsObject NoLossNoDup NoDoubleHolder PostOrder ReturnedIffReleased
CHECK_DEADLOCK FALSE
