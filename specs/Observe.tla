------------------------------ MODULE Observe ------------------------------
(***************************************************************************)
(* The encoder / decoder as FUNCTIONS of their semantic inputs.            *)
(*                                                                         *)
(* A run is labelled with a key = (input, semantic configuration).         *)
(* Everything else about the run -- thread count, pinning, instruction     *)
(* set, schedule, stride and padding bytes, what the caller does with its  *)
(* buffers after the call returns, pacing of the calls, prior contents of  *)
(* the configuration memory, co-running instances, decoder thread count    *)
(* and pipeline depth, which decoder looked at the stream -- is            *)
(* environment and is deliberately NOT part of the key.  The specification *)
(* says: the first observation of (key, class, index) defines the          *)
(* canonical value, every later observation of the same triple must equal  *)
(* it, and two runs with the same key observe the same number of items.    *)
(* Classes: "bytes" (packets), "pic" (reconstructed / decoded pictures,    *)
(* whoever produced them), "stat" (reported vs recomputed statistics).     *)
(* Data are uninterpreted digests.                                         *)
(***************************************************************************)
EXTENDS Integers, Sequences, TLC, Json, IOUtils

Tr == ndJsonDeserialize(IOEnv.TRACE)

VARIABLES l, canon, counts, key, seen, once

vars == <<l, canon, counts, key, seen, once>>

Ev == Tr[l]
IsEv(e) == l <= Len(Tr) /\ Ev.ev = e /\ l' = l + 1

Init ==
  /\ l = 1
  /\ canon = [x \in {} |-> ""]     \* <<key, class, index>> -> digest
  /\ counts = [x \in {} |-> 0]     \* <<key, class>> -> number of items of a completed run
  /\ key = ""
  /\ seen = [x \in {} |-> 0]       \* <<class, observer>> -> items observed in the current run
  /\ once = {}                     \* <<class, observer, index>> observed in the current run

(* start of a run *)
Run ==
  /\ IsEv("Run")
  /\ key' = Ev.key
  /\ seen' = [x \in {} |-> 0]
  /\ once' = {}
  /\ UNCHANGED <<canon, counts>>

(* one observation *)
Obs ==
  /\ IsEv("Obs")
  /\ <<Ev.class, Ev.who, Ev.k>> \notin once          \* an observer sees each item of a run once (no duplicates standing in for lost items)
  /\ once' = once \cup {<<Ev.class, Ev.who, Ev.k>>}
  /\ LET id == <<key, Ev.class, Ev.k>>  so == <<Ev.class, Ev.who>> IN
       /\ IF id \in DOMAIN canon
            THEN canon[id] = Ev.dig /\ UNCHANGED canon          \* must agree with the canonical value
            ELSE canon' = canon @@ (id :> Ev.dig)               \* defines it
       /\ seen' = IF so \in DOMAIN seen THEN [seen EXCEPT ![so] = @ + 1] ELSE seen @@ (so :> 1)
  /\ UNCHANGED <<counts, key>>

(* end of a run: every observer of a class saw the canonical number of items *)
RunEnd ==
  /\ IsEv("RunEnd")
  /\ \A so \in DOMAIN seen :
       LET c == <<key, so[1]>> IN c \in DOMAIN counts => counts[c] = seen[so]
  /\ \A so1, so2 \in DOMAIN seen : so1[1] = so2[1] => seen[so1] = seen[so2]
  /\ counts' = [c \in DOMAIN counts \cup {<<key, so[1]>> : so \in DOMAIN seen} |->
                  IF c \in DOMAIN counts THEN counts[c]
                  ELSE seen[CHOOSE so \in DOMAIN seen : <<key, so[1]>> = c]]
  /\ UNCHANGED <<canon, key, seen, once>>

Next == Run \/ Obs \/ RunEnd
Spec == Init /\ [][Next]_vars
TraceAccepted == TLCGet("stats").diameter - 1 = Len(Tr)
=============================================================================
