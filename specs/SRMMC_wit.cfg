SPECIFICATION Spec
CONSTANTS NO = 3 NP = 1 NC = 2 MaxOps = 3 WithShutdown = TRUE WithNonBlocking = TRUE MaxInc = 2
INVARIANTS W_TwoInFifo
CHECK_DEADLOCK FALSE
