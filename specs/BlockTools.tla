----------------------------- MODULE BlockTools -----------------------------
(***************************************************************************)
(* Block-level half of C20: a coding tool that the configuration disables  *)
(* is used by NO block of any frame.  Trace specification (direction B):   *)
(* the stream is parsed by the repository's decoder built with the guarded *)
(* counters of EbDecParseBlock.c:parse_block (one count per tool and       *)
(* temporal unit, emitted by svt_av1_dec_frame); the decoder is only a     *)
(* syntax reader here -- C08 separately establishes that it reads streams  *)
(* the way libaom does.                                                    *)
(*   Run   : off = the set of tools the configuration forbids              *)
(*   Tools : c = [blocks, palette, filter_intra, cfl, intrabc, obmc, warp, *)
(*                interintra, wedge, diffwtd, distwtd, skip_mode]          *)
(***************************************************************************)
EXTENDS Integers, Sequences, FiniteSets, TLC, Json, IOUtils
Tr == ndJsonDeserialize(IOEnv.TRACE)
Names == <<"blocks", "palette", "filter_intra", "cfl", "intrabc", "obmc", "warp", "interintra", "wedge", "diffwtd", "distwtd", "skip_mode">>
Index(n) == CHOOSE i \in 1 .. Len(Names) : Names[i] = n

VARIABLES l, off, units
vars == <<l, off, units>>
Ev == Tr[l]
Init == l = 1 /\ off = {} /\ units = 0
Run == /\ l <= Len(Tr) /\ Ev.ev = "Run" /\ l' = l + 1
       /\ off' = {Ev.off[i] : i \in 1 .. Len(Ev.off)} /\ units' = 0
       /\ \A n \in off' : \E i \in 1 .. Len(Names) : Names[i] = n          \* only known tool names
Tools == /\ l <= Len(Tr) /\ Ev.ev = "Tools" /\ l' = l + 1
         /\ Len(Ev.c) = Len(Names)
         /\ \A n \in off : Ev.c[Index(n)] = 0                             \* a disabled tool is used by no block
         /\ units' = units + 1 /\ UNCHANGED off
(* a run must have parsed at least one temporal unit with blocks in it (vacuity) *)
RunEnd == /\ l <= Len(Tr) /\ Ev.ev = "RunEnd" /\ l' = l + 1 /\ units > 0 /\ UNCHANGED <<off, units>>
Next == Run \/ Tools \/ RunEnd
Spec == Init /\ [][Next]_vars
TraceAccepted == TLCGet("stats").diameter - 1 = Len(Tr)
=============================================================================
