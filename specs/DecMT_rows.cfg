SPECIFICATION Spec
CONSTANTS T = 2 R = 3 F = 2 FixedBarrier = FALSE
INVARIANTS NeverTwice AllDoneAtEnd StageOrder BarrierBeforeReuse NoStaleStart
CHECK_DEADLOCK FALSE
