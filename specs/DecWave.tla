------------------------------ MODULE DecWave ------------------------------
(***************************************************************************)
(* The superblock wavefront INSIDE one stage of the multi-threaded decoder *)
(* (the part DecRowDeps.tla / DecMT.tla treat as one atomic row job).      *)
(*                                                                         *)
(* Every stage hands out superblock rows in order to whichever thread asks *)
(* next; a thread walks its row left to right and, before it touches       *)
(* superblock (r, c), spins on a progress word of row r-1:                 *)
(*                                                                         *)
(*   recon  decode_tile_row, EbDecProcessFrame.c:112                       *)
(*            word = number of superblocks completed (0 at frame start)    *)
(*            while (word[r-1] < MIN(c + 2, W)) ;                          *)
(*   lf     dec_loop_filter_row, EbDecLF.c:729                             *)
(*            word = index of the last completed superblock (-1 at start)  *)
(*            while (word[r-1] < MIN(c + 2, W - 1)) ;                      *)
(*   cdef   svt_cdef_sb_row_mt, EbDecCdef.c:522                            *)
(*            word = index of the last completed superblock, but the reset *)
(*            value is 0 (svt_av1_queue_cdef_jobs memsets the array to 0)  *)
(*            while (word[r-1] < c + (c == W-1 ? 0 : 1)) ;                 *)
(*   lr     dec_av1_loop_restoration_filter_row, EbDecRestoration.c:322    *)
(*            word = index of the last completed unit (-1 at start)        *)
(*            while (word[r-1] < c + (last unit ? 0 : 1)) ;                *)
(*                                                                         *)
(* What every stage NEEDS (the data dependency, Needs below): superblock   *)
(* (r, c) reads or rewrites samples that superblock (r-1, c+1) also        *)
(* touches -- the above-right reference line of intra prediction, the      *)
(* vertical edge between (r-1,c) and (r-1,c+1) that must be deblocked      *)
(* before the horizontal edge under (r-1,c), the 8x8 corner CDEF reads,    *)
(* the restoration border -- so (r-1, min(c+1, W-1)) must be complete, and *)
(* so must (r, c-1) (same thread, program order).                          *)
(*                                                                         *)
(* TLC checks for each stage's wait expression, every grid up to the       *)
(* bounds and every assignment of rows to threads that the expression      *)
(* implies the need and that the wavefront cannot deadlock.                *)
(* Slip = 1 weakens the threshold by one (vacuity guard: must violate).    *)
(***************************************************************************)
EXTENDS Integers, FiniteSets, TLC
CONSTANTS R, W,        \* superblock rows and columns of the region (picture, or tile for recon)
          T,           \* threads
          Kind,        \* "recon" | "lf" | "cdef" | "lr"
          Slip         \* 0: as coded

Rows == 0 .. R - 1
Cols == 0 .. W - 1
Thr  == 1 .. T
Min(a, b) == IF a < b THEN a ELSE b

(* the data dependency shared with the trace specification *)
Needs(r, c, last) == (IF c > 0 THEN {<<r, c - 1>>} ELSE {}) \cup (IF r > 0 THEN {<<r - 1, Min(c + 1, last)>>} ELSE {})

ResetWord == IF Kind \in {"recon", "cdef"} THEN 0 ELSE -1
Publish(c) == IF Kind = "recon" THEN c + 1 ELSE c
Threshold(c) ==
  (CASE Kind = "recon" -> Min(c + 2, W)
     [] Kind = "lf"    -> Min(c + 2, W - 1)
     [] OTHER          -> c + (IF c = W - 1 THEN 0 ELSE 1)) - Slip

VARIABLES nextRow,     \* next row to hand out (sb_row_to_process, under the stage's mutex)
          row, col, ph,\* per thread: row held (-1 none), column, "idle" | "wait" | "work"
          word,        \* Rows -> progress word
          done,        \* set of completed <<r, c>>
          bad
vars == <<nextRow, row, col, ph, word, done, bad>>

Init == /\ nextRow = 0
        /\ row = [t \in Thr |-> -1] /\ col = [t \in Thr |-> 0] /\ ph = [t \in Thr |-> "idle"]
        /\ word = [r \in Rows |-> ResetWord]
        /\ done = {} /\ bad = {}

Take(t) == /\ ph[t] = "idle" /\ nextRow < R
           /\ row' = [row EXCEPT ![t] = nextRow] /\ col' = [col EXCEPT ![t] = 0] /\ ph' = [ph EXCEPT ![t] = "wait"]
           /\ nextRow' = nextRow + 1
           /\ UNCHANGED <<word, done, bad>>

(* the spin loop exits *)
Pass(t) == /\ ph[t] = "wait"
           /\ IF row[t] > 0 THEN word[row[t] - 1] >= Threshold(col[t]) ELSE TRUE
           /\ ph' = [ph EXCEPT ![t] = "work"]
           /\ bad' = bad \cup {<<"superblock", row[t], col[t], "starts before", d>> : d \in Needs(row[t], col[t], W - 1) \ done}
           /\ UNCHANGED <<nextRow, row, col, word, done>>

(* the superblock is processed and the progress word published *)
Finish(t) == /\ ph[t] = "work"
             /\ done' = done \cup {<<row[t], col[t]>>}
             /\ word' = [word EXCEPT ![row[t]] = Publish(col[t])]
             /\ IF col[t] = W - 1
                  THEN ph' = [ph EXCEPT ![t] = "idle"] /\ row' = [row EXCEPT ![t] = -1] /\ col' = col
                  ELSE ph' = [ph EXCEPT ![t] = "wait"] /\ col' = [col EXCEPT ![t] = @ + 1] /\ row' = row
             /\ UNCHANGED <<nextRow, bad>>

Next == \E t \in Thr : Take(t) \/ Pass(t) \/ Finish(t)
Spec == Init /\ [][Next]_vars
FairSpec == Spec /\ WF_vars(Next)

NoEarlyStart == bad = {}
AllDone == done = Rows \X Cols
Completes == <>[]AllDone
(* deadlock freedom in the safety sense: the only state without a successor is the finished one *)
NoStall == (~ENABLED Next) => AllDone
(* witness (must be violated): a lower row really runs concurrently with the row above *)
NeverConcurrent == ~(\E a, b \in Thr : a # b /\ ph[a] = "work" /\ ph[b] = "work")
=============================================================================
