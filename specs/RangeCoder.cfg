SPECIFICATION Spec
CONSTANTS Alphabets = {2, 3, 4, 8, 16} MaxLen = 3
  RSamples = {32768, 32769, 33023, 33024, 40000, 49151, 49152, 57343, 65280, 65534, 65535}
INVARIANTS RangeOK TableOK IntervalsOK BoolOK
CHECK_DEADLOCK FALSE
