SPECIFICATION Spec
CONSTANTS MaxSend = 2
INVARIANTS TypeOK RejectedStaysUsable
CHECK_DEADLOCK FALSE
