SPECIFICATION FairSpec
CONSTANT Pop = "diffflags"
INVARIANT TypeOK
INVARIANT NoInterference
PROPERTY Completes
CHECK_DEADLOCK FALSE
