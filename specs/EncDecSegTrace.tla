-------------------------- MODULE EncDecSegTrace --------------------------
(***************************************************************************)
(* Trace validation of the real EncDec segment scheduler against           *)
(* EncDecSeg.tla.  One instance = one EncDecSegments object for one        *)
(* picture / tile group: it starts with InitSeg (which carries the inputs  *)
(* of enc_dec_segments_init), is followed by the tables the C code         *)
(* computed (compared entry by entry with Geo(...)), then by the events of *)
(* assign_enc_dec_segments and of the superblock loop, and ends with the   *)
(* synthetic EndSeg record the recorder appends when the encode completed. *)
(***************************************************************************)
EXTENDS EncDecSeg, TLC, Json, IOUtils

Tr == ndJsonDeserialize(IOEnv.TRACE)
Tids == {Tr[i].t : i \in 1 .. Len(Tr)}

VARIABLES l, g, dep, cur, bag, mdc, st, wseg, wpos, wself, wgot, wfb, done
tvars == <<l, g, dep, cur, bag, mdc, st, wseg, wpos, wself, wgot, wfb, done>>

Ev == Tr[l]
T == Ev.t
A(i) == Ev.a[i]
IsEv(e) == l <= Len(Tr) /\ Ev.ev = e /\ l' = l + 1

EmptyGeo == Geo(1, 1, 1, 1, 1)
TraceInit ==
  /\ l = 1 /\ g = EmptyGeo /\ dep = EmptyGeo.dep0 /\ cur = EmptyGeo.rStart
  /\ bag = [r \in {} |-> 0] /\ mdc = FALSE
  /\ st = [t \in Tids |-> "idle"] /\ wseg = [t \in Tids |-> NONE] /\ wpos = [t \in Tids |-> 0]
  /\ wself = [t \in Tids |-> FALSE] /\ wgot = [t \in Tids |-> NONE] /\ wfb = [t \in Tids |-> NONE]
  /\ done = [p \in {} |-> 0]

TInitSeg ==
  /\ IsEv("InitSeg")
  /\ LET ng == Geo(A(1), A(2), A(3), A(4), A(7)) IN
       /\ ng.sr = A(5) /\ ng.segBand = A(6)           \* the C code derived the same grid
       /\ LoopMatchesMap(ng) /\ AllSbCovered(ng) /\ IntraSegOrder(ng)
       /\ g' = ng /\ dep' = ng.dep0 /\ cur' = ng.rStart
       /\ bag' = [r \in 0 .. ng.sr - 1 |-> 0]
       /\ done' = [p \in (0 .. ng.W - 1) \X (0 .. ng.H - 1) |-> 0]
  /\ mdc' = TRUE
  /\ st' = [t \in Tids |-> "idle"] /\ wseg' = [t \in Tids |-> NONE] /\ wpos' = [t \in Tids |-> 0]
  /\ wself' = [t \in Tids |-> FALSE] /\ wgot' = [t \in Tids |-> NONE] /\ wfb' = [t \in Tids |-> NONE]

Same == UNCHANGED <<g, dep, cur, bag, mdc, st, wseg, wpos, wself, wgot, wfb, done>>
TSegRow == IsEv("SegRow") /\ A(1) \in 0 .. g.sr - 1 /\ g.rStart[A(1)] = A(2) /\ g.rEnd[A(1)] = A(3) /\ Same
TSegDef ==
  /\ IsEv("SegDef") /\ A(1) \in 0 .. g.ttl - 1
  /\ g.valid[A(1)] = A(2) /\ g.xs[A(1)] = A(3) /\ g.ys[A(1)] = A(4) /\ g.dep0[A(1)] = A(5)
  /\ Same

(* ENCDEC_TASKS_MDC_INPUT *)
TStartMdc ==
  /\ IsEv("SegStartMdc") /\ mdc /\ st[T] = "idle"
  /\ A(1) = g.rStart[0] /\ g.valid[A(1)] > 0
  /\ mdc' = FALSE
  /\ cur' = [r \in DOMAIN cur |-> IF r = 0 THEN g.rStart[0] + 1 ELSE g.rStart[r]]
  /\ wseg' = [wseg EXCEPT ![T] = A(1)] /\ st' = [st EXCEPT ![T] = "started"]
  /\ UNCHANGED <<g, dep, bag, wpos, wself, wgot, wfb, done>>
(* ENCDEC_TASKS_ENCDEC_INPUT: a feedback task for that row must have been posted *)
TStartRow ==
  /\ IsEv("SegStartRow") /\ st[T] = "idle"
  /\ A(1) \in DOMAIN bag /\ bag[A(1)] > 0
  /\ A(2) = cur[A(1)] /\ A(2) \in 0 .. g.ttl - 1 /\ g.valid[A(2)] > 0 /\ dep[A(2)] = 0
  /\ bag' = [bag EXCEPT ![A(1)] = @ - 1]
  /\ cur' = [cur EXCEPT ![A(1)] = @ + 1]
  /\ wseg' = [wseg EXCEPT ![T] = A(2)] /\ st' = [st EXCEPT ![T] = "started"]
  /\ UNCHANGED <<g, dep, mdc, wpos, wself, wgot, wfb, done>>

(* superblock loop: the k-th superblock of the segment in kernel-loop order; its left, upper-left, *)
(* upper and upper-right neighbours inside the picture have FINISHED                                 *)
TSbStart ==
  /\ IsEv("SbStart") /\ st[T] = "run" /\ wseg[T] = A(1)
  /\ LET o == SegOrder(g, A(1))  p == <<A(2), A(3)>> IN
       /\ wpos[T] < Len(o) /\ o[wpos[T] + 1] = p
       /\ done[p] = 0
       /\ \A q \in Nbrs(g, p[1], p[2]) : done[q] = 2
       /\ done' = [done EXCEPT ![p] = 1]
  /\ st' = [st EXCEPT ![T] = "sb"]
  /\ UNCHANGED <<g, dep, cur, bag, mdc, wseg, wpos, wself, wgot, wfb>>
TSbEnd ==
  /\ IsEv("SbEnd") /\ st[T] = "sb" /\ wseg[T] = A(1)
  /\ LET o == SegOrder(g, A(1))  p == <<A(2), A(3)>> IN
       /\ o[wpos[T] + 1] = p /\ done[p] = 1
       /\ done' = [done EXCEPT ![p] = 2]
       /\ wpos' = [wpos EXCEPT ![T] = @ + 1]
       /\ st' = [st EXCEPT ![T] = IF wpos[T] + 1 = Len(o) THEN "fin" ELSE "run"]
  /\ UNCHANGED <<g, dep, cur, bag, mdc, wseg, wself, wgot, wfb>>

(* ENCDEC_TASKS_CONTINUE *)
TRight ==
  /\ IsEv("SegRight") /\ st[T] = "fin" /\ wseg[T] = A(1)
  /\ LET e == RightEffect(g, dep, cur, A(1)) IN
       /\ e.taken /\ e.dep[A(1) + 1] = A(2) /\ e.got = A(3)
       /\ e.got # NONE => (g.valid[e.got] > 0 /\ e.dep[e.got] = 0)
       /\ dep' = e.dep /\ cur' = e.cur
       /\ wgot' = [wgot EXCEPT ![T] = e.got] /\ wself' = [wself EXCEPT ![T] = e.got # NONE]
  /\ st' = [st EXCEPT ![T] = "r_done"]
  /\ UNCHANGED <<g, bag, mdc, wseg, wpos, wfb, done>>
TBL ==
  /\ IsEv("SegBL") /\ wseg[T] = A(1)
  /\ \/ st[T] = "r_done"
     \/ st[T] = "fin" /\ ~RightEffect(g, dep, cur, A(1)).taken     \* no right neighbour: nothing was logged
  /\ LET e == BLEffect(g, dep, cur, A(1), wself[T]) IN
       /\ e.taken /\ e.dep[A(1) + g.segBand] = A(2) /\ e.got = A(3)
       /\ (IF e.fb = NONE THEN A(4) = -1 ELSE A(4) = e.fb)
       /\ e.got # NONE => (g.valid[e.got] > 0 /\ e.dep[e.got] = 0)
       /\ dep' = e.dep /\ cur' = e.cur
       /\ wgot' = [wgot EXCEPT ![T] = IF e.got # NONE THEN e.got ELSE @]
       /\ wfb' = [wfb EXCEPT ![T] = e.fb]
  /\ st' = [st EXCEPT ![T] = "bl_done"]
  /\ UNCHANGED <<g, bag, mdc, wseg, wpos, wself, done>>
TFeedback ==
  /\ IsEv("SegFeedback") /\ st[T] = "bl_done" /\ wfb[T] = A(1) /\ A(1) \in DOMAIN bag
  /\ bag' = [bag EXCEPT ![A(1)] = @ + 1]
  /\ wfb' = [wfb EXCEPT ![T] = NONE]
  /\ UNCHANGED <<g, dep, cur, mdc, st, wseg, wpos, wself, wgot, done>>
(* return of assign_enc_dec_segments: no obligatory step may have been skipped *)
TRet ==
  /\ IsEv("SegRet")
  /\ \/ /\ st[T] = "started" /\ A(1) = 1 /\ A(2) = wseg[T]
        /\ st' = [st EXCEPT ![T] = "run"]
        /\ wpos' = [wpos EXCEPT ![T] = 0]
        /\ UNCHANGED <<wseg, wself, wgot>>
     \/ /\ st[T] \in {"fin", "r_done", "bl_done"}
        /\ st[T] = "fin" => ~RightEffect(g, dep, cur, wseg[T]).taken
        /\ st[T] \in {"fin", "r_done"} => ~BLEffect(g, dep, cur, wseg[T], wself[T]).taken
        /\ wfb[T] = NONE                              \* a due feedback task was posted
        /\ (A(1) = 1) <=> (wgot[T] # NONE)
        /\ wgot[T] # NONE => A(2) = wgot[T]
        /\ wseg' = [wseg EXCEPT ![T] = wgot[T]]
        /\ st' = [st EXCEPT ![T] = IF wgot[T] # NONE THEN "run" ELSE "idle"]
        /\ wpos' = [wpos EXCEPT ![T] = 0]
        /\ wself' = [wself EXCEPT ![T] = FALSE] /\ wgot' = [wgot EXCEPT ![T] = NONE]
  /\ UNCHANGED <<g, dep, cur, bag, mdc, wfb, done>>

(* appended by the recorder after a completed encode: the picture was completed *)
TEndSeg ==
  /\ IsEv("EndSeg")
  /\ \A p \in DOMAIN done : done[p] = 2
  /\ \A t \in Tids : st[t] = "idle"
  /\ \A r \in DOMAIN bag : bag[r] = 0
  /\ ~mdc
  /\ Same

TraceInv == \A s \in DOMAIN dep : dep[s] >= 0

TraceNext ==
  /\ \/ TInitSeg \/ TSegRow \/ TSegDef \/ TStartMdc \/ TStartRow \/ TSbStart \/ TSbEnd
     \/ TRight \/ TBL \/ TFeedback \/ TRet \/ TEndSeg
  /\ TraceInv'
TraceSpec == TraceInit /\ [][TraceNext]_tvars
TraceAccepted == TLCGet("stats").diameter - 1 = Len(Tr)
=============================================================================
