\* MODEL-ONLY OBSERVATION (expected to FAIL): non-blocking gets with two consumer fifos over-push the
\* process circular buffer (capacity = number of fifos) and leave a phantom NULL entry.  Not reachable
\* through the encoder, which uses the non-blocking get only on single-consumer resources.
SPECIFICATION Spec
CONSTANTS NO = 3 NP = 1 NC = 2 MaxOps = 3 WithShutdown = FALSE WithNonBlocking = TRUE MaxInc = 0
INVARIANTS NoLossNoDup
CHECK_DEADLOCK FALSE
