SPECIFICATION Spec
CONSTANTS R = 4
C = 3
Wait = "col0"
INVARIANT NoHazard
CHECK_DEADLOCK FALSE
