SPECIFICATION Spec
CONSTANTS NS = 3  NB = 5
INVARIANT NeverAllBusy
CHECK_DEADLOCK FALSE
