\* 2 objects, 2 producers, 2 consumers, 2 ops, shutdown; blocking gets only
SPECIFICATION Spec
CONSTANTS NO = 2 NP = 2 NC = 2 MaxOps = 2 WithShutdown = TRUE WithNonBlocking = FALSE MaxInc = 0
INVARIANTS TypeOK NoDup NoMissedAssign SemCountsList WaitedFindsObject NoLossNoDup NoDoubleHolder PostOrder ReturnedIffReleased
CHECK_DEADLOCK FALSE
