------------------------------- MODULE SRM -------------------------------
(***************************************************************************)
(* System resource manager of SVT-AV1                                      *)
(*   Source/Lib/Common/Codec/EbSystemResourceManager.c                     *)
(*                                                                         *)
(* One action per critical section / logged linearization point.  The two  *)
(* muxing queues (q = 0: empty queue, q = 1: full queue) each consist of   *)
(* an object circular buffer, a process circular buffer and one EbFifo per *)
(* registered process.  Circular buffers are modelled exactly as the C     *)
(* code implements them (array + head + tail, emptiness test               *)
(* head = tail /\ arr[head] = NULL) because the non-blocking get re-queues *)
(* the caller's fifo on every call and so over-pushes the process buffer.  *)
(*                                                                         *)
(* The muxing-queue mutex is an explicit variable (it is held across the   *)
(* whole assignation loop); the per-fifo mutex protects leaf sections only *)
(* and is therefore not a variable.  Semaphore post / wait are separate    *)
(* steps from the list update, as in the code.                             *)
(*                                                                         *)
(* This module contains the data actions only (parameterised by thread t). *)
(* SRMMC adds client programs for exhaustive checking, SRMTrace binds the  *)
(* actions to events recorded from the real code.                          *)
(***************************************************************************)
EXTENDS Integers, Sequences, FiniteSets

NULL == -1          \* empty slot of a circular buffer / "no fifo" / "no thread"
Released == -1      \* EB_ObjectWrapperReleasedValue (~0u) read as a signed 32-bit value

VARIABLES
  sz,      \* [obj, prod, cons] : sizes given to svt_system_resource_ctor
  objQ,    \* [0..1 -> circular buffer of object indices]
  procQ,   \* [0..1 -> circular buffer of fifo indices]
  list,    \* [0..1 -> [fifo index -> Seq(object index)]]   EbFifo linked lists
  sem,     \* [0..1 -> [fifo index -> Nat]]                 EbFifo.counting_semaphore
  quit,    \* [consumer fifo index -> BOOLEAN]              EbFifo.quit_signal
  live,    \* [object -> Int]                               EbObjectWrapper.live_count (signed view)
  relEn,   \* [object -> BOOLEAN]                           EbObjectWrapper.release_enable
  qLock,   \* [0..1 -> thread | NULL]  holder of the muxing-queue mutex (only while the assignation loop has work)
  pend,    \* [0..1 -> fifo | NULL]    fifo pushed by the assigner whose semaphore is not posted yet
  waited   \* [thread -> <<q,f>> | <<>>] thread has returned from the semaphore wait and not popped yet

srmVars == <<sz, objQ, procQ, list, sem, quit, live, relEn, qLock, pend, waited>>

Objs  == 0 .. sz.obj - 1
NFifo(q) == IF q = 0 THEN sz.prod ELSE sz.cons
Fifos(q) == 0 .. NFifo(q) - 1

-----------------------------------------------------------------------------
(* circular buffers: EbCircularBuffer, :111-190 *)
CBNew(cap)  == [cap |-> cap, arr |-> [i \in 0 .. cap - 1 |-> NULL], head |-> 0, tail |-> 0]
CBEmpty(cb) == cb.cap = 0 \/ (cb.head = cb.tail /\ cb.arr[cb.head] = NULL)
CBFront(cb) == cb.arr[cb.head]
CBPop(cb)   == [cb EXCEPT !.arr[cb.head] = NULL,
                          !.head = IF cb.head = cb.cap - 1 THEN 0 ELSE cb.head + 1]
CBPushBack(cb, x)  == [cb EXCEPT !.arr[cb.tail] = x,
                                 !.tail = IF cb.tail = cb.cap - 1 THEN 0 ELSE cb.tail + 1]
CBPushFront(cb, x) == LET h == IF cb.head = 0 THEN cb.cap - 1 ELSE cb.head - 1
                      IN  [cb EXCEPT !.arr[h] = x, !.head = h]
CBElems(cb) == {cb.arr[i] : i \in 0 .. cb.cap - 1} \ {NULL}
CBCount(cb, x) == Cardinality({i \in 0 .. cb.cap - 1 : cb.arr[i] = x})

CanAssign(oq, pq) == ~CBEmpty(oq) /\ ~CBEmpty(pq)     \* loop condition of svt_muxing_queue_assignation
LockAfter(t, oq, pq) == IF CanAssign(oq, pq) THEN t ELSE NULL

-----------------------------------------------------------------------------
InitSizes(no, np, nc, Thr) ==
  /\ sz = [obj |-> no, prod |-> np, cons |-> nc]
  /\ objQ  = [q \in 0 .. 1 |-> CBNew(no)]
  /\ procQ = [q \in 0 .. 1 |-> CBNew(IF q = 0 THEN np ELSE nc)]
  /\ list  = [q \in 0 .. 1 |-> [f \in 0 .. (IF q = 0 THEN np ELSE nc) - 1 |-> <<>>]]
  /\ sem   = [q \in 0 .. 1 |-> [f \in 0 .. (IF q = 0 THEN np ELSE nc) - 1 |-> 0]]
  /\ quit  = [f \in 0 .. nc - 1 |-> FALSE]
  /\ live  = [o \in 0 .. no - 1 |-> 0]
  /\ relEn = [o \in 0 .. no - 1 |-> TRUE]
  /\ qLock = [q \in 0 .. 1 |-> NULL]
  /\ pend  = [q \in 0 .. 1 |-> NULL]
  /\ waited = [t \in Thr |-> <<>>]

(* svt_system_resource_ctor :459-464: fill the empty queue with every wrapper.  The process queue *)
(* is empty at that time, so the assignation loop does nothing.                                   *)
Fill(o) ==
  /\ qLock[0] = NULL
  /\ objQ' = [objQ EXCEPT ![0] = CBPushBack(@, o)]
  /\ UNCHANGED <<sz, procQ, list, sem, quit, live, relEn, qLock, pend, waited>>

(* svt_release_process :514-526: lock the muxing queue, push the caller's fifo to the FRONT of the *)
(* process queue, run the assignation loop, unlock.                                               *)
RelProc(t, q, f) ==
  /\ qLock[q] = NULL
  /\ f \in Fifos(q)
  /\ LET pq == CBPushFront(procQ[q], f) IN
       /\ procQ' = [procQ EXCEPT ![q] = pq]
       /\ qLock' = [qLock EXCEPT ![q] = LockAfter(t, objQ[q], pq)]
  /\ UNCHANGED <<sz, objQ, list, sem, quit, live, relEn, pend, waited>>

(* one iteration of svt_muxing_queue_assignation :234-262, first half: pop a (process, object)    *)
(* pair and push the object on the process' fifo (under that fifo's mutex).                        *)
Assign(t, q) ==
  /\ qLock[q] = t
  /\ pend[q] = NULL
  /\ CanAssign(objQ[q], procQ[q])
  /\ LET f == CBFront(procQ[q])
         o == CBFront(objQ[q]) IN
       /\ procQ' = [procQ EXCEPT ![q] = CBPop(@)]
       /\ objQ'  = [objQ  EXCEPT ![q] = CBPop(@)]
       /\ list'  = [list  EXCEPT ![q][f] = Append(@, o)]
       /\ pend'  = [pend  EXCEPT ![q] = f]
  /\ UNCHANGED <<sz, sem, quit, live, relEn, qLock, waited>>

(* second half: post the fifo's semaphore; the loop then either continues or the mutex is released *)
AssignPost(t, q) ==
  /\ qLock[q] = t
  /\ pend[q] # NULL
  /\ sem'   = [sem EXCEPT ![q][pend[q]] = @ + 1]
  /\ pend'  = [pend EXCEPT ![q] = NULL]
  /\ qLock' = [qLock EXCEPT ![q] = LockAfter(t, objQ[q], procQ[q])]
  /\ UNCHANGED <<sz, objQ, procQ, list, quit, live, relEn, waited>>

(* svt_block_on_semaphore returning, :607 / :649 *)
SemWait(t, q, f) ==
  /\ waited[t] = <<>>
  /\ f \in Fifos(q)
  /\ sem[q][f] > 0
  /\ sem' = [sem EXCEPT ![q][f] = @ - 1]
  /\ waited' = [waited EXCEPT ![t] = <<q, f>>]
  /\ UNCHANGED <<sz, objQ, procQ, list, quit, live, relEn, qLock, pend>>

(* svt_get_empty_object :610-623 under the fifo mutex *)
PopEmpty(t, f) ==
  /\ waited[t] = <<0, f>>
  /\ list[0][f] # <<>>
  /\ LET o == Head(list[0][f]) IN
       /\ list'  = [list EXCEPT ![0][f] = Tail(@)]
       /\ live'  = [live EXCEPT ![o] = 0]
       /\ relEn' = [relEn EXCEPT ![o] = TRUE]
  /\ waited' = [waited EXCEPT ![t] = <<>>]
  /\ UNCHANGED <<sz, objQ, procQ, sem, quit, qLock, pend>>

(* svt_get_full_object :652-662 under the fifo mutex *)
PopFull(t, f) ==
  /\ waited[t] = <<1, f>>
  /\ ~quit[f]
  /\ list[1][f] # <<>>
  /\ list' = [list EXCEPT ![1][f] = Tail(@)]
  /\ waited' = [waited EXCEPT ![t] = <<>>]
  /\ UNCHANGED <<sz, objQ, procQ, sem, quit, live, relEn, qLock, pend>>

PopQuit(t, f) ==
  /\ waited[t] = <<1, f>>
  /\ quit[f]
  /\ waited' = [waited EXCEPT ![t] = <<>>]
  /\ UNCHANGED <<sz, objQ, procQ, list, sem, quit, live, relEn, qLock, pend>>

(* svt_get_full_object_non_blocking :687-697: result of the peek under the fifo mutex *)
PeekEmpty(f) == quit[f] \/ list[1][f] = <<>>

(* svt_post_full_object :542-552 *)
PostFull(t, o) ==
  /\ qLock[1] = NULL
  /\ sz.cons > 0
  /\ LET oq == CBPushBack(objQ[1], o) IN
       /\ objQ'  = [objQ EXCEPT ![1] = oq]
       /\ qLock' = [qLock EXCEPT ![1] = LockAfter(t, oq, procQ[1])]
  /\ UNCHANGED <<sz, procQ, list, sem, quit, live, relEn, pend, waited>>

(* svt_release_object :564-584: saturating decrement; return to the FRONT of the empty queue when   *)
(* release is enabled and the count reached zero                                                    *)
LiveAfterDec(o) == IF live[o] = 0 THEN 0 ELSE live[o] - 1
ReleaseReturns(o) == relEn[o] /\ LiveAfterDec(o) = 0
Release(t, o) ==
  /\ qLock[0] = NULL
  /\ IF ReleaseReturns(o)
       THEN LET oq == CBPushFront(objQ[0], o) IN
              /\ live'  = [live EXCEPT ![o] = Released]
              /\ objQ'  = [objQ EXCEPT ![0] = oq]
              /\ qLock' = [qLock EXCEPT ![0] = LockAfter(t, oq, procQ[0])]
       ELSE /\ live' = [live EXCEPT ![o] = LiveAfterDec(o)]
            /\ UNCHANGED <<objQ, qLock>>
  /\ UNCHANGED <<sz, procQ, list, sem, quit, relEn, pend, waited>>

(* svt_object_inc_live_count :355-365 (under the empty queue's mutex) *)
IncLive(t, o, n) ==
  /\ qLock[0] = NULL
  /\ live' = [live EXCEPT ![o] = @ + n]
  /\ UNCHANGED <<sz, objQ, procQ, list, sem, quit, relEn, qLock, pend, waited>>

(* svt_object_release_enable / _disable :309-341 *)
SetRelEnable(t, o, b) ==
  /\ qLock[0] = NULL
  /\ relEn' = [relEn EXCEPT ![o] = b]
  /\ UNCHANGED <<sz, objQ, procQ, list, sem, quit, live, qLock, pend, waited>>

(* svt_fifo_shutdown :86-98, first the flag under the fifo mutex, then the post *)
ShutdownSet(t, f) ==
  /\ f \in Fifos(1)
  /\ quit' = [quit EXCEPT ![f] = TRUE]
  /\ UNCHANGED <<sz, objQ, procQ, list, sem, live, relEn, qLock, pend, waited>>
ShutdownPost(t, f) ==
  /\ f \in Fifos(1)
  /\ sem' = [sem EXCEPT ![1][f] = @ + 1]
  /\ UNCHANGED <<sz, objQ, procQ, list, quit, live, relEn, qLock, pend, waited>>

-----------------------------------------------------------------------------
(* Properties that need no knowledge of the clients                                               *)

Places(o) ==   \* number of places of the manager in which object o currently sits
    CBCount(objQ[0], o) + CBCount(objQ[1], o)
  + Cardinality({<<q, f, i>> \in {<<qq, ff, ii>> \in (0 .. 1) \X (0 .. sz.prod + sz.cons) \X (1 .. sz.obj) :
                                    ff \in Fifos(qq) /\ ii <= Len(list[qq][ff])} : list[q][f][i] = o})

(* never lost into two places: an object is in at most one queue / fifo of the manager *)
NoDup == \A o \in Objs : Places(o) <= 1

(* an object in the empty side is marked released; one that is marked released is in the empty side *)
(* or was handed out by PopEmpty (which resets the count) -- "returned exactly at the last release" *)
EmptySideReleased ==
  \A o \in Objs : (CBCount(objQ[0], o) > 0 \/ \E f \in Fifos(0) : \E i \in 1 .. Len(list[0][f]) : list[0][f][i] = o)
                     => live[o] \in {0, Released}   \* 0 only before the first hand-out (ctor fill)

(* no (object, process) pair is left unassigned while nobody runs the assignation loop *)
NoMissedAssign == \A q \in 0 .. 1 : qLock[q] = NULL => ~CanAssign(objQ[q], procQ[q])

(* the semaphore counts the list: on every fifo that is not shutting down, each queued object is   *)
(* matched by exactly one semaphore unit, pending post, or thread that has passed the wait and not  *)
(* popped yet.  (Hence in a quiescent state a non-empty list has a non-zero semaphore: the safety   *)
(* core of "wakes a blocked consumer whenever an object is available for it".)                      *)
WaitersOn(q, f) == Cardinality({t \in DOMAIN waited : waited[t] = <<q, f>>})
SemCountsList ==
  \A q \in 0 .. 1 : \A f \in Fifos(q) :
     (q = 1 /\ quit[f]) \/
       sem[q][f] + WaitersOn(q, f) + (IF pend[q] = f THEN 1 ELSE 0) = Len(list[q][f])

(* a thread that passed the wait on a fifo finds an object there (or the quit flag) *)
WaitedFindsObject ==
  \A t \in DOMAIN waited : waited[t] # <<>> =>
     LET q == waited[t][1]  f == waited[t][2] IN
       list[q][f] # <<>> \/ (q = 1 /\ quit[f])

=============================================================================
