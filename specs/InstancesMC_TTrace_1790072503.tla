---- MODULE InstancesMC_TTrace_1790072503 ----
EXTENDS Sequences, TLCExt, InstancesMC, Toolbox, Naturals, TLC

_expression ==
    LET InstancesMC_TEExpression == INSTANCE InstancesMC_TEExpression
    IN InstancesMC_TEExpression!expression
----

_trace ==
    LET InstancesMC_TETrace == INSTANCE InstancesMC_TETrace
    IN InstancesMC_TETrace!trace
----

_inv ==
    ~(
        TLCGet("level") = Len(_TETrace)
        /\
        mine = (<<>>)
        /\
        head = (<<>>)
        /\
        builders = ({})
        /\
        bad = ({<<"e1", "dispatch table of another instance">>})
        /\
        dst = (<<>>)
        /\
        rtcd = ({"c", "avx2"})
        /\
        est = ([e1 |-> "run", e2 |-> "run"])
        /\
        ecnt = ([e1 |-> 1, e2 |-> 0])
        /\
        dcnt = (<<>>)
        /\
        ports = (7)
        /\
        geom = (64)
    )
----

_init ==
    /\ mine = _TETrace[1].mine
    /\ bad = _TETrace[1].bad
    /\ est = _TETrace[1].est
    /\ ports = _TETrace[1].ports
    /\ geom = _TETrace[1].geom
    /\ dst = _TETrace[1].dst
    /\ rtcd = _TETrace[1].rtcd
    /\ ecnt = _TETrace[1].ecnt
    /\ builders = _TETrace[1].builders
    /\ dcnt = _TETrace[1].dcnt
    /\ head = _TETrace[1].head
----

_next ==
    /\ \E i,j \in DOMAIN _TETrace:
        /\ \/ /\ j = i + 1
              /\ i = TLCGet("level")
        /\ mine  = _TETrace[i].mine
        /\ mine' = _TETrace[j].mine
        /\ bad  = _TETrace[i].bad
        /\ bad' = _TETrace[j].bad
        /\ est  = _TETrace[i].est
        /\ est' = _TETrace[j].est
        /\ ports  = _TETrace[i].ports
        /\ ports' = _TETrace[j].ports
        /\ geom  = _TETrace[i].geom
        /\ geom' = _TETrace[j].geom
        /\ dst  = _TETrace[i].dst
        /\ dst' = _TETrace[j].dst
        /\ rtcd  = _TETrace[i].rtcd
        /\ rtcd' = _TETrace[j].rtcd
        /\ ecnt  = _TETrace[i].ecnt
        /\ ecnt' = _TETrace[j].ecnt
        /\ builders  = _TETrace[i].builders
        /\ builders' = _TETrace[j].builders
        /\ dcnt  = _TETrace[i].dcnt
        /\ dcnt' = _TETrace[j].dcnt
        /\ head  = _TETrace[i].head
        /\ head' = _TETrace[j].head

\* Uncomment the ASSUME below to write the states of the error trace
\* to the given file in Json format. Note that you can pass any tuple
\* to `JsonSerialize`. For example, a sub-sequence of _TETrace.
    \* ASSUME
    \*     LET J == INSTANCE Json
    \*         IN J!JsonSerialize("InstancesMC_TTrace_1790072503.json", _TETrace)

=============================================================================

 Note that you can extract this module `InstancesMC_TEExpression`
  to a dedicated file to reuse `expression` (the module in the 
  dedicated `InstancesMC_TEExpression.tla` file takes precedence 
  over the module `InstancesMC_TEExpression` below).

---- MODULE InstancesMC_TEExpression ----
EXTENDS Sequences, TLCExt, InstancesMC, Toolbox, Naturals, TLC

expression == 
    [
        \* To hide variables of the `InstancesMC` spec from the error trace,
        \* remove the variables below.  The trace will be written in the order
        \* of the fields of this record.
        mine |-> mine
        ,bad |-> bad
        ,est |-> est
        ,ports |-> ports
        ,geom |-> geom
        ,dst |-> dst
        ,rtcd |-> rtcd
        ,ecnt |-> ecnt
        ,builders |-> builders
        ,dcnt |-> dcnt
        ,head |-> head
        
        \* Put additional constant-, state-, and action-level expressions here:
        \* ,_stateNumber |-> _TEPosition
        \* ,_mineUnchanged |-> mine = mine'
        
        \* Format the `mine` variable as Json value.
        \* ,_mineJson |->
        \*     LET J == INSTANCE Json
        \*     IN J!ToJson(mine)
        
        \* Lastly, you may build expressions over arbitrary sets of states by
        \* leveraging the _TETrace operator.  For example, this is how to
        \* count the number of times a spec variable changed up to the current
        \* state in the trace.
        \* ,_mineModCount |->
        \*     LET F[s \in DOMAIN _TETrace] ==
        \*         IF s = 1 THEN 0
        \*         ELSE IF _TETrace[s].mine # _TETrace[s-1].mine
        \*             THEN 1 + F[s-1] ELSE F[s-1]
        \*     IN F[_TEPosition - 1]
    ]

=============================================================================



Parsing and semantic processing can take forever if the trace below is long.
 In this case, it is advised to uncomment the module below to deserialize the
 trace from a generated binary file.

\*
\*---- MODULE InstancesMC_TETrace ----
\*EXTENDS IOUtils, InstancesMC, TLC
\*
\*trace == IODeserialize("InstancesMC_TTrace_1790072503.bin", TRUE)
\*
\*=============================================================================
\*

---- MODULE InstancesMC_TETrace ----
EXTENDS InstancesMC, TLC

trace == 
    <<
    ([mine |-> <<>>,head |-> <<>>,builders |-> {},bad |-> {},dst |-> <<>>,rtcd |-> {},est |-> [e1 |-> "new", e2 |-> "new"],ecnt |-> [e1 |-> 0, e2 |-> 0],dcnt |-> <<>>,ports |-> 0,geom |-> 0]),
    ([mine |-> <<>>,head |-> <<>>,builders |-> {"e1"},bad |-> {},dst |-> <<>>,rtcd |-> {},est |-> [e1 |-> "init", e2 |-> "new"],ecnt |-> [e1 |-> 0, e2 |-> 0],dcnt |-> <<>>,ports |-> 4,geom |-> 0]),
    ([mine |-> <<>>,head |-> <<>>,builders |-> {},bad |-> {},dst |-> <<>>,rtcd |-> {"c"},est |-> [e1 |-> "run", e2 |-> "new"],ecnt |-> [e1 |-> 0, e2 |-> 0],dcnt |-> <<>>,ports |-> 4,geom |-> 64]),
    ([mine |-> <<>>,head |-> <<>>,builders |-> {"e2"},bad |-> {},dst |-> <<>>,rtcd |-> {"c"},est |-> [e1 |-> "run", e2 |-> "init"],ecnt |-> [e1 |-> 0, e2 |-> 0],dcnt |-> <<>>,ports |-> 7,geom |-> 64]),
    ([mine |-> <<>>,head |-> <<>>,builders |-> {},bad |-> {},dst |-> <<>>,rtcd |-> {"c", "avx2"},est |-> [e1 |-> "run", e2 |-> "run"],ecnt |-> [e1 |-> 0, e2 |-> 0],dcnt |-> <<>>,ports |-> 7,geom |-> 64]),
    ([mine |-> <<>>,head |-> <<>>,builders |-> {},bad |-> {<<"e1", "dispatch table of another instance">>},dst |-> <<>>,rtcd |-> {"c", "avx2"},est |-> [e1 |-> "run", e2 |-> "run"],ecnt |-> [e1 |-> 1, e2 |-> 0],dcnt |-> <<>>,ports |-> 7,geom |-> 64])
    >>
----


=============================================================================

---- CONFIG InstancesMC_TTrace_1790072503 ----
CONSTANTS
    Ser = TRUE
    Bar = TRUE
    Pop = "diffflags"

INVARIANT
    _inv

CHECK_DEADLOCK
    \* CHECK_DEADLOCK off because of PROPERTY or INVARIANT above.
    FALSE

INIT
    _init

NEXT
    _next

CONSTANT
    _TETrace <- _trace

ALIAS
    _expression
=============================================================================
\* Generated on Tue Sep 22 10:21:44 UTC 2026