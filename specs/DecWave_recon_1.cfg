SPECIFICATION FairSpec
CONSTANTS R = 3  W = 4  T = 3  Kind = "recon"  Slip = 1
INVARIANT NoEarlyStart
INVARIANT NoStall
PROPERTY Completes
CHECK_DEADLOCK FALSE
