SPECIFICATION FairSpec
CONSTANTS R = 3  W = 1  T = 2  Kind = "lr"  Slip = 0
INVARIANT NoEarlyStart
INVARIANT NoStall
PROPERTY Completes
CHECK_DEADLOCK FALSE
