\* 3 objects, 2 producers, 1 consumer using non-blocking and blocking gets (the only way the encoder
\* uses the non-blocking get: application output fifos with a single consumer), extra live counts, shutdown
SPECIFICATION Spec
CONSTANTS NO = 3 NP = 2 NC = 1 MaxOps = 3 WithShutdown = TRUE WithNonBlocking = TRUE MaxInc = 2
INVARIANTS TypeOK NoDup NoMissedAssign SemCountsList WaitedFindsObject NoLossNoDup NoDoubleHolder PostOrder ReturnedIffReleased
CHECK_DEADLOCK FALSE
