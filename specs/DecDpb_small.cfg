SPECIFICATION Spec
CONSTANTS NS = 3  NB = 3
INVARIANT NoBad
CHECK_DEADLOCK FALSE
