SPECIFICATION Spec
CONSTANT Pop = "same"
INVARIANT NeverOverlap
CHECK_DEADLOCK FALSE
