SPECIFICATION Spec
CONSTANT Ser = FALSE
CONSTANT Bar = FALSE
CONSTANT Pop = "same"
INVARIANT NeverOverlap
CHECK_DEADLOCK FALSE
