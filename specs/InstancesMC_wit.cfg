SPECIFICATION Spec
CONSTANT Bar = FALSE
CONSTANT Pop = "same"
INVARIANT NeverOverlap
CHECK_DEADLOCK FALSE
