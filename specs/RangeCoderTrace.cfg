SPECIFICATION TraceSpec
CONSTANTS Alphabets = {2} MaxLen = 0 RSamples = {32768}
POSTCONDITION TraceAccepted
CHECK_DEADLOCK FALSE
