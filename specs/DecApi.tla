------------------------------- MODULE DecApi -------------------------------
(***************************************************************************)
(* Call protocol of the public DECODER API (C14, C15, C16, decoder half)   *)
(*   Source/Lib/Decoder/Codec/EbDecHandle.c                                *)
(*   svt_av1_dec_init_handle :481, _set_parameter :516, _init :529,        *)
(*   _frame :575, _get_picture :620, _deinit :638, _deinit_handle :689     *)
(* Same structure as Api.tla: the model is the documented behaviour        *)
(*  - NULL handle / NULL buffer arguments: an error code, no state change  *)
(*  - calls outside the protocol must return (any code) and leave the      *)
(*    session in a state that can still be torn down                       *)
(*  - deinit ; deinit_handle from ANY point return and release everything  *)
(* Each state carries the last call and the set of allowed outcome classes *)
(* ("ok", "err", "empty" = EB_DecNoOutputPicture); TLC enumerates the      *)
(* graph, every edge becomes a call program executed on the real library   *)
(* (harness/dec_api_replay.c).  Temporal units come from a valid stream;   *)
(* malformed data is property C10, not this one.                           *)
(***************************************************************************)
EXTENDS Integers, Sequences, FiniteSets, TLC
CONSTANTS MaxFrames      \* temporal units a program may submit

VARIABLES phase,   \* "none","created","configured","inited","limbo","deinited","destroyed"
          nfr,     \* temporal units decoded
          npic,    \* pictures fetched
          call, allow
vars == <<phase, nfr, npic, call, allow>>

Init == phase = "none" /\ nfr = 0 /\ npic = 0 /\ call = "-" /\ allow = {}
Step(c, a) == call' = c /\ allow' = a
Same == UNCHANGED <<phase, nfr, npic>>
AnyRet == {"ok", "err", "empty"}

NullCalls == {"dec_init_handle(NULL,cfg)", "dec_set_parameter(NULL,cfg)", "dec_init(NULL)", "dec_frame(NULL,tu)",
              "dec_get_picture(NULL,buf)", "dec_deinit(NULL)", "dec_deinit_handle(NULL)"}
NullCall == \E c \in NullCalls : phase # "destroyed" /\ Step(c, {"err"}) /\ Same
(* NULL argument with a VALID handle *)
NullArgCall ==
  \/ phase \in {"created", "configured"} /\ Step("dec_set_parameter(h,NULL)", {"err"}) /\ Same
  \/ phase = "inited" /\ Step("dec_get_picture(h,NULL)", {"err"}) /\ Same
  \/ phase = "inited" /\ Step("dec_frame(h,NULL,0)", AnyRet) /\ Same         \* nothing to decode: any code, no crash

InitHandle == phase = "none" /\ Step("dec_init_handle(&h,cfg)", {"ok"}) /\ phase' = "created" /\ UNCHANGED <<nfr, npic>>
SetParam == phase \in {"created", "configured"} /\ Step("dec_set_parameter(h,cfg)", {"ok"}) /\ phase' = "configured"
            /\ UNCHANGED <<nfr, npic>>
InitDec == phase = "configured" /\ Step("dec_init(h)", {"ok"}) /\ phase' = "inited" /\ UNCHANGED <<nfr, npic>>
Frame == phase = "inited" /\ nfr < MaxFrames /\ Step("dec_frame(h,tu)", {"ok"}) /\ nfr' = nfr + 1 /\ UNCHANGED <<phase, npic>>
(* one picture per temporal unit of the test stream.  Asking before any frame yields "no output picture"; asking again      *)
(* after a picture was fetched is documented to yield it too, but the library hands out the last picture again -- that is *)
(* about WHAT is returned, not about returning an error code instead of crashing, so either class is accepted here.        *)
GetPicture == phase = "inited" /\ Step("dec_get_picture(h,buf)", IF npic < nfr THEN {"ok"} ELSE IF nfr = 0 THEN {"empty"} ELSE {"ok", "empty"})
              /\ npic' = (IF npic < nfr THEN nfr ELSE npic) /\ UNCHANGED <<phase, nfr>>

OutOfOrder ==
  \E c \in {"dec_init(h)", "dec_frame(h,tu)", "dec_get_picture(h,buf)", "dec_set_parameter(h,cfg)"} :
    /\ \/ phase = "created" /\ c # "dec_set_parameter(h,cfg)"
       \/ phase = "configured" /\ c \in {"dec_frame(h,tu)", "dec_get_picture(h,buf)"}
       \/ phase = "inited" /\ c \in {"dec_init(h)", "dec_set_parameter(h,cfg)"}
       \/ phase = "deinited"
    /\ Step(c, AnyRet) /\ phase' = (IF phase = "deinited" THEN "deinited" ELSE "limbo")
    /\ UNCHANGED <<nfr, npic>>

Deinit == phase \in {"created", "configured", "inited", "limbo"} /\ Step("dec_deinit(h)", AnyRet) /\ phase' = "deinited"
          /\ UNCHANGED <<nfr, npic>>
(* the documented teardown is dec_deinit (STEP 6) FOLLOWED BY dec_deinit_handle (STEP 7): deinit_handle alone is not a teardown *)
DeinitHandle == phase = "deinited" /\ Step("dec_deinit_handle(h)", {"ok"}) /\ phase' = "destroyed"
                /\ UNCHANGED <<nfr, npic>>

Next == NullCall \/ NullArgCall \/ InitHandle \/ SetParam \/ InitDec \/ Frame \/ GetPicture \/ OutOfOrder \/ Deinit \/ DeinitHandle
Spec == Init /\ [][Next]_vars
TypeOK == npic <= nfr /\ nfr <= MaxFrames
=============================================================================
