---- MODULE DecWave_TTrace_1790095817 ----
EXTENDS Sequences, TLCExt, DecWave, Toolbox, Naturals, TLC

_expression ==
    LET DecWave_TEExpression == INSTANCE DecWave_TEExpression
    IN DecWave_TEExpression!expression
----

_trace ==
    LET DecWave_TETrace == INSTANCE DecWave_TETrace
    IN DecWave_TETrace!trace
----

_inv ==
    ~(
        TLCGet("level") = Len(_TETrace)
        /\
        nextRow = (2)
        /\
        col = (<<3, 0, 2>>)
        /\
        bad = ({<<"superblock", 1, 2, "starts before", <<0, 3>>>>})
        /\
        ph = (<<"wait", "idle", "work">>)
        /\
        row = (<<0, -1, 1>>)
        /\
        done = ({<<0, 0>>, <<0, 1>>, <<0, 2>>, <<1, 0>>, <<1, 1>>})
        /\
        word = ((0 :> 2 @@ 1 :> 1 @@ 2 :> -1))
    )
----

_init ==
    /\ row = _TETrace[1].row
    /\ done = _TETrace[1].done
    /\ bad = _TETrace[1].bad
    /\ word = _TETrace[1].word
    /\ nextRow = _TETrace[1].nextRow
    /\ col = _TETrace[1].col
    /\ ph = _TETrace[1].ph
----

_next ==
    /\ \E i,j \in DOMAIN _TETrace:
        /\ \/ /\ j = i + 1
              /\ i = TLCGet("level")
        /\ row  = _TETrace[i].row
        /\ row' = _TETrace[j].row
        /\ done  = _TETrace[i].done
        /\ done' = _TETrace[j].done
        /\ bad  = _TETrace[i].bad
        /\ bad' = _TETrace[j].bad
        /\ word  = _TETrace[i].word
        /\ word' = _TETrace[j].word
        /\ nextRow  = _TETrace[i].nextRow
        /\ nextRow' = _TETrace[j].nextRow
        /\ col  = _TETrace[i].col
        /\ col' = _TETrace[j].col
        /\ ph  = _TETrace[i].ph
        /\ ph' = _TETrace[j].ph

\* Uncomment the ASSUME below to write the states of the error trace
\* to the given file in Json format. Note that you can pass any tuple
\* to `JsonSerialize`. For example, a sub-sequence of _TETrace.
    \* ASSUME
    \*     LET J == INSTANCE Json
    \*         IN J!JsonSerialize("DecWave_TTrace_1790095817.json", _TETrace)

=============================================================================

 Note that you can extract this module `DecWave_TEExpression`
  to a dedicated file to reuse `expression` (the module in the 
  dedicated `DecWave_TEExpression.tla` file takes precedence 
  over the module `DecWave_TEExpression` below).

---- MODULE DecWave_TEExpression ----
EXTENDS Sequences, TLCExt, DecWave, Toolbox, Naturals, TLC

expression == 
    [
        \* To hide variables of the `DecWave` spec from the error trace,
        \* remove the variables below.  The trace will be written in the order
        \* of the fields of this record.
        row |-> row
        ,done |-> done
        ,bad |-> bad
        ,word |-> word
        ,nextRow |-> nextRow
        ,col |-> col
        ,ph |-> ph
        
        \* Put additional constant-, state-, and action-level expressions here:
        \* ,_stateNumber |-> _TEPosition
        \* ,_rowUnchanged |-> row = row'
        
        \* Format the `row` variable as Json value.
        \* ,_rowJson |->
        \*     LET J == INSTANCE Json
        \*     IN J!ToJson(row)
        
        \* Lastly, you may build expressions over arbitrary sets of states by
        \* leveraging the _TETrace operator.  For example, this is how to
        \* count the number of times a spec variable changed up to the current
        \* state in the trace.
        \* ,_rowModCount |->
        \*     LET F[s \in DOMAIN _TETrace] ==
        \*         IF s = 1 THEN 0
        \*         ELSE IF _TETrace[s].row # _TETrace[s-1].row
        \*             THEN 1 + F[s-1] ELSE F[s-1]
        \*     IN F[_TEPosition - 1]
    ]

=============================================================================



Parsing and semantic processing can take forever if the trace below is long.
 In this case, it is advised to uncomment the module below to deserialize the
 trace from a generated binary file.

\*
\*---- MODULE DecWave_TETrace ----
\*EXTENDS IOUtils, DecWave, TLC
\*
\*trace == IODeserialize("DecWave_TTrace_1790095817.bin", TRUE)
\*
\*=============================================================================
\*

---- MODULE DecWave_TETrace ----
EXTENDS DecWave, TLC

trace == 
    <<
    ([nextRow |-> 0,col |-> <<0, 0, 0>>,bad |-> {},ph |-> <<"idle", "idle", "idle">>,row |-> <<-1, -1, -1>>,done |-> {},word |-> (0 :> -1 @@ 1 :> -1 @@ 2 :> -1)]),
    ([nextRow |-> 1,col |-> <<0, 0, 0>>,bad |-> {},ph |-> <<"wait", "idle", "idle">>,row |-> <<0, -1, -1>>,done |-> {},word |-> (0 :> -1 @@ 1 :> -1 @@ 2 :> -1)]),
    ([nextRow |-> 1,col |-> <<0, 0, 0>>,bad |-> {},ph |-> <<"work", "idle", "idle">>,row |-> <<0, -1, -1>>,done |-> {},word |-> (0 :> -1 @@ 1 :> -1 @@ 2 :> -1)]),
    ([nextRow |-> 1,col |-> <<1, 0, 0>>,bad |-> {},ph |-> <<"wait", "idle", "idle">>,row |-> <<0, -1, -1>>,done |-> {<<0, 0>>},word |-> (0 :> 0 @@ 1 :> -1 @@ 2 :> -1)]),
    ([nextRow |-> 1,col |-> <<1, 0, 0>>,bad |-> {},ph |-> <<"work", "idle", "idle">>,row |-> <<0, -1, -1>>,done |-> {<<0, 0>>},word |-> (0 :> 0 @@ 1 :> -1 @@ 2 :> -1)]),
    ([nextRow |-> 1,col |-> <<2, 0, 0>>,bad |-> {},ph |-> <<"wait", "idle", "idle">>,row |-> <<0, -1, -1>>,done |-> {<<0, 0>>, <<0, 1>>},word |-> (0 :> 1 @@ 1 :> -1 @@ 2 :> -1)]),
    ([nextRow |-> 1,col |-> <<2, 0, 0>>,bad |-> {},ph |-> <<"work", "idle", "idle">>,row |-> <<0, -1, -1>>,done |-> {<<0, 0>>, <<0, 1>>},word |-> (0 :> 1 @@ 1 :> -1 @@ 2 :> -1)]),
    ([nextRow |-> 1,col |-> <<3, 0, 0>>,bad |-> {},ph |-> <<"wait", "idle", "idle">>,row |-> <<0, -1, -1>>,done |-> {<<0, 0>>, <<0, 1>>, <<0, 2>>},word |-> (0 :> 2 @@ 1 :> -1 @@ 2 :> -1)]),
    ([nextRow |-> 2,col |-> <<3, 0, 0>>,bad |-> {},ph |-> <<"wait", "idle", "wait">>,row |-> <<0, -1, 1>>,done |-> {<<0, 0>>, <<0, 1>>, <<0, 2>>},word |-> (0 :> 2 @@ 1 :> -1 @@ 2 :> -1)]),
    ([nextRow |-> 2,col |-> <<3, 0, 0>>,bad |-> {},ph |-> <<"wait", "idle", "work">>,row |-> <<0, -1, 1>>,done |-> {<<0, 0>>, <<0, 1>>, <<0, 2>>},word |-> (0 :> 2 @@ 1 :> -1 @@ 2 :> -1)]),
    ([nextRow |-> 2,col |-> <<3, 0, 1>>,bad |-> {},ph |-> <<"wait", "idle", "wait">>,row |-> <<0, -1, 1>>,done |-> {<<0, 0>>, <<0, 1>>, <<0, 2>>, <<1, 0>>},word |-> (0 :> 2 @@ 1 :> 0 @@ 2 :> -1)]),
    ([nextRow |-> 2,col |-> <<3, 0, 1>>,bad |-> {},ph |-> <<"wait", "idle", "work">>,row |-> <<0, -1, 1>>,done |-> {<<0, 0>>, <<0, 1>>, <<0, 2>>, <<1, 0>>},word |-> (0 :> 2 @@ 1 :> 0 @@ 2 :> -1)]),
    ([nextRow |-> 2,col |-> <<3, 0, 2>>,bad |-> {},ph |-> <<"wait", "idle", "wait">>,row |-> <<0, -1, 1>>,done |-> {<<0, 0>>, <<0, 1>>, <<0, 2>>, <<1, 0>>, <<1, 1>>},word |-> (0 :> 2 @@ 1 :> 1 @@ 2 :> -1)]),
    ([nextRow |-> 2,col |-> <<3, 0, 2>>,bad |-> {<<"superblock", 1, 2, "starts before", <<0, 3>>>>},ph |-> <<"wait", "idle", "work">>,row |-> <<0, -1, 1>>,done |-> {<<0, 0>>, <<0, 1>>, <<0, 2>>, <<1, 0>>, <<1, 1>>},word |-> (0 :> 2 @@ 1 :> 1 @@ 2 :> -1)])
    >>
----


=============================================================================

---- CONFIG DecWave_TTrace_1790095817 ----
CONSTANTS
    R = 3
    W = 4
    T = 3
    Kind = "lf"
    Slip = 1

INVARIANT
    _inv

CHECK_DEADLOCK
    \* CHECK_DEADLOCK off because of PROPERTY or INVARIANT above.
    FALSE

INIT
    _init

NEXT
    _next

CONSTANT
    _TETrace <- _trace

ALIAS
    _expression
=============================================================================
\* Generated on Tue Sep 22 16:50:35 UTC 2026