SPECIFICATION FairSpec
CONSTANT Ser = TRUE
CONSTANT Bar = TRUE
CONSTANT Pop = "same3"
INVARIANT TypeOK
INVARIANT NoInterference
PROPERTY Completes
CHECK_DEADLOCK FALSE
