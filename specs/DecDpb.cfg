SPECIFICATION Spec
CONSTANTS NS = 3  NB = 5
INVARIANT CountExact
INVARIANT FreeIffZero
INVARIANT RefsLive
INVARIANT NoBad
CHECK_DEADLOCK FALSE
