\* the protocol as the code implements it
SPECIFICATION Spec
CONSTANTS T = 2 R = 2 F = 2 FixedBarrier = FALSE
INVARIANTS NeverTwice AllDoneAtEnd StageOrder BarrierBeforeReuse NoStaleStart
CHECK_DEADLOCK FALSE
