-------------------------- MODULE PacketizeTrace --------------------------
(***************************************************************************)
(* Binds Packetize.tla (GOP shape + temporal-unit assembly) to the real    *)
(* encoder: for runs without periodic intra refresh and without overlays   *)
(* the sequence of delivered packets -- display position, number of frames *)
(* in the temporal unit, show-existing, EOS -- must be exactly the         *)
(* sequence the model emits for (N, levels).  Arrival order is not         *)
(* observable from outside, so every picture of the next unit is assumed   *)
(* arrived (the queue depth constant is chosen >= N).                      *)
(***************************************************************************)
EXTENDS Packetize, Json, IOUtils

Tr == ndJsonDeserialize(IOEnv.TRACE)
VARIABLES l, chk      \* chk = delivered packets already compared with the trace
tvars == <<vars, l, chk>>
Ev == Tr[l]

TraceInit == l = 1 /\ chk = 0 /\ N = 0 /\ DecOrder = <<>> /\ arrived = {} /\ slot = [i \in 0 .. D - 1 |-> NONE]
             /\ expect = [i \in 0 .. D - 1 |-> IF i = 0 THEN D ELSE i] /\ head = 1 /\ undisp = <<>> /\ out = <<>>

TRun ==
  /\ l <= Len(Tr) /\ Ev.ev = "Run" /\ Ev.n <= D
  /\ l' = l + 1 /\ chk' = 0
  /\ N' = Ev.n /\ DecOrder' = DecOrderOf(Ev.n, Ev.levels)
  /\ arrived' = 1 .. Ev.n
  /\ slot' = [i \in 0 .. D - 1 |-> IF i \in 1 .. Ev.n THEN i ELSE NONE]
  /\ expect' = [i \in 0 .. D - 1 |-> IF i = 0 THEN D ELSE i]
  /\ head' = 1 /\ undisp' = <<>> /\ out' = <<>>

Same(p, e) == p.pos = e.pos /\ p.frames = e.frames /\ p.showex = (e.showex = 1) /\ p.eos = (e.eos = 1)
TEmit ==
  /\ l <= Len(Tr) /\ Ev.ev = "TU" /\ chk = Len(out)
  /\ Emit
  /\ Same(out'[chk + 1], Ev)
  /\ chk' = chk + 1 /\ l' = l + 1
(* the show-existing packet that the same Emit step produced *)
TShowEx ==
  /\ l <= Len(Tr) /\ Ev.ev = "TU" /\ chk < Len(out)
  /\ Same(out[chk + 1], Ev)
  /\ chk' = chk + 1 /\ l' = l + 1 /\ UNCHANGED vars
TEnd ==
  /\ l <= Len(Tr) /\ Ev.ev = "End"
  /\ Done /\ Len(out) = N /\ chk = N
  /\ l' = l + 1 /\ UNCHANGED <<vars, chk>>

TraceNext == TRun \/ TEmit \/ TShowEx \/ TEnd
TraceSpec == TraceInit /\ [][TraceNext]_tvars
TraceAccepted == TLCGet("stats").diameter - 1 = Len(Tr)
=============================================================================
