------------------------------ MODULE RelDist ------------------------------
(***************************************************************************)
(* Signed order-hint distance modulo 2^bits (AV1 spec 7.9.3,               *)
(* get_relative_dist).  Five copies exist in the code base                 *)
(*   EbInterPrediction.c:294, EbPictureDecisionProcess.c:66,               *)
(*   EbAdaptiveMotionVectorPrediction.c:411,                               *)
(*   EbModeDecisionConfigurationProcess.c:578, EbDecUtils.h:35             *)
(* all written as  diff = a - b; m = 1 << (bits-1);                        *)
(*                 (diff & (m-1)) - (diff & m)   (two's complement).       *)
(* Rel is the mathematical definition; Thm is checked by TLC for all       *)
(* bits <= MaxBits; the trace part replays the table computed by the five  *)
(* real functions.                                                         *)
(***************************************************************************)
EXTENDS Integers, Sequences, TLC, Json, IOUtils
CONSTANT MaxBits

Pow2(n) == 2 ^ n
(* the unique r with -m <= r < m and r = a - b (mod 2m) *)
Rel(bits, a, b) ==
  LET m == Pow2(bits - 1)
      d == (a - b) % (2 * m)          \* 0 .. 2m-1   (TLA+ % is non-negative)
  IN IF d >= m THEN d - 2 * m ELSE d

(* the bit-twiddling form used by the code, on the two's complement of diff *)
Twiddle(bits, a, b) ==
  LET m == Pow2(bits - 1)
      diff == a - b
      low == diff % m                 \* diff & (m-1)
      bitm == (diff \div m) % 2       \* (diff & m) != 0   (floor division = arithmetic shift)
  IN low - bitm * m

Thm == \A bits \in 1 .. MaxBits : \A a, b \in 0 .. Pow2(bits) - 1 :
          /\ Rel(bits, a, b) = Twiddle(bits, a, b)
          /\ Rel(bits, a, b) >= -Pow2(bits - 1) /\ Rel(bits, a, b) < Pow2(bits - 1)
          /\ (Rel(bits, a, b) - (a - b)) % Pow2(bits) = 0
          /\ Rel(bits, a, a) = 0

VARIABLE l
Tr == IF "TRACE" \in DOMAIN IOEnv THEN ndJsonDeserialize(IOEnv.TRACE) ELSE <<>>
Init == l = 1
(* one table row from the real code: all five implementations return Rel *)
Row == /\ l <= Len(Tr)
       /\ \A i \in 1 .. Len(Tr[l].r) : Tr[l].r[i] = Rel(Tr[l].bits, Tr[l].a, Tr[l].b)
       /\ l' = l + 1
Spec == Init /\ [][Row]_l
ThmHolds == Thm
TraceAccepted == TLCGet("stats").diameter - 1 = Len(Tr)
=============================================================================
