---- MODULE DecDpb_TTrace_1790099740 ----
EXTENDS Sequences, DecDpb, TLCExt, Toolbox, Naturals, TLC

_expression ==
    LET DecDpb_TEExpression == INSTANCE DecDpb_TEExpression
    IN DecDpb_TEExpression!expression
----

_trace ==
    LET DecDpb_TETrace == INSTANCE DecDpb_TETrace
    IN DecDpb_TETrace!trace
----

_inv ==
    ~(
        TLCGet("level") = Len(_TETrace)
        /\
        rc = ((0 :> 1 @@ 1 :> 1 @@ 2 :> 1 @@ 3 :> 1 @@ 4 :> 0))
        /\
        cur = (3)
        /\
        bad = ({})
        /\
        isKey = ((0 :> FALSE @@ 1 :> FALSE @@ 2 :> FALSE @@ 3 :> FALSE @@ 4 :> FALSE))
        /\
        ph = ("got")
        /\
        refresh = ({})
        /\
        showEx = (FALSE)
        /\
        nxt = ((0 :> -1 @@ 1 :> -1 @@ 2 :> -1))
        /\
        free = ((0 :> FALSE @@ 1 :> FALSE @@ 2 :> FALSE @@ 3 :> FALSE @@ 4 :> TRUE))
        /\
        map = ((0 :> 1 @@ 1 :> 0 @@ 2 :> 2))
    )
----

_init ==
    /\ rc = _TETrace[1].rc
    /\ isKey = _TETrace[1].isKey
    /\ refresh = _TETrace[1].refresh
    /\ showEx = _TETrace[1].showEx
    /\ bad = _TETrace[1].bad
    /\ nxt = _TETrace[1].nxt
    /\ cur = _TETrace[1].cur
    /\ ph = _TETrace[1].ph
    /\ map = _TETrace[1].map
    /\ free = _TETrace[1].free
----

_next ==
    /\ \E i,j \in DOMAIN _TETrace:
        /\ \/ /\ j = i + 1
              /\ i = TLCGet("level")
        /\ rc  = _TETrace[i].rc
        /\ rc' = _TETrace[j].rc
        /\ isKey  = _TETrace[i].isKey
        /\ isKey' = _TETrace[j].isKey
        /\ refresh  = _TETrace[i].refresh
        /\ refresh' = _TETrace[j].refresh
        /\ showEx  = _TETrace[i].showEx
        /\ showEx' = _TETrace[j].showEx
        /\ bad  = _TETrace[i].bad
        /\ bad' = _TETrace[j].bad
        /\ nxt  = _TETrace[i].nxt
        /\ nxt' = _TETrace[j].nxt
        /\ cur  = _TETrace[i].cur
        /\ cur' = _TETrace[j].cur
        /\ ph  = _TETrace[i].ph
        /\ ph' = _TETrace[j].ph
        /\ map  = _TETrace[i].map
        /\ map' = _TETrace[j].map
        /\ free  = _TETrace[i].free
        /\ free' = _TETrace[j].free

\* Uncomment the ASSUME below to write the states of the error trace
\* to the given file in Json format. Note that you can pass any tuple
\* to `JsonSerialize`. For example, a sub-sequence of _TETrace.
    \* ASSUME
    \*     LET J == INSTANCE Json
    \*         IN J!JsonSerialize("DecDpb_TTrace_1790099740.json", _TETrace)

=============================================================================

 Note that you can extract this module `DecDpb_TEExpression`
  to a dedicated file to reuse `expression` (the module in the 
  dedicated `DecDpb_TEExpression.tla` file takes precedence 
  over the module `DecDpb_TEExpression` below).

---- MODULE DecDpb_TEExpression ----
EXTENDS Sequences, DecDpb, TLCExt, Toolbox, Naturals, TLC

expression == 
    [
        \* To hide variables of the `DecDpb` spec from the error trace,
        \* remove the variables below.  The trace will be written in the order
        \* of the fields of this record.
        rc |-> rc
        ,isKey |-> isKey
        ,refresh |-> refresh
        ,showEx |-> showEx
        ,bad |-> bad
        ,nxt |-> nxt
        ,cur |-> cur
        ,ph |-> ph
        ,map |-> map
        ,free |-> free
        
        \* Put additional constant-, state-, and action-level expressions here:
        \* ,_stateNumber |-> _TEPosition
        \* ,_rcUnchanged |-> rc = rc'
        
        \* Format the `rc` variable as Json value.
        \* ,_rcJson |->
        \*     LET J == INSTANCE Json
        \*     IN J!ToJson(rc)
        
        \* Lastly, you may build expressions over arbitrary sets of states by
        \* leveraging the _TETrace operator.  For example, this is how to
        \* count the number of times a spec variable changed up to the current
        \* state in the trace.
        \* ,_rcModCount |->
        \*     LET F[s \in DOMAIN _TETrace] ==
        \*         IF s = 1 THEN 0
        \*         ELSE IF _TETrace[s].rc # _TETrace[s-1].rc
        \*             THEN 1 + F[s-1] ELSE F[s-1]
        \*     IN F[_TEPosition - 1]
    ]

=============================================================================



Parsing and semantic processing can take forever if the trace below is long.
 In this case, it is advised to uncomment the module below to deserialize the
 trace from a generated binary file.

\*
\*---- MODULE DecDpb_TETrace ----
\*EXTENDS IOUtils, DecDpb, TLC
\*
\*trace == IODeserialize("DecDpb_TTrace_1790099740.bin", TRUE)
\*
\*=============================================================================
\*

---- MODULE DecDpb_TETrace ----
EXTENDS DecDpb, TLC

trace == 
    <<
    ([rc |-> (0 :> 0 @@ 1 :> 0 @@ 2 :> 0 @@ 3 :> 0 @@ 4 :> 0),cur |-> -1,bad |-> {},isKey |-> (0 :> FALSE @@ 1 :> FALSE @@ 2 :> FALSE @@ 3 :> FALSE @@ 4 :> FALSE),ph |-> "idle",refresh |-> {},showEx |-> FALSE,nxt |-> (0 :> -1 @@ 1 :> -1 @@ 2 :> -1),free |-> (0 :> TRUE @@ 1 :> TRUE @@ 2 :> TRUE @@ 3 :> TRUE @@ 4 :> TRUE),map |-> (0 :> -1 @@ 1 :> -1 @@ 2 :> -1)]),
    ([rc |-> (0 :> 1 @@ 1 :> 0 @@ 2 :> 0 @@ 3 :> 0 @@ 4 :> 0),cur |-> 0,bad |-> {},isKey |-> (0 :> FALSE @@ 1 :> FALSE @@ 2 :> FALSE @@ 3 :> FALSE @@ 4 :> FALSE),ph |-> "got",refresh |-> {1},showEx |-> FALSE,nxt |-> (0 :> -1 @@ 1 :> -1 @@ 2 :> -1),free |-> (0 :> FALSE @@ 1 :> TRUE @@ 2 :> TRUE @@ 3 :> TRUE @@ 4 :> TRUE),map |-> (0 :> -1 @@ 1 :> -1 @@ 2 :> -1)]),
    ([rc |-> (0 :> 2 @@ 1 :> 0 @@ 2 :> 0 @@ 3 :> 0 @@ 4 :> 0),cur |-> 0,bad |-> {},isKey |-> (0 :> FALSE @@ 1 :> FALSE @@ 2 :> FALSE @@ 3 :> FALSE @@ 4 :> FALSE),ph |-> "gen",refresh |-> {1},showEx |-> FALSE,nxt |-> (0 :> -1 @@ 1 :> 0 @@ 2 :> -1),free |-> (0 :> FALSE @@ 1 :> TRUE @@ 2 :> TRUE @@ 3 :> TRUE @@ 4 :> TRUE),map |-> (0 :> -1 @@ 1 :> -1 @@ 2 :> -1)]),
    ([rc |-> (0 :> 1 @@ 1 :> 0 @@ 2 :> 0 @@ 3 :> 0 @@ 4 :> 0),cur |-> 0,bad |-> {},isKey |-> (0 :> FALSE @@ 1 :> FALSE @@ 2 :> FALSE @@ 3 :> FALSE @@ 4 :> FALSE),ph |-> "idle",refresh |-> {1},showEx |-> FALSE,nxt |-> (0 :> -1 @@ 1 :> -1 @@ 2 :> -1),free |-> (0 :> FALSE @@ 1 :> TRUE @@ 2 :> TRUE @@ 3 :> TRUE @@ 4 :> TRUE),map |-> (0 :> -1 @@ 1 :> 0 @@ 2 :> -1)]),
    ([rc |-> (0 :> 1 @@ 1 :> 1 @@ 2 :> 0 @@ 3 :> 0 @@ 4 :> 0),cur |-> 1,bad |-> {},isKey |-> (0 :> FALSE @@ 1 :> FALSE @@ 2 :> FALSE @@ 3 :> FALSE @@ 4 :> FALSE),ph |-> "got",refresh |-> {0, 2},showEx |-> FALSE,nxt |-> (0 :> -1 @@ 1 :> -1 @@ 2 :> -1),free |-> (0 :> FALSE @@ 1 :> FALSE @@ 2 :> TRUE @@ 3 :> TRUE @@ 4 :> TRUE),map |-> (0 :> -1 @@ 1 :> 0 @@ 2 :> -1)]),
    ([rc |-> (0 :> 2 @@ 1 :> 3 @@ 2 :> 0 @@ 3 :> 0 @@ 4 :> 0),cur |-> 1,bad |-> {},isKey |-> (0 :> FALSE @@ 1 :> FALSE @@ 2 :> FALSE @@ 3 :> FALSE @@ 4 :> FALSE),ph |-> "gen",refresh |-> {0, 2},showEx |-> FALSE,nxt |-> (0 :> 1 @@ 1 :> 0 @@ 2 :> 1),free |-> (0 :> FALSE @@ 1 :> FALSE @@ 2 :> TRUE @@ 3 :> TRUE @@ 4 :> TRUE),map |-> (0 :> -1 @@ 1 :> 0 @@ 2 :> -1)]),
    ([rc |-> (0 :> 1 @@ 1 :> 2 @@ 2 :> 0 @@ 3 :> 0 @@ 4 :> 0),cur |-> 1,bad |-> {},isKey |-> (0 :> FALSE @@ 1 :> FALSE @@ 2 :> FALSE @@ 3 :> FALSE @@ 4 :> FALSE),ph |-> "idle",refresh |-> {0, 2},showEx |-> FALSE,nxt |-> (0 :> -1 @@ 1 :> -1 @@ 2 :> -1),free |-> (0 :> FALSE @@ 1 :> FALSE @@ 2 :> TRUE @@ 3 :> TRUE @@ 4 :> TRUE),map |-> (0 :> 1 @@ 1 :> 0 @@ 2 :> 1)]),
    ([rc |-> (0 :> 1 @@ 1 :> 2 @@ 2 :> 1 @@ 3 :> 0 @@ 4 :> 0),cur |-> 2,bad |-> {},isKey |-> (0 :> FALSE @@ 1 :> FALSE @@ 2 :> FALSE @@ 3 :> FALSE @@ 4 :> FALSE),ph |-> "got",refresh |-> {2},showEx |-> FALSE,nxt |-> (0 :> -1 @@ 1 :> -1 @@ 2 :> -1),free |-> (0 :> FALSE @@ 1 :> FALSE @@ 2 :> FALSE @@ 3 :> TRUE @@ 4 :> TRUE),map |-> (0 :> 1 @@ 1 :> 0 @@ 2 :> 1)]),
    ([rc |-> (0 :> 2 @@ 1 :> 3 @@ 2 :> 2 @@ 3 :> 0 @@ 4 :> 0),cur |-> 2,bad |-> {},isKey |-> (0 :> FALSE @@ 1 :> FALSE @@ 2 :> FALSE @@ 3 :> FALSE @@ 4 :> FALSE),ph |-> "gen",refresh |-> {2},showEx |-> FALSE,nxt |-> (0 :> 1 @@ 1 :> 0 @@ 2 :> 2),free |-> (0 :> FALSE @@ 1 :> FALSE @@ 2 :> FALSE @@ 3 :> TRUE @@ 4 :> TRUE),map |-> (0 :> 1 @@ 1 :> 0 @@ 2 :> 1)]),
    ([rc |-> (0 :> 1 @@ 1 :> 1 @@ 2 :> 1 @@ 3 :> 0 @@ 4 :> 0),cur |-> 2,bad |-> {},isKey |-> (0 :> FALSE @@ 1 :> FALSE @@ 2 :> FALSE @@ 3 :> FALSE @@ 4 :> FALSE),ph |-> "idle",refresh |-> {2},showEx |-> FALSE,nxt |-> (0 :> -1 @@ 1 :> -1 @@ 2 :> -1),free |-> (0 :> FALSE @@ 1 :> FALSE @@ 2 :> FALSE @@ 3 :> TRUE @@ 4 :> TRUE),map |-> (0 :> 1 @@ 1 :> 0 @@ 2 :> 2)]),
    ([rc |-> (0 :> 1 @@ 1 :> 1 @@ 2 :> 1 @@ 3 :> 1 @@ 4 :> 0),cur |-> 3,bad |-> {},isKey |-> (0 :> FALSE @@ 1 :> FALSE @@ 2 :> FALSE @@ 3 :> FALSE @@ 4 :> FALSE),ph |-> "got",refresh |-> {},showEx |-> FALSE,nxt |-> (0 :> -1 @@ 1 :> -1 @@ 2 :> -1),free |-> (0 :> FALSE @@ 1 :> FALSE @@ 2 :> FALSE @@ 3 :> FALSE @@ 4 :> TRUE),map |-> (0 :> 1 @@ 1 :> 0 @@ 2 :> 2)])
    >>
----


=============================================================================

---- CONFIG DecDpb_TTrace_1790099740 ----
CONSTANTS
    NS = 3
    NB = 5

INVARIANT
    _inv

CHECK_DEADLOCK
    \* CHECK_DEADLOCK off because of PROPERTY or INVARIANT above.
    FALSE

INIT
    _init

NEXT
    _next

CONSTANT
    _TETrace <- _trace

ALIAS
    _expression
=============================================================================
\* Generated on Tue Sep 22 17:55:51 UTC 2026