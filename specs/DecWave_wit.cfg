SPECIFICATION Spec
CONSTANTS R = 3  W = 4  T = 3  Kind = "lf"  Slip = 0
INVARIANT NeverConcurrent
CHECK_DEADLOCK FALSE
