----------------------------- MODULE DecRowDeps -----------------------------
(***************************************************************************)
(* Data dependencies between the row jobs of the multi-threaded decoder    *)
(* when a frame has several TILE COLUMNS (the part DecMT.tla folds away).  *)
(*   Source/Lib/Decoder/Codec/EbDecProcess.c                               *)
(*     decode_frame_tiles / sb_recon_row_map[row * tile_cols + col]        *)
(*     dec_av1_loop_filter_frame_mt :762  (start_lf[0..2] over all columns)*)
(*     svt_cdef_frame_mt :915                                              *)
(*                                                                         *)
(* Reconstruction proceeds top-down independently in every tile column;    *)
(* the intra predictor of superblock row r+1 reads the last pixel line of  *)
(* row r ("above" line) of its own column.  Deblocking row r rewrites that *)
(* line (it filters the horizontal edges inside row r and the edge to row  *)
(* r+1), and reads the first lines of row r+1 and the last lines of r-1.   *)
(* CDEF of row r reads deblocked rows r-1 .. r+1 and must see none of them *)
(* half-filtered.                                                          *)
(*                                                                         *)
(* LfWait(r) is the condition the code spins on before deblocking row r.   *)
(* Wait = "all"  : rows r-1, r, r+1 reconstructed in EVERY tile column     *)
(*                 (what the code does)                                    *)
(* Wait = "col0" : row r+1 checked in tile column 0 only (the kind of slip *)
(*                 one index expression away; used as a vacuity guard: it  *)
(*                 must violate NoHazard)                                  *)
(***************************************************************************)
EXTENDS Integers, FiniteSets, TLC
CONSTANTS R, C, Wait
Rows == 0 .. R - 1
Cols == 0 .. C - 1

VARIABLES recon,   \* [Rows -> [Cols -> BOOLEAN]]  sb_recon_row_map
          lf,      \* [Rows -> "no" | "busy" | "done"]
          cdef,    \* [Rows -> BOOLEAN]
          bad
vars == <<recon, lf, cdef, bad>>

Init == /\ recon = [r \in Rows |-> [c \in Cols |-> FALSE]]
        /\ lf = [r \in Rows |-> "no"]
        /\ cdef = [r \in Rows |-> FALSE]
        /\ bad = {}

ReconDone(r, c) == IF r \in Rows THEN recon[r][c] ELSE TRUE   \* (IF, not \/: TLC splits a disjunction inside an action)
RowRecon(r) == IF r \in Rows THEN \A c \in Cols : recon[r][c] ELSE TRUE

(* reconstruct row r of tile column c: reads the above line of row r-1 in column c, which must still be un-deblocked *)
Recon(r, c) ==
  /\ ~recon[r][c] /\ ReconDone(r - 1, c)
  /\ recon' = [recon EXCEPT ![r][c] = TRUE]
  /\ bad' = bad \cup (IF r - 1 \in Rows /\ lf[r - 1] # "no"
                        THEN {<<"intra prediction of row", r, "column", c, "reads a deblocked line of row", r - 1>>} ELSE {})
  /\ UNCHANGED <<lf, cdef>>

LfWait(r) ==
  /\ RowRecon(r - 1) /\ RowRecon(r)
  /\ IF Wait = "all" THEN RowRecon(r + 1) ELSE ReconDone(r + 1, 0)
(* deblocking row r, two steps (it takes time: another thread may act in between) *)
LfBegin(r) ==
  /\ lf[r] = "no" /\ (IF r = 0 THEN TRUE ELSE lf[r - 1] # "no")      \* rows are handed out in order
  /\ LfWait(r)
  /\ lf' = [lf EXCEPT ![r] = "busy"]
  /\ bad' = bad \cup (IF ~RowRecon(r + 1) THEN {<<"deblocking row", r, "reads lines of row", r + 1, "that are not reconstructed">>} ELSE {})
  /\ UNCHANGED <<recon, cdef>>
LfEnd(r) ==
  /\ lf[r] = "busy"
  /\ lf' = [lf EXCEPT ![r] = "done"]
  /\ UNCHANGED <<recon, cdef, bad>>

LfDone(r) == IF r \in Rows THEN lf[r] = "done" ELSE TRUE
(* CDEF of row r: the code waits for deblocked rows r-1, r, r+1 *)
Cdef(r) ==
  /\ ~cdef[r] /\ LfDone(r - 1) /\ LfDone(r) /\ LfDone(r + 1)
  /\ cdef' = [cdef EXCEPT ![r] = TRUE]
  /\ UNCHANGED <<recon, lf, bad>>

Next == \/ \E r \in Rows, c \in Cols : Recon(r, c)
        \/ \E r \in Rows : LfBegin(r) \/ LfEnd(r) \/ Cdef(r)
Spec == Init /\ [][Next]_vars
FairSpec == Spec /\ WF_vars(Next)

NoHazard == bad = {}
Completes == <>[](\A r \in Rows : cdef[r])
(* witness (must be violated): a tile column can run ahead of another by more than one row *)
NeverAhead == ~(\E c1, c2 \in Cols, r \in Rows : r + 1 \in Rows /\ recon[r + 1][c1] /\ ~recon[r][c2])
=============================================================================
