---------------------------- MODULE DecWaveTrace ----------------------------
(***************************************************************************)
(* Trace validation of the superblock wavefront inside the decoder's       *)
(* stages (DecWave.tla) against recorded executions.                       *)
(*                                                                         *)
(* Hooks (stream "decsb", guard SVT_AV1_VERIF):                            *)
(*   SbRst                       frame start, behind the barrier           *)
(*   SbBeg stage row col dep last first   emitted AFTER the spin loop on the     *)
(*                               progress word of the row above exits      *)
(*   SbEnd stage row col         emitted after the superblock is processed *)
(*                               and BEFORE its progress word is stored    *)
(* so in every execution in which the wait did its job, SbEnd of the       *)
(* superblocks in Needs precedes SbBeg in the process-wide event order.    *)
(* stage: 0 recon (per tile: dep = row is not the first of its tile,       *)
(* last = last superblock column of the tile), 1 deblocking, 2 CDEF,       *)
(* 3 loop restoration (columns are 64-sample units).                       *)
(***************************************************************************)
EXTENDS Integers, Sequences, FiniteSets, TLC, Json, IOUtils

Tr == ndJsonDeserialize(IOEnv.TRACE)

VARIABLES l, begun, done,    \* position; sets of <<stage, row, col>>
          parsed             \* set of <<row, first column of the tile>>: superblock rows of a tile whose parsing is complete
vars == <<l, begun, done, parsed>>

Ev == Tr[l]
IsEv(e) == l <= Len(Tr) /\ Ev.ev = e /\ l' = l + 1
Arg(i) == Ev.a[i]
Min(a, b) == IF a < b THEN a ELSE b

(* DecWave!Needs, per stage; for recon the row above counts only inside the same tile (dep), and the left neighbour only
   inside the same tile too: first = first superblock column of the region (tile for recon, 0 otherwise) *)
Needs(s, r, c, dep, last, first) ==
  (IF c > first THEN {<<s, r, c - 1>>} ELSE {}) \cup (IF dep THEN {<<s, r - 1, Min(c + 1, last)>>} ELSE {})

Init == l = 1 /\ begun = {} /\ done = {} /\ parsed = {}

Reset == IsEv("Reset") /\ begun' = {} /\ done' = {} /\ parsed' = {}
SbRst == IsEv("SbRst") /\ begun = done /\ begun' = {} /\ done' = {} /\ parsed' = {}      \* nothing of the previous frame is still in flight

(* PrsRow row first: the parser finished superblock row `row` of the tile that starts at column `first` (emitted before the
   sb_recon_row_parsed flag is stored); reconstruction of that tile row spins on the flag *)
PrsRow == /\ IsEv("PrsRow") /\ <<Arg(1), Arg(2)>> \notin parsed
          /\ parsed' = parsed \cup {<<Arg(1), Arg(2)>>}
          /\ UNCHANGED <<begun, done>>

SbBeg ==
  /\ IsEv("SbBeg")
  /\ LET s == Arg(1) r == Arg(2) c == Arg(3) last == Arg(5)
         dep == IF s = 0 THEN Arg(4) = 1 ELSE r > 0
         first == Arg(6) IN
       /\ s \in 0 .. 3 /\ r >= 0 /\ c >= first /\ c <= last
       /\ <<s, r, c>> \notin begun
       /\ Needs(s, r, c, dep, last, first) \subseteq done
       /\ (s = 0 => <<r, first>> \in parsed)             \* recon only of a completely parsed tile row
       /\ begun' = begun \cup {<<s, r, c>>}
  /\ UNCHANGED <<done, parsed>>

SbEnd ==
  /\ IsEv("SbEnd")
  /\ LET k == <<Arg(1), Arg(2), Arg(3)>> IN
       /\ k \in begun /\ k \notin done
       /\ done' = done \cup {k}
  /\ UNCHANGED <<begun, parsed>>

Next == Reset \/ SbRst \/ PrsRow \/ SbBeg \/ SbEnd
Spec == Init /\ [][Next]_vars
TraceAccepted == TLCGet("stats").diameter - 1 = Len(Tr)
=============================================================================
