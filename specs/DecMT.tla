------------------------------- MODULE DecMT -------------------------------
(***************************************************************************)
(* Frame-level protocol of the multi-threaded decoder                      *)
(*   Source/Lib/Decoder/Codec/EbDecProcess.c  (dec_all_stage_kernel :1316, *)
(*   get_sb_row_to_process :116, decode_frame_tiles :523,                  *)
(*   dec_av1_loop_filter_frame_mt :762, svt_cdef_frame_mt :915,            *)
(*   dec_av1_loop_restoration_filter_frame_mt :1157)                       *)
(*   Source/Lib/Decoder/Codec/EbDecParseObu.c :2300-2452 (main thread)     *)
(*                                                                         *)
(* T threads (thread 0 = the application thread inside svt_av1_dec_frame,  *)
(* the others run dec_all_stage_kernel) take every frame through the       *)
(* stages  recon -> LF -> CDEF -> LR.  Inside a stage a thread takes the   *)
(* next superblock row from a counter protected by sbrow_mutex and marks   *)
(* the row in a plain (volatile) "done" map when finished; the next stage  *)
(* spins on the maps of the rows it depends on.  Stages are opened per     *)
(* frame by plain start flags written by the main thread (semaphores are   *)
(* only wake-up hints, so every wait is modelled as a re-check).  At the   *)
(* end of LR each thread increments num_threads_lred under temp_mutex, the *)
(* thread that makes it equal T resets all start flags (still under the    *)
(* mutex), and everybody spins -- WITHOUT the mutex -- until the counter   *)
(* equals T.  Every shared read / write is its own step.                   *)
(* The motion-field stage has no rows here but keeps its own barrier        *)
(* (num_threads_header), which is what orders the next frame's resets after *)
(* the previous frame's LR barrier.  Parse is folded into recon; one tile    *)
(* column.                                                                  *)
(***************************************************************************)
EXTENDS Integers, Sequences, FiniteSets, TLC

CONSTANTS T,        \* threads
          R,        \* superblock rows
          F,        \* frames decoded
          FixedBarrier   \* TRUE: model a barrier in which the flags are reset BEFORE the counter reaches T (what-if)

Threads == 0 .. T - 1
Rows == 0 .. R - 1
Stages == <<"mp", "recon", "lf", "cdef", "lr">>
StageSet == {"mp", "recon", "lf", "cdef", "lr"}
RowStages == {"recon", "lf", "cdef", "lr"}
Last == 5
NONE == -1

VARIABLES
  frame,      \* frame the main thread is working on (1..F)
  start,      \* [stage -> BOOLEAN]   start_decode_frame / start_lf_frame / start_cdef_frame / start_lr_frame
  nextRow,    \* [stage -> 0..R]      sb_row_to_process of the stage's DecMtRowInfo
  doneMap,    \* [stage -> [Rows -> BOOLEAN]]   sb_recon_row_map / lf_row_map / cdef_completed / lr_row_map
  numLred,    \* num_threads_lred
  numHdr,     \* num_threads_header (barrier at the end of the motion-field stage)
  tmpLock,    \* holder of temp_mutex or NONE
  pc,         \* [thread -> control state]
  tframe,     \* [thread -> frame the thread believes it is working on]
  stage,      \* [thread -> index into Stages]
  row,        \* [thread -> row taken | NONE]
  mpc,        \* control state of the main thread's orchestration part
  count,      \* ghost: [frame -> [stage -> [row -> times processed]]]
  stale       \* ghost: a thread entered a stage of frame n+1 on a start flag left over from frame n
vars == <<frame, start, nextRow, doneMap, numLred, numHdr, tmpLock, pc, tframe, stage, row, mpc, count, stale>>

AllFalse == [s \in StageSet |-> FALSE]
Init ==
  /\ frame = 1
  /\ start = AllFalse
  /\ nextRow = [s \in RowStages |-> 0]
  /\ doneMap = [s \in RowStages |-> [r \in Rows |-> FALSE]]
  /\ numLred = 0 /\ numHdr = 0 /\ tmpLock = NONE
  /\ pc = [t \in Threads |-> IF t = 0 THEN "main_setup" ELSE "wait_start"]
  /\ tframe = [t \in Threads |-> 1]
  /\ stage = [t \in Threads |-> 1]      \* everybody starts at the motion-field stage
  /\ row = [t \in Threads |-> NONE]
  /\ mpc = "reset"
  /\ count = [f \in 1 .. F |-> [s \in RowStages |-> [r \in Rows |-> 0]]]
  /\ stale = FALSE

St(t) == Stages[stage[t]]

(* ---- main thread: per-frame orchestration before it joins the workers (EbDecParseObu.c) ---- *)
(* reset the job counters and maps of the new frame, zero the barrier counter, raise the start flags one by one *)
MainReset ==       \* tile-row counters and maps of the new frame; num_threads_header = 0 (:2304-2333)
  /\ pc[0] = "main_setup" /\ mpc = "reset"
  /\ nextRow' = [s \in RowStages |-> 0]
  /\ doneMap' = [s \in RowStages |-> [r \in Rows |-> FALSE]]
  /\ numHdr' = 0
  /\ mpc' = "flag_mp"
  /\ UNCHANGED <<frame, start, numLred, tmpLock, pc, tframe, stage, row, count, stale>>
MainFlagMp ==      \* start_motion_proj = TRUE under temp_mutex (:2335-2337); then the main thread runs the stage itself
  /\ pc[0] = "main_setup" /\ mpc = "flag_mp" /\ tmpLock = NONE
  /\ start' = [start EXCEPT !["mp"] = TRUE]
  /\ mpc' = "in_mp"
  /\ pc' = [pc EXCEPT ![0] = "hdr_lock"]
  /\ UNCHANGED <<frame, nextRow, doneMap, numLred, numHdr, tmpLock, tframe, stage, row, count, stale>>
MainZero ==        \* after the motion-field barrier, under temp_mutex: start_parse_frame, num_threads_cdefed = num_threads_lred = 0 (:2345-2350)
  /\ pc[0] = "main_setup" /\ mpc = "zero" /\ tmpLock = NONE
  /\ numLred' = 0
  /\ mpc' = "flags"
  /\ UNCHANGED <<frame, start, nextRow, doneMap, numHdr, tmpLock, pc, tframe, stage, row, count, stale>>
MainFlag ==        \* remaining flags, one per step, each under temp_mutex (:2345, :2359-2368, start_lr_frame later)
  /\ pc[0] = "main_setup" /\ mpc = "flags" /\ tmpLock = NONE
  /\ \E i \in 2 .. Last :
       /\ ~start[Stages[i]] /\ \A j \in 2 .. i - 1 : start[Stages[j]]
       /\ start' = [start EXCEPT ![Stages[i]] = TRUE]
       /\ IF i = Last THEN pc' = [pc EXCEPT ![0] = "wait_start"] /\ mpc' = "joined" /\ stage' = [stage EXCEPT ![0] = 2]
          ELSE UNCHANGED <<pc, mpc, stage>>
  /\ UNCHANGED <<frame, nextRow, doneMap, numLred, numHdr, tmpLock, tframe, row, count, stale>>

(* ---- every thread: the stage loop ---- *)
WaitStart(t) ==    \* while (*start_X_frame != EB_TRUE) block_on_semaphore
  /\ pc[t] = "wait_start"
  /\ start[St(t)]
  /\ stale' = (stale \/ tframe[t] # frame)
  /\ pc' = [pc EXCEPT ![t] = IF St(t) = "mp" THEN "hdr_lock" ELSE "take"]
  /\ UNCHANGED <<frame, start, nextRow, doneMap, numLred, numHdr, tmpLock, tframe, stage, row, mpc, count>>
Take(t) ==         \* get_sb_row_to_process under sbrow_mutex (leaf section: atomic)
  /\ pc[t] = "take"
  /\ IF nextRow[St(t)] # R
       THEN /\ row' = [row EXCEPT ![t] = nextRow[St(t)]]
            /\ nextRow' = [nextRow EXCEPT ![St(t)] = @ + 1]
            /\ pc' = [pc EXCEPT ![t] = "deps"]
       ELSE /\ row' = [row EXCEPT ![t] = NONE]
            /\ UNCHANGED nextRow
            /\ pc' = [pc EXCEPT ![t] = IF stage[t] = Last THEN "bar_lock" ELSE "next_stage"]
  /\ UNCHANGED <<frame, start, doneMap, numLred, numHdr, tmpLock, tframe, stage, mpc, count, stale>>
(* rows of the previous stage this row depends on: r-1, r, r+1 (clipped) for LF/CDEF/LR; recon rows go top-down *)
Deps(s, r) == IF s = "recon" THEN (IF r = 0 THEN {} ELSE {r - 1}) ELSE {x \in Rows : x \in {r - 1, r, r + 1}}
PrevStage(s) == CASE s = "lf" -> "recon" [] s = "cdef" -> "lf" [] s = "lr" -> "cdef" [] OTHER -> "recon"
DepsDone(t) ==
  LET s == St(t) r == row[t] IN
    IF s = "recon" THEN \A x \in Deps(s, r) : doneMap["recon"][x]
    ELSE \A x \in Deps(s, r) : doneMap[PrevStage(s)][x]
WaitDeps(t) ==     \* spin on the done maps
  /\ pc[t] = "deps" /\ DepsDone(t)
  /\ pc' = [pc EXCEPT ![t] = "work"]
  /\ UNCHANGED <<frame, start, nextRow, doneMap, numLred, numHdr, tmpLock, tframe, stage, row, mpc, count, stale>>
Work(t) ==         \* process the row, then mark it done (plain write)
  /\ pc[t] = "work"
  /\ count' = [count EXCEPT ![tframe[t]][St(t)][row[t]] = @ + 1]
  /\ doneMap' = [doneMap EXCEPT ![St(t)][row[t]] = TRUE]
  /\ pc' = [pc EXCEPT ![t] = "take"]
  /\ UNCHANGED <<frame, start, nextRow, numLred, numHdr, tmpLock, tframe, stage, row, mpc, stale>>
NextStage(t) ==
  /\ pc[t] = "next_stage"
  /\ stage' = [stage EXCEPT ![t] = @ + 1]
  /\ pc' = [pc EXCEPT ![t] = "wait_start"]
  /\ UNCHANGED <<frame, start, nextRow, doneMap, numLred, numHdr, tmpLock, tframe, row, mpc, count, stale>>

(* ---- barrier at the end of the motion-field stage, EbDecParseBlock.c:1081-1093 ---- *)
HdrLock(t) == /\ pc[t] = "hdr_lock" /\ tmpLock = NONE /\ tmpLock' = t /\ pc' = [pc EXCEPT ![t] = "hdr_inc"]
              /\ UNCHANGED <<frame, start, nextRow, doneMap, numLred, numHdr, tframe, stage, row, mpc, count, stale>>
HdrInc(t) ==  /\ pc[t] = "hdr_inc" /\ numHdr' = numHdr + 1
              /\ pc' = [pc EXCEPT ![t] = IF numHdr + 1 = T THEN "hdr_reset" ELSE "hdr_unlock"]
              /\ UNCHANGED <<frame, start, nextRow, doneMap, numLred, tmpLock, tframe, stage, row, mpc, count, stale>>
HdrReset(t) == /\ pc[t] = "hdr_reset" /\ start' = [start EXCEPT !["mp"] = FALSE] /\ pc' = [pc EXCEPT ![t] = "hdr_unlock"]
               /\ UNCHANGED <<frame, nextRow, doneMap, numLred, numHdr, tmpLock, tframe, stage, row, mpc, count, stale>>
HdrUnlock(t) == /\ pc[t] = "hdr_unlock" /\ tmpLock' = NONE /\ pc' = [pc EXCEPT ![t] = "hdr_spin"]
                /\ UNCHANGED <<frame, start, nextRow, doneMap, numLred, numHdr, tframe, stage, row, mpc, count, stale>>
HdrSpin(t) ==  \* while (*num_threads_header != threads) ;
  /\ pc[t] = "hdr_spin" /\ numHdr = T
  /\ IF t = 0 THEN pc' = [pc EXCEPT ![t] = "main_setup"] /\ mpc' = "zero" /\ UNCHANGED stage
     ELSE pc' = [pc EXCEPT ![t] = "wait_start"] /\ stage' = [stage EXCEPT ![t] = 2] /\ UNCHANGED mpc
  /\ UNCHANGED <<frame, start, nextRow, doneMap, numLred, numHdr, tmpLock, tframe, row, count, stale>>

(* ---- end-of-frame barrier :1296-1311 ---- *)
BarLock(t) ==
  /\ pc[t] = "bar_lock" /\ tmpLock = NONE
  /\ tmpLock' = t
  /\ pc' = [pc EXCEPT ![t] = IF FixedBarrier THEN "bar_reset_first" ELSE "bar_inc"]
  /\ UNCHANGED <<frame, start, nextRow, doneMap, numLred, numHdr, tframe, stage, row, mpc, count, stale>>
BarInc(t) ==       \* num_threads_lred++
  /\ pc[t] = "bar_inc"
  /\ numLred' = numLred + 1
  /\ pc' = [pc EXCEPT ![t] = IF numLred + 1 = T /\ ~FixedBarrier THEN "bar_reset" ELSE "bar_unlock"]
  /\ UNCHANGED <<frame, start, nextRow, doneMap, numHdr, tmpLock, tframe, stage, row, mpc, count, stale>>
BarReset(t) ==     \* the last thread clears every start flag (still under temp_mutex)
  /\ pc[t] = "bar_reset"
  /\ start' = AllFalse
  /\ pc' = [pc EXCEPT ![t] = "bar_unlock"]
  /\ UNCHANGED <<frame, nextRow, doneMap, numLred, numHdr, tmpLock, tframe, stage, row, mpc, count, stale>>
BarResetFirst(t) ==   \* what-if: reset the flags before the increment that releases the spinners
  /\ pc[t] = "bar_reset_first"
  /\ start' = IF numLred + 1 = T THEN AllFalse ELSE start
  /\ pc' = [pc EXCEPT ![t] = "bar_inc"]
  /\ UNCHANGED <<frame, nextRow, doneMap, numLred, numHdr, tmpLock, tframe, stage, row, mpc, count, stale>>
BarUnlock(t) ==
  /\ pc[t] = "bar_unlock"
  /\ tmpLock' = NONE
  /\ pc' = [pc EXCEPT ![t] = "bar_spin"]
  /\ UNCHANGED <<frame, start, nextRow, doneMap, numLred, numHdr, tframe, stage, row, mpc, count, stale>>
BarSpin(t) ==      \* while (*num_threads_lred != threads) ;   (no mutex)
  /\ pc[t] = "bar_spin" /\ numLred = T
  /\ tframe' = [tframe EXCEPT ![t] = @ + 1]
  /\ stage' = [stage EXCEPT ![t] = 1]
  /\ IF t = 0
       THEN /\ frame' = frame + 1
            /\ pc' = [pc EXCEPT ![t] = IF frame = F THEN "done" ELSE "main_setup"]
            /\ mpc' = "reset"
       ELSE /\ pc' = [pc EXCEPT ![t] = IF tframe[t] = F THEN "done" ELSE "wait_start"]
            /\ UNCHANGED <<frame, mpc>>
  /\ UNCHANGED <<start, nextRow, doneMap, numLred, numHdr, tmpLock, row, count, stale>>

Step(t) == HdrLock(t) \/ HdrInc(t) \/ HdrReset(t) \/ HdrUnlock(t) \/ HdrSpin(t) \/ WaitStart(t) \/ Take(t) \/ WaitDeps(t) \/ Work(t) \/ NextStage(t) \/ BarLock(t) \/ BarInc(t) \/ BarReset(t)
           \/ BarResetFirst(t) \/ BarUnlock(t) \/ BarSpin(t)
Next == MainReset \/ MainFlagMp \/ MainZero \/ MainFlag \/ \E t \in Threads : Step(t)
Spec == Init /\ [][Next]_vars
FairSpec == Spec /\ WF_vars(MainReset) /\ WF_vars(MainFlagMp) /\ WF_vars(MainZero) /\ WF_vars(MainFlag) /\ \A t \in Threads : WF_vars(Step(t))

-----------------------------------------------------------------------------
(* C09: each row processed exactly once per stage and frame *)
NeverTwice == \A f \in 1 .. F : \A s \in RowStages : \A r \in Rows : count[f][s][r] <= 1
AllDoneAtEnd == (\A t \in Threads : pc[t] = "done") => \A f \in 1 .. F : \A s \in RowStages : \A r \in Rows : count[f][s][r] = 1
(* stage ordering: a row is filtered only after the rows it depends on have left the previous stage *)
StageOrder ==
  \A t \in Threads : pc[t] = "work" /\ St(t) # "recon" =>
      \A x \in Deps(St(t), row[t]) : count[tframe[t]][PrevStage(St(t))][x] = 1
(* a thread never works on a frame other than the one the main thread has set up *)
NoStaleStart == ~stale
(* no thread still inside frame n when the maps / counters of frame n+1 are reset *)
BarrierBeforeReuse ==
  \A t \in Threads \ {0} : ~(tframe[t] < frame /\ pc[t] \in {"wait_start", "take", "deps", "work", "next_stage"})
FramesDone == <>(\A t \in Threads : pc[t] = "done")
=============================================================================
