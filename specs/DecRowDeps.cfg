SPECIFICATION FairSpec
CONSTANTS R = 4
C = 3
Wait = "all"
INVARIANT NoHazard
PROPERTY Completes
CHECK_DEADLOCK FALSE
