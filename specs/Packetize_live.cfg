SPECIFICATION FairSpec
CONSTANTS MaxN = 10 Levels = {2, 3} D = 4 InFlight = 4 MaxUndisp = 8
PROPERTIES Finishes
CHECK_DEADLOCK FALSE
