----------------------------- MODULE CtorUnwind -----------------------------
(***************************************************************************)
(* The construction / unwinding discipline of the object model             *)
(*   Source/Lib/Common/Codec/EbObject.h :52-100  (EB_NEW, EB_DELETE)       *)
(*   EB_NEW(p, ctor, ...):  p = calloc; if (!p) return error;              *)
(*                          err = ctor(p, ...); if (err) { EB_DELETE(p);   *)
(*                          return err; }                                  *)
(*   a constructor sets p->dctor FIRST, then builds its members in order   *)
(*   (children via EB_NEW, raw buffers via EB_MALLOC...), returning at the *)
(*   first failure; the destructor EB_DELETEs / EB_FREEs every non-NULL    *)
(*   member (calloc => members not reached are NULL).                      *)
(* Fault model (C16): exactly the K-th allocation of the session fails.    *)
(* Checked: whatever K, after a failed top-level EB_NEW nothing stays      *)
(* allocated and nothing is freed twice; after success everything is       *)
(* allocated once and the destructor releases all of it.                   *)
(* A "leaky" object kind models the defect class the fault enumeration of  *)
(* the real code looks for (a member allocated before dctor is set).       *)
(***************************************************************************)
EXTENDS Integers, Sequences, FiniteSets, TLC

CONSTANTS MaxDepth, MaxKids, WithLeakyKind

(* an object type: [kids |-> sequence of child types, bufs |-> number of raw buffers, leaky |-> BOOLEAN] *)
RECURSIVE Shapes(_)
Shapes(d) ==
  IF d = 0 THEN {[kids |-> <<>>, bufs |-> b, leaky |-> FALSE] : b \in 0 .. 1}
  ELSE LET sub == Shapes(d - 1) IN
       {[kids |-> <<>>, bufs |-> b, leaky |-> FALSE] : b \in 0 .. 1}
       \cup {[kids |-> <<k1>>, bufs |-> b, leaky |-> l] : k1 \in sub, b \in 0 .. 1, l \in (IF WithLeakyKind THEN BOOLEAN ELSE {FALSE})}
       \cup (IF MaxKids >= 2 THEN {[kids |-> <<k1, k2>>, bufs |-> 1, leaky |-> FALSE] : k1 \in sub, k2 \in sub} ELSE {})

(* state threaded through construction: [n |-> allocations attempted so far, live |-> set of live allocation ids, *)
(*                                       freed |-> set of ids freed, dbl |-> a double free happened]               *)
Alloc(st, failAt) == IF st.n + 1 = failAt THEN [ok |-> FALSE, st |-> [st EXCEPT !.n = @ + 1], id |-> 0]
                     ELSE [ok |-> TRUE, st |-> [st EXCEPT !.n = @ + 1, !.live = @ \cup {st.n + 1}], id |-> st.n + 1]
Free(st, id) == IF id \in st.live THEN [st EXCEPT !.live = @ \ {id}, !.freed = @ \cup {id}]
                ELSE [st EXCEPT !.dbl = TRUE]

(* a constructed (possibly partially) object: [self |-> id, bufs |-> seq of ids, kids |-> seq of objects, lost |-> ids not reachable by dctor] *)
RECURSIVE Delete(_, _), DeleteKids(_, _, _), FreeBufs(_, _, _), New(_, _, _), BuildKids(_, _, _, _, _), BuildBufs(_, _, _, _, _)
FreeBufs(st, bufs, i) == IF i > Len(bufs) THEN st ELSE FreeBufs(Free(st, bufs[i]), bufs, i + 1)
DeleteKids(st, kids, i) == IF i > Len(kids) THEN st ELSE DeleteKids(Delete(st, kids[i]), kids, i + 1)
Delete(st, obj) == Free(FreeBufs(DeleteKids(st, obj.kids, 1), obj.bufs, 1), obj.self)      \* dctor, then free(p)

BuildBufs(st, failAt, want, i, acc) ==
  IF i > want THEN [ok |-> TRUE, st |-> st, bufs |-> acc]
  ELSE LET a == Alloc(st, failAt) IN
         IF a.ok THEN BuildBufs(a.st, failAt, want, i + 1, Append(acc, a.id)) ELSE [ok |-> FALSE, st |-> a.st, bufs |-> acc]
BuildKids(st, failAt, types, i, acc) ==
  IF i > Len(types) THEN [ok |-> TRUE, st |-> st, kids |-> acc]
  ELSE LET k == New(st, failAt, types[i]) IN
         IF k.ok THEN BuildKids(k.st, failAt, types, i + 1, Append(acc, k.obj)) ELSE [ok |-> FALSE, st |-> k.st, kids |-> acc]

(* EB_NEW(type) *)
New(st, failAt, type) ==
  LET a == Alloc(st, failAt) IN
  IF ~a.ok THEN [ok |-> FALSE, st |-> a.st, obj |-> [self |-> 0, bufs |-> <<>>, kids |-> <<>>]]
  ELSE
    (* a leaky constructor allocates one buffer BEFORE it sets dctor and keeps it in a local until the end *)
    LET pre == IF type.leaky THEN Alloc(a.st, failAt) ELSE [ok |-> TRUE, st |-> a.st, id |-> 0]
    IN IF ~pre.ok THEN [ok |-> FALSE, st |-> Free(pre.st, a.id), obj |-> [self |-> 0, bufs |-> <<>>, kids |-> <<>>]]   \* dctor not set yet: only p is freed
       ELSE
         LET ks == BuildKids(pre.st, failAt, type.kids, 1, <<>>)
             bs == IF ks.ok THEN BuildBufs(ks.st, failAt, type.bufs, 1, <<>>) ELSE [ok |-> FALSE, st |-> ks.st, bufs |-> <<>>]
             full == [self |-> a.id, bufs |-> IF type.leaky /\ bs.ok THEN Append(bs.bufs, pre.id) ELSE bs.bufs, kids |-> ks.kids]
         IN IF bs.ok THEN [ok |-> TRUE, st |-> bs.st, obj |-> full]
            ELSE [ok |-> FALSE, st |-> Delete(bs.st, full), obj |-> full]          \* EB_NEW: ctor failed => EB_DELETE(p)

St0 == [n |-> 0, live |-> {}, freed |-> {}, dbl |-> FALSE]

VARIABLES type, failAt, result
Init == /\ type \in Shapes(MaxDepth)
        /\ failAt \in 0 .. 14            \* 0 = no fault
        /\ result = New(St0, failAt, type)
Next == UNCHANGED <<type, failAt, result>>
Spec == Init /\ [][Next]_<<type, failAt, result>>

(* C16: a failed construction leaves nothing behind and frees nothing twice *)
FailedNewUnwound == ~result.ok => (result.st.live = {} /\ ~result.st.dbl)
(* a successful construction is released completely by the destructor *)
DeleteReleasesAll == result.ok => LET s == Delete(result.st, result.obj) IN s.live = {} /\ ~s.dbl
(* the fault is reported: if the failing allocation was reached the construction fails *)
FaultReported == (failAt > 0 /\ result.st.n >= failAt) => ~result.ok
=============================================================================
