------------------------------ MODULE Session ------------------------------
(***************************************************************************)
(* What the application observes at the encoder API between init and       *)
(* teardown (C03, C27): submissions, packets, reconstructed pictures.      *)
(*   svt_av1_enc_send_picture / _get_packet / _release_out_buffer /        *)
(*   svt_av1_get_recon  (Source/Lib/Encoder/Globals/EbEncHandle.c)         *)
(* Timestamps and private pointers are opaque tokens (strings).            *)
(***************************************************************************)
EXTENDS Integers, Sequences, FiniteSets, TLC, Json, IOUtils

Tr == ndJsonDeserialize(IOEnv.TRACE)

VARIABLES l,
  sent,      \* sequence of [pts, priv] in submission order
  eos,       \* end-of-stream submitted
  np,        \* packets received
  pEos,      \* the packet with the EOS flag was received
  recons,    \* display positions for which a reconstructed picture was received
  rEos,      \* the reconstructed picture with the EOS flag was received
  reconOn    \* recon_enabled
vars == <<l, sent, eos, np, pEos, recons, rEos, reconOn>>

Ev == Tr[l]
IsEv(e) == l <= Len(Tr) /\ Ev.ev = e /\ l' = l + 1

Init == l = 1 /\ sent = <<>> /\ eos = FALSE /\ np = 0 /\ pEos = FALSE /\ recons = {} /\ rEos = FALSE /\ reconOn = FALSE

Start ==
  /\ IsEv("Start")
  /\ sent' = <<>> /\ eos' = FALSE /\ np' = 0 /\ pEos' = FALSE /\ recons' = {} /\ rEos' = FALSE
  /\ reconOn' = (Ev.recon = 1)

Send ==
  /\ IsEv("Send") /\ ~eos /\ Ev.rc = 0
  /\ Ev.k = Len(sent)
  /\ sent' = Append(sent, [pts |-> Ev.pts, priv |-> Ev.priv])
  /\ UNCHANGED <<eos, np, pEos, recons, rEos, reconOn>>

SendEos ==
  /\ IsEv("SendEos") /\ ~eos /\ Ev.rc = 0
  /\ eos' = TRUE
  /\ UNCHANGED <<sent, np, pEos, recons, rEos, reconOn>>

(* the k-th packet carries pts and private pointer of the k-th submitted picture, dts = pts;     *)
(* exactly the last packet carries EOS; nothing follows it; error packets are not behaviours     *)
Packet ==
  /\ IsEv("Packet")
  /\ ~pEos
  /\ Ev.rc = 0
  /\ Ev.i = np /\ np < Len(sent)
  /\ Ev.pts = sent[np + 1].pts
  /\ Ev.dts = Ev.pts
  /\ Ev.priv = sent[np + 1].priv
  /\ (Ev.eosflag = 1) <=> (eos /\ np + 1 = Len(sent))
  /\ Ev.len > 0
  /\ np' = np + 1
  /\ pEos' = (Ev.eosflag = 1)
  /\ UNCHANGED <<sent, eos, recons, rEos, reconOn>>

(* one reconstructed picture per display position; the last one delivered carries EOS *)
Recon ==
  /\ IsEv("Recon")
  /\ reconOn /\ ~rEos /\ Ev.rc = 0
  /\ Ev.pos \in 0 .. Len(sent) - 1
  /\ Ev.pos \notin recons
  /\ (Ev.eosflag = 1) <=> (eos /\ Cardinality(recons) + 1 = Len(sent))
  /\ recons' = recons \cup {Ev.pos}
  /\ rEos' = (Ev.eosflag = 1)
  /\ UNCHANGED <<sent, eos, np, pEos, reconOn>>

(* the application finished draining after end-of-stream *)
Drained ==
  /\ IsEv("Drained")
  /\ eos
  /\ np = Len(sent)
  /\ pEos <=> (Len(sent) > 0)
  /\ reconOn => (recons = 0 .. Len(sent) - 1 /\ (rEos <=> Len(sent) > 0))
  /\ UNCHANGED <<sent, eos, np, pEos, recons, rEos, reconOn>>

Next == Start \/ Send \/ SendEos \/ Packet \/ Recon \/ Drained
Spec == Init /\ [][Next]_vars
TraceAccepted == TLCGet("stats").diameter - 1 = Len(Tr)
=============================================================================
