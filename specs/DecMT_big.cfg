SPECIFICATION Spec
CONSTANTS T = 3 R = 2 F = 2 FixedBarrier = FALSE
INVARIANTS NeverTwice AllDoneAtEnd StageOrder BarrierBeforeReuse NoStaleStart
CHECK_DEADLOCK FALSE
