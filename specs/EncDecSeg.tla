----------------------------- MODULE EncDecSeg -----------------------------
(***************************************************************************)
(* Wave-front scheduling of EncDec segments                                *)
(*   Source/Lib/Encoder/Codec/EbEncDecSegments.c  (enc_dec_segments_init)  *)
(*   Source/Lib/Encoder/Codec/EbEncDecProcess.c   (assign_enc_dec_segments *)
(*                                and the segment loop of mode_decision_kernel) *)
(*                                                                         *)
(* A picture (or tile group) of W x H superblocks is cut into              *)
(* segment rows x diagonal bands.  Geometry is derived exactly as the C    *)
(* code derives it (integer division as in C).  Workers take tasks from    *)
(* the feedback FIFO, process a segment, then under the row mutexes        *)
(* decrement the dependency counters of the right and bottom-left          *)
(* neighbours and continue with whichever became ready.                    *)
(***************************************************************************)
EXTENDS Integers, Sequences, FiniteSets

NONE == -1
Min(a, b) == IF a < b THEN a ELSE b
Max(a, b) == IF a > b THEN a ELSE b

(* ------------------------------------------------------------------------ *)
(* static geometry: enc_dec_segments_init :72-163                            *)
(* G(W,H,SCreq,SRreq,MaxRows) returns the record the C struct holds          *)
SegCols(W, SCreq) == Min(SCreq, W)
(* one segment row when the picture is a single superblock wide (no wavefront exists), :80-83 *)
SegRows(W, H, SRreq, MaxRows) == IF W = 1 THEN 1 ELSE Min(Min(SRreq, H), MaxRows)

BandTotal(rows, cols) == rows + cols - 1
BandIndex(x, y, segBand, sbBand) == ((x + y) * segBand) \div sbBand
RowIndex(y, segRows, sbRows) == (y * segRows) \div sbRows
SegIndex(r, b, segBand) == r * segBand + b

Geo(W, H, SCreq, SRreq, MaxRows) ==
  LET sc == SegCols(W, SCreq)
      sr == SegRows(W, H, SRreq, MaxRows)
      sbBand == BandTotal(H, W)
      segBand == BandTotal(sr, sc)
      ttl == sr * segBand
      segOf(x, y) == SegIndex(RowIndex(y, sr, H), BandIndex(x, y, segBand, sbBand), segBand)
      sbs(s) == {<<x, y>> \in (0 .. W - 1) \X (0 .. H - 1) : segOf(x, y) = s}
      valid == [s \in 0 .. ttl - 1 |-> Cardinality(sbs(s))]
      (* first SB of the segment in raster order (y outer loop, x inner loop) *)
      firstSb(s) == CHOOSE p \in sbs(s) : \A q \in sbs(s) : (p[2] < q[2]) \/ (p[2] = q[2] /\ p[1] <= q[1])
      xs == [s \in 0 .. ttl - 1 |-> IF valid[s] = 0 THEN NONE ELSE firstSb(s)[1]]
      ys == [s \in 0 .. ttl - 1 |-> IF valid[s] = 0 THEN NONE ELSE firstSb(s)[2]]
      yTop(r) == (r * H + (sr - 1)) \div sr
      yLast(r) == (((r + 1) * H + (sr - 1)) \div sr) - 1
      rStart == [r \in 0 .. sr - 1 |-> SegIndex(r, BandIndex(0, yTop(r), segBand, sbBand), segBand)]
      rEnd == [r \in 0 .. sr - 1 |-> SegIndex(r, BandIndex(W - 1, yLast(r), segBand, sbBand), segBand)]
      (* dependency map :139-160 *)
      inRow(r, s) == rStart[r] <= s /\ s <= rEnd[r]
      depOf(t) ==
          Cardinality({s \in 0 .. ttl - 1 : \E r \in 0 .. sr - 1 :
                          inRow(r, s) /\ valid[s] > 0 /\ s < rEnd[r] /\ s + 1 = t})
        + Cardinality({s \in 0 .. ttl - 1 : \E r \in 0 .. sr - 1 :
                          inRow(r, s) /\ valid[s] > 0 /\ r < sr - 1
                          /\ s + segBand >= rStart[r + 1] /\ s + segBand = t})
  IN [W |-> W, H |-> H, sc |-> sc, sr |-> sr, sbBand |-> sbBand, segBand |-> segBand, ttl |-> ttl,
      valid |-> valid, xs |-> xs, ys |-> ys, rStart |-> rStart, rEnd |-> rEnd,
      dep0 |-> [t \in 0 .. ttl - 1 |-> depOf(t)]]

(* the segment to which enc_dec_segments_init maps SB (x,y) *)
SegOfSb(g, x, y) == SegIndex(RowIndex(y, g.sr, g.H), BandIndex(x, y, g.segBand, g.sbBand), g.segBand)

(* ------------------------------------------------------------------------ *)
(* SB visiting order of one segment: the loop of mode_decision_kernel :4435-4684 *)
(*   for (y = ys, i = 0; i < cnt; ++y) {                                      *)
(*     for (x = xstart; x < W && x + y < bandSize && i < cnt; ++x, ++i) visit *)
(*     xstart = xstart > 0 ? xstart - 1 : 0; }                                *)
BandSize(g, s) == LET b == s - (s \div g.segBand) * g.segBand
                  IN (g.sbBand * (b + 1) + g.segBand - 1) \div g.segBand

RECURSIVE RowVisit(_, _, _, _, _, _)
RowVisit(g, s, x, y, n, acc) ==      \* inner loop; returns <<acc', n'>>
  IF x < g.W /\ x + y < BandSize(g, s) /\ n < g.valid[s]
    THEN RowVisit(g, s, x + 1, y, n + 1, Append(acc, <<x, y>>))
    ELSE <<acc, n>>

RECURSIVE SegVisit(_, _, _, _, _, _)
SegVisit(g, s, xstart, y, n, acc) ==  \* outer loop; y is bounded so that a broken geometry terminates
  IF n < g.valid[s] /\ y < g.H + g.W + 2
    THEN LET r == RowVisit(g, s, xstart, y, n, acc)
         IN SegVisit(g, s, IF xstart > 0 THEN xstart - 1 ELSE 0, y + 1, r[2], r[1])
    ELSE acc

SegOrder(g, s) == IF g.valid[s] = 0 THEN <<>> ELSE SegVisit(g, s, g.xs[s], g.ys[s], 0, <<>>)
SeqSet(q) == {q[i] : i \in 1 .. Len(q)}

(* static well-formedness of a geometry (scheduling independent half of C24) *)
(* 1. the loop visits exactly the superblocks the init maps to the segment, each once, inside the picture *)
LoopMatchesMap(g) ==
  \A s \in 0 .. g.ttl - 1 :
    LET o == SegOrder(g, s) IN
      /\ Len(o) = g.valid[s]
      /\ Cardinality(SeqSet(o)) = Len(o)
      /\ SeqSet(o) = {<<x, y>> \in (0 .. g.W - 1) \X (0 .. g.H - 1) : SegOfSb(g, x, y) = s}
(* 2. every superblock belongs to a segment that lies inside the [start,end] range of its row *)
AllSbCovered(g) ==
  \A x \in 0 .. g.W - 1 : \A y \in 0 .. g.H - 1 :
    LET s == SegOfSb(g, x, y)  r == s \div g.segBand IN
      r \in 0 .. g.sr - 1 /\ g.rStart[r] <= s /\ s <= g.rEnd[r]
(* 3. inside one segment the loop order respects the neighbour order *)
Nbrs(g, x, y) == {p \in {<<x - 1, y>>, <<x - 1, y - 1>>, <<x, y - 1>>, <<x + 1, y - 1>>} :
                    p[1] \in 0 .. g.W - 1 /\ p[2] \in 0 .. g.H - 1}
PosIn(o, p) == CHOOSE i \in 1 .. Len(o) : o[i] = p
IntraSegOrder(g) ==
  \A s \in 0 .. g.ttl - 1 :
    LET o == SegOrder(g, s) IN
      \A i \in 1 .. Len(o) : \A p \in Nbrs(g, o[i][1], o[i][2]) :
         p \in SeqSet(o) => PosIn(o, p) < i
(* 4. the dependency partial order: every neighbour SB outside the segment lies in a segment that   *)
(*    precedes it through the chain of right / bottom-left links (so it has finished before start)  *)
Links(g) == {<<s, s + 1>> : s \in {s \in 0 .. g.ttl - 1 : \E r \in 0 .. g.sr - 1 :
                                       g.rStart[r] <= s /\ s < g.rEnd[r] /\ g.valid[s] > 0}}
            \cup
            {<<s, s + g.segBand>> : s \in {s \in 0 .. g.ttl - 1 : \E r \in 0 .. g.sr - 2 :
                                       g.rStart[r] <= s /\ s <= g.rEnd[r] /\ g.valid[s] > 0
                                       /\ s + g.segBand >= g.rStart[r + 1]}}

(* ------------------------------------------------------------------------ *)
(* pure transition functions of assign_enc_dec_segments (shared by the exhaustive model and the   *)
(* trace specification)                                                                            *)
RowOfSeg(g, s) == s \div g.segBand

(* ENCDEC_TASKS_CONTINUE, right neighbour :352-369.  Returns [dep, cur, got]: got = the segment the *)
(* caller continues with (NONE if the right neighbour did not become ready)                        *)
RightEffect(g, dep, cur, s) ==
  LET r == RowOfSeg(g, s) IN
    IF s < g.rEnd[r]
      THEN LET d == [dep EXCEPT ![s + 1] = @ - 1] IN
             IF d[s + 1] = 0
               THEN [dep |-> d, cur |-> [cur EXCEPT ![r] = @ + 1], got |-> cur[r], taken |-> TRUE]
               ELSE [dep |-> d, cur |-> cur, got |-> NONE, taken |-> TRUE]
      ELSE [dep |-> dep, cur |-> cur, got |-> NONE, taken |-> FALSE]

(* bottom-left neighbour :372-394.  self = the caller already self-assigned the right neighbour.  *)
(* Returns [dep, cur, got, fb]: fb = row for which a feedback task must be posted (NONE if none)  *)
BLEffect(g, dep, cur, s, self) ==
  LET r == RowOfSeg(g, s)  bl == s + g.segBand IN
    IF r < g.sr - 1 /\ bl >= g.rStart[r + 1]
      THEN LET d == [dep EXCEPT ![bl] = @ - 1] IN
             IF d[bl] = 0
               THEN IF self
                      THEN [dep |-> d, cur |-> cur, got |-> NONE, fb |-> r + 1, taken |-> TRUE]
                      ELSE [dep |-> d, cur |-> [cur EXCEPT ![r + 1] = @ + 1], got |-> cur[r + 1], fb |-> NONE, taken |-> TRUE]
               ELSE [dep |-> d, cur |-> cur, got |-> NONE, fb |-> NONE, taken |-> TRUE]
      ELSE [dep |-> dep, cur |-> cur, got |-> NONE, fb |-> NONE, taken |-> FALSE]
=============================================================================
