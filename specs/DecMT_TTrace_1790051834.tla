---- MODULE DecMT_TTrace_1790051834 ----
EXTENDS Sequences, TLCExt, DecMT, Toolbox, Naturals, TLC

_expression ==
    LET DecMT_TEExpression == INSTANCE DecMT_TEExpression
    IN DecMT_TEExpression!expression
----

_trace ==
    LET DecMT_TETrace == INSTANCE DecMT_TETrace
    IN DecMT_TETrace!trace
----

_inv ==
    ~(
        TLCGet("level") = Len(_TETrace)
        /\
        mpc = ("reset")
        /\
        tmpLock = (1)
        /\
        start = ([recon |-> TRUE, lf |-> TRUE, cdef |-> TRUE, lr |-> TRUE])
        /\
        count = (<<[recon |-> (0 :> 1 @@ 1 :> 1), lf |-> (0 :> 1 @@ 1 :> 1), cdef |-> (0 :> 1 @@ 1 :> 1), lr |-> (0 :> 1 @@ 1 :> 1)], [recon |-> (0 :> 0 @@ 1 :> 0), lf |-> (0 :> 0 @@ 1 :> 0), cdef |-> (0 :> 0 @@ 1 :> 0), lr |-> (0 :> 0 @@ 1 :> 0)]>>)
        /\
        doneMap = ([recon |-> (0 :> TRUE @@ 1 :> TRUE), lf |-> (0 :> TRUE @@ 1 :> TRUE), cdef |-> (0 :> TRUE @@ 1 :> TRUE), lr |-> (0 :> TRUE @@ 1 :> TRUE)])
        /\
        nextRow = ([recon |-> 2, lf |-> 2, cdef |-> 2, lr |-> 2])
        /\
        numLred = (2)
        /\
        pc = ((0 :> "main_setup" @@ 1 :> "bar_reset"))
        /\
        stale = (FALSE)
        /\
        stage = ((0 :> 1 @@ 1 :> 4))
        /\
        row = ((0 :> -1 @@ 1 :> -1))
        /\
        tframe = ((0 :> 2 @@ 1 :> 1))
        /\
        frame = (2)
    )
----

_init ==
    /\ doneMap = _TETrace[1].doneMap
    /\ numLred = _TETrace[1].numLred
    /\ nextRow = _TETrace[1].nextRow
    /\ start = _TETrace[1].start
    /\ stage = _TETrace[1].stage
    /\ pc = _TETrace[1].pc
    /\ row = _TETrace[1].row
    /\ tmpLock = _TETrace[1].tmpLock
    /\ frame = _TETrace[1].frame
    /\ tframe = _TETrace[1].tframe
    /\ count = _TETrace[1].count
    /\ stale = _TETrace[1].stale
    /\ mpc = _TETrace[1].mpc
----

_next ==
    /\ \E i,j \in DOMAIN _TETrace:
        /\ \/ /\ j = i + 1
              /\ i = TLCGet("level")
        /\ doneMap  = _TETrace[i].doneMap
        /\ doneMap' = _TETrace[j].doneMap
        /\ numLred  = _TETrace[i].numLred
        /\ numLred' = _TETrace[j].numLred
        /\ nextRow  = _TETrace[i].nextRow
        /\ nextRow' = _TETrace[j].nextRow
        /\ start  = _TETrace[i].start
        /\ start' = _TETrace[j].start
        /\ stage  = _TETrace[i].stage
        /\ stage' = _TETrace[j].stage
        /\ pc  = _TETrace[i].pc
        /\ pc' = _TETrace[j].pc
        /\ row  = _TETrace[i].row
        /\ row' = _TETrace[j].row
        /\ tmpLock  = _TETrace[i].tmpLock
        /\ tmpLock' = _TETrace[j].tmpLock
        /\ frame  = _TETrace[i].frame
        /\ frame' = _TETrace[j].frame
        /\ tframe  = _TETrace[i].tframe
        /\ tframe' = _TETrace[j].tframe
        /\ count  = _TETrace[i].count
        /\ count' = _TETrace[j].count
        /\ stale  = _TETrace[i].stale
        /\ stale' = _TETrace[j].stale
        /\ mpc  = _TETrace[i].mpc
        /\ mpc' = _TETrace[j].mpc

\* Uncomment the ASSUME below to write the states of the error trace
\* to the given file in Json format. Note that you can pass any tuple
\* to `JsonSerialize`. For example, a sub-sequence of _TETrace.
    \* ASSUME
    \*     LET J == INSTANCE Json
    \*         IN J!JsonSerialize("DecMT_TTrace_1790051834.json", _TETrace)

=============================================================================

 Note that you can extract this module `DecMT_TEExpression`
  to a dedicated file to reuse `expression` (the module in the 
  dedicated `DecMT_TEExpression.tla` file takes precedence 
  over the module `DecMT_TEExpression` below).

---- MODULE DecMT_TEExpression ----
EXTENDS Sequences, TLCExt, DecMT, Toolbox, Naturals, TLC

expression == 
    [
        \* To hide variables of the `DecMT` spec from the error trace,
        \* remove the variables below.  The trace will be written in the order
        \* of the fields of this record.
        doneMap |-> doneMap
        ,numLred |-> numLred
        ,nextRow |-> nextRow
        ,start |-> start
        ,stage |-> stage
        ,pc |-> pc
        ,row |-> row
        ,tmpLock |-> tmpLock
        ,frame |-> frame
        ,tframe |-> tframe
        ,count |-> count
        ,stale |-> stale
        ,mpc |-> mpc
        
        \* Put additional constant-, state-, and action-level expressions here:
        \* ,_stateNumber |-> _TEPosition
        \* ,_doneMapUnchanged |-> doneMap = doneMap'
        
        \* Format the `doneMap` variable as Json value.
        \* ,_doneMapJson |->
        \*     LET J == INSTANCE Json
        \*     IN J!ToJson(doneMap)
        
        \* Lastly, you may build expressions over arbitrary sets of states by
        \* leveraging the _TETrace operator.  For example, this is how to
        \* count the number of times a spec variable changed up to the current
        \* state in the trace.
        \* ,_doneMapModCount |->
        \*     LET F[s \in DOMAIN _TETrace] ==
        \*         IF s = 1 THEN 0
        \*         ELSE IF _TETrace[s].doneMap # _TETrace[s-1].doneMap
        \*             THEN 1 + F[s-1] ELSE F[s-1]
        \*     IN F[_TEPosition - 1]
    ]

=============================================================================



Parsing and semantic processing can take forever if the trace below is long.
 In this case, it is advised to uncomment the module below to deserialize the
 trace from a generated binary file.

\*
\*---- MODULE DecMT_TETrace ----
\*EXTENDS IOUtils, DecMT, TLC
\*
\*trace == IODeserialize("DecMT_TTrace_1790051834.bin", TRUE)
\*
\*=============================================================================
\*

---- MODULE DecMT_TETrace ----
EXTENDS DecMT, TLC

trace == 
    <<
    ([mpc |-> "reset",tmpLock |-> -1,start |-> [recon |-> FALSE, lf |-> FALSE, cdef |-> FALSE, lr |-> FALSE],count |-> <<[recon |-> (0 :> 0 @@ 1 :> 0), lf |-> (0 :> 0 @@ 1 :> 0), cdef |-> (0 :> 0 @@ 1 :> 0), lr |-> (0 :> 0 @@ 1 :> 0)], [recon |-> (0 :> 0 @@ 1 :> 0), lf |-> (0 :> 0 @@ 1 :> 0), cdef |-> (0 :> 0 @@ 1 :> 0), lr |-> (0 :> 0 @@ 1 :> 0)]>>,doneMap |-> [recon |-> (0 :> FALSE @@ 1 :> FALSE), lf |-> (0 :> FALSE @@ 1 :> FALSE), cdef |-> (0 :> FALSE @@ 1 :> FALSE), lr |-> (0 :> FALSE @@ 1 :> FALSE)],nextRow |-> [recon |-> 0, lf |-> 0, cdef |-> 0, lr |-> 0],numLred |-> 0,pc |-> (0 :> "main_setup" @@ 1 :> "wait_start"),stale |-> FALSE,stage |-> (0 :> 1 @@ 1 :> 1),row |-> (0 :> -1 @@ 1 :> -1),tframe |-> (0 :> 1 @@ 1 :> 1),frame |-> 1]),
    ([mpc |-> "zero",tmpLock |-> -1,start |-> [recon |-> FALSE, lf |-> FALSE, cdef |-> FALSE, lr |-> FALSE],count |-> <<[recon |-> (0 :> 0 @@ 1 :> 0), lf |-> (0 :> 0 @@ 1 :> 0), cdef |-> (0 :> 0 @@ 1 :> 0), lr |-> (0 :> 0 @@ 1 :> 0)], [recon |-> (0 :> 0 @@ 1 :> 0), lf |-> (0 :> 0 @@ 1 :> 0), cdef |-> (0 :> 0 @@ 1 :> 0), lr |-> (0 :> 0 @@ 1 :> 0)]>>,doneMap |-> [recon |-> (0 :> FALSE @@ 1 :> FALSE), lf |-> (0 :> FALSE @@ 1 :> FALSE), cdef |-> (0 :> FALSE @@ 1 :> FALSE), lr |-> (0 :> FALSE @@ 1 :> FALSE)],nextRow |-> [recon |-> 0, lf |-> 0, cdef |-> 0, lr |-> 0],numLred |-> 0,pc |-> (0 :> "main_setup" @@ 1 :> "wait_start"),stale |-> FALSE,stage |-> (0 :> 1 @@ 1 :> 1),row |-> (0 :> -1 @@ 1 :> -1),tframe |-> (0 :> 1 @@ 1 :> 1),frame |-> 1]),
    ([mpc |-> "flags",tmpLock |-> -1,start |-> [recon |-> FALSE, lf |-> FALSE, cdef |-> FALSE, lr |-> FALSE],count |-> <<[recon |-> (0 :> 0 @@ 1 :> 0), lf |-> (0 :> 0 @@ 1 :> 0), cdef |-> (0 :> 0 @@ 1 :> 0), lr |-> (0 :> 0 @@ 1 :> 0)], [recon |-> (0 :> 0 @@ 1 :> 0), lf |-> (0 :> 0 @@ 1 :> 0), cdef |-> (0 :> 0 @@ 1 :> 0), lr |-> (0 :> 0 @@ 1 :> 0)]>>,doneMap |-> [recon |-> (0 :> FALSE @@ 1 :> FALSE), lf |-> (0 :> FALSE @@ 1 :> FALSE), cdef |-> (0 :> FALSE @@ 1 :> FALSE), lr |-> (0 :> FALSE @@ 1 :> FALSE)],nextRow |-> [recon |-> 0, lf |-> 0, cdef |-> 0, lr |-> 0],numLred |-> 0,pc |-> (0 :> "main_setup" @@ 1 :> "wait_start"),stale |-> FALSE,stage |-> (0 :> 1 @@ 1 :> 1),row |-> (0 :> -1 @@ 1 :> -1),tframe |-> (0 :> 1 @@ 1 :> 1),frame |-> 1]),
    ([mpc |-> "flags",tmpLock |-> -1,start |-> [recon |-> TRUE, lf |-> FALSE, cdef |-> FALSE, lr |-> FALSE],count |-> <<[recon |-> (0 :> 0 @@ 1 :> 0), lf |-> (0 :> 0 @@ 1 :> 0), cdef |-> (0 :> 0 @@ 1 :> 0), lr |-> (0 :> 0 @@ 1 :> 0)], [recon |-> (0 :> 0 @@ 1 :> 0), lf |-> (0 :> 0 @@ 1 :> 0), cdef |-> (0 :> 0 @@ 1 :> 0), lr |-> (0 :> 0 @@ 1 :> 0)]>>,doneMap |-> [recon |-> (0 :> FALSE @@ 1 :> FALSE), lf |-> (0 :> FALSE @@ 1 :> FALSE), cdef |-> (0 :> FALSE @@ 1 :> FALSE), lr |-> (0 :> FALSE @@ 1 :> FALSE)],nextRow |-> [recon |-> 0, lf |-> 0, cdef |-> 0, lr |-> 0],numLred |-> 0,pc |-> (0 :> "main_setup" @@ 1 :> "wait_start"),stale |-> FALSE,stage |-> (0 :> 1 @@ 1 :> 1),row |-> (0 :> -1 @@ 1 :> -1),tframe |-> (0 :> 1 @@ 1 :> 1),frame |-> 1]),
    ([mpc |-> "flags",tmpLock |-> -1,start |-> [recon |-> TRUE, lf |-> TRUE, cdef |-> FALSE, lr |-> FALSE],count |-> <<[recon |-> (0 :> 0 @@ 1 :> 0), lf |-> (0 :> 0 @@ 1 :> 0), cdef |-> (0 :> 0 @@ 1 :> 0), lr |-> (0 :> 0 @@ 1 :> 0)], [recon |-> (0 :> 0 @@ 1 :> 0), lf |-> (0 :> 0 @@ 1 :> 0), cdef |-> (0 :> 0 @@ 1 :> 0), lr |-> (0 :> 0 @@ 1 :> 0)]>>,doneMap |-> [recon |-> (0 :> FALSE @@ 1 :> FALSE), lf |-> (0 :> FALSE @@ 1 :> FALSE), cdef |-> (0 :> FALSE @@ 1 :> FALSE), lr |-> (0 :> FALSE @@ 1 :> FALSE)],nextRow |-> [recon |-> 0, lf |-> 0, cdef |-> 0, lr |-> 0],numLred |-> 0,pc |-> (0 :> "main_setup" @@ 1 :> "wait_start"),stale |-> FALSE,stage |-> (0 :> 1 @@ 1 :> 1),row |-> (0 :> -1 @@ 1 :> -1),tframe |-> (0 :> 1 @@ 1 :> 1),frame |-> 1]),
    ([mpc |-> "flags",tmpLock |-> -1,start |-> [recon |-> TRUE, lf |-> TRUE, cdef |-> TRUE, lr |-> FALSE],count |-> <<[recon |-> (0 :> 0 @@ 1 :> 0), lf |-> (0 :> 0 @@ 1 :> 0), cdef |-> (0 :> 0 @@ 1 :> 0), lr |-> (0 :> 0 @@ 1 :> 0)], [recon |-> (0 :> 0 @@ 1 :> 0), lf |-> (0 :> 0 @@ 1 :> 0), cdef |-> (0 :> 0 @@ 1 :> 0), lr |-> (0 :> 0 @@ 1 :> 0)]>>,doneMap |-> [recon |-> (0 :> FALSE @@ 1 :> FALSE), lf |-> (0 :> FALSE @@ 1 :> FALSE), cdef |-> (0 :> FALSE @@ 1 :> FALSE), lr |-> (0 :> FALSE @@ 1 :> FALSE)],nextRow |-> [recon |-> 0, lf |-> 0, cdef |-> 0, lr |-> 0],numLred |-> 0,pc |-> (0 :> "main_setup" @@ 1 :> "wait_start"),stale |-> FALSE,stage |-> (0 :> 1 @@ 1 :> 1),row |-> (0 :> -1 @@ 1 :> -1),tframe |-> (0 :> 1 @@ 1 :> 1),frame |-> 1]),
    ([mpc |-> "joined",tmpLock |-> -1,start |-> [recon |-> TRUE, lf |-> TRUE, cdef |-> TRUE, lr |-> TRUE],count |-> <<[recon |-> (0 :> 0 @@ 1 :> 0), lf |-> (0 :> 0 @@ 1 :> 0), cdef |-> (0 :> 0 @@ 1 :> 0), lr |-> (0 :> 0 @@ 1 :> 0)], [recon |-> (0 :> 0 @@ 1 :> 0), lf |-> (0 :> 0 @@ 1 :> 0), cdef |-> (0 :> 0 @@ 1 :> 0), lr |-> (0 :> 0 @@ 1 :> 0)]>>,doneMap |-> [recon |-> (0 :> FALSE @@ 1 :> FALSE), lf |-> (0 :> FALSE @@ 1 :> FALSE), cdef |-> (0 :> FALSE @@ 1 :> FALSE), lr |-> (0 :> FALSE @@ 1 :> FALSE)],nextRow |-> [recon |-> 0, lf |-> 0, cdef |-> 0, lr |-> 0],numLred |-> 0,pc |-> (0 :> "wait_start" @@ 1 :> "wait_start"),stale |-> FALSE,stage |-> (0 :> 1 @@ 1 :> 1),row |-> (0 :> -1 @@ 1 :> -1),tframe |-> (0 :> 1 @@ 1 :> 1),frame |-> 1]),
    ([mpc |-> "joined",tmpLock |-> -1,start |-> [recon |-> TRUE, lf |-> TRUE, cdef |-> TRUE, lr |-> TRUE],count |-> <<[recon |-> (0 :> 0 @@ 1 :> 0), lf |-> (0 :> 0 @@ 1 :> 0), cdef |-> (0 :> 0 @@ 1 :> 0), lr |-> (0 :> 0 @@ 1 :> 0)], [recon |-> (0 :> 0 @@ 1 :> 0), lf |-> (0 :> 0 @@ 1 :> 0), cdef |-> (0 :> 0 @@ 1 :> 0), lr |-> (0 :> 0 @@ 1 :> 0)]>>,doneMap |-> [recon |-> (0 :> FALSE @@ 1 :> FALSE), lf |-> (0 :> FALSE @@ 1 :> FALSE), cdef |-> (0 :> FALSE @@ 1 :> FALSE), lr |-> (0 :> FALSE @@ 1 :> FALSE)],nextRow |-> [recon |-> 0, lf |-> 0, cdef |-> 0, lr |-> 0],numLred |-> 0,pc |-> (0 :> "take" @@ 1 :> "wait_start"),stale |-> FALSE,stage |-> (0 :> 1 @@ 1 :> 1),row |-> (0 :> -1 @@ 1 :> -1),tframe |-> (0 :> 1 @@ 1 :> 1),frame |-> 1]),
    ([mpc |-> "joined",tmpLock |-> -1,start |-> [recon |-> TRUE, lf |-> TRUE, cdef |-> TRUE, lr |-> TRUE],count |-> <<[recon |-> (0 :> 0 @@ 1 :> 0), lf |-> (0 :> 0 @@ 1 :> 0), cdef |-> (0 :> 0 @@ 1 :> 0), lr |-> (0 :> 0 @@ 1 :> 0)], [recon |-> (0 :> 0 @@ 1 :> 0), lf |-> (0 :> 0 @@ 1 :> 0), cdef |-> (0 :> 0 @@ 1 :> 0), lr |-> (0 :> 0 @@ 1 :> 0)]>>,doneMap |-> [recon |-> (0 :> FALSE @@ 1 :> FALSE), lf |-> (0 :> FALSE @@ 1 :> FALSE), cdef |-> (0 :> FALSE @@ 1 :> FALSE), lr |-> (0 :> FALSE @@ 1 :> FALSE)],nextRow |-> [recon |-> 1, lf |-> 0, cdef |-> 0, lr |-> 0],numLred |-> 0,pc |-> (0 :> "deps" @@ 1 :> "wait_start"),stale |-> FALSE,stage |-> (0 :> 1 @@ 1 :> 1),row |-> (0 :> 0 @@ 1 :> -1),tframe |-> (0 :> 1 @@ 1 :> 1),frame |-> 1]),
    ([mpc |-> "joined",tmpLock |-> -1,start |-> [recon |-> TRUE, lf |-> TRUE, cdef |-> TRUE, lr |-> TRUE],count |-> <<[recon |-> (0 :> 0 @@ 1 :> 0), lf |-> (0 :> 0 @@ 1 :> 0), cdef |-> (0 :> 0 @@ 1 :> 0), lr |-> (0 :> 0 @@ 1 :> 0)], [recon |-> (0 :> 0 @@ 1 :> 0), lf |-> (0 :> 0 @@ 1 :> 0), cdef |-> (0 :> 0 @@ 1 :> 0), lr |-> (0 :> 0 @@ 1 :> 0)]>>,doneMap |-> [recon |-> (0 :> FALSE @@ 1 :> FALSE), lf |-> (0 :> FALSE @@ 1 :> FALSE), cdef |-> (0 :> FALSE @@ 1 :> FALSE), lr |-> (0 :> FALSE @@ 1 :> FALSE)],nextRow |-> [recon |-> 1, lf |-> 0, cdef |-> 0, lr |-> 0],numLred |-> 0,pc |-> (0 :> "work" @@ 1 :> "wait_start"),stale |-> FALSE,stage |-> (0 :> 1 @@ 1 :> 1),row |-> (0 :> 0 @@ 1 :> -1),tframe |-> (0 :> 1 @@ 1 :> 1),frame |-> 1]),
    ([mpc |-> "joined",tmpLock |-> -1,start |-> [recon |-> TRUE, lf |-> TRUE, cdef |-> TRUE, lr |-> TRUE],count |-> <<[recon |-> (0 :> 1 @@ 1 :> 0), lf |-> (0 :> 0 @@ 1 :> 0), cdef |-> (0 :> 0 @@ 1 :> 0), lr |-> (0 :> 0 @@ 1 :> 0)], [recon |-> (0 :> 0 @@ 1 :> 0), lf |-> (0 :> 0 @@ 1 :> 0), cdef |-> (0 :> 0 @@ 1 :> 0), lr |-> (0 :> 0 @@ 1 :> 0)]>>,doneMap |-> [recon |-> (0 :> TRUE @@ 1 :> FALSE), lf |-> (0 :> FALSE @@ 1 :> FALSE), cdef |-> (0 :> FALSE @@ 1 :> FALSE), lr |-> (0 :> FALSE @@ 1 :> FALSE)],nextRow |-> [recon |-> 1, lf |-> 0, cdef |-> 0, lr |-> 0],numLred |-> 0,pc |-> (0 :> "take" @@ 1 :> "wait_start"),stale |-> FALSE,stage |-> (0 :> 1 @@ 1 :> 1),row |-> (0 :> 0 @@ 1 :> -1),tframe |-> (0 :> 1 @@ 1 :> 1),frame |-> 1]),
    ([mpc |-> "joined",tmpLock |-> -1,start |-> [recon |-> TRUE, lf |-> TRUE, cdef |-> TRUE, lr |-> TRUE],count |-> <<[recon |-> (0 :> 1 @@ 1 :> 0), lf |-> (0 :> 0 @@ 1 :> 0), cdef |-> (0 :> 0 @@ 1 :> 0), lr |-> (0 :> 0 @@ 1 :> 0)], [recon |-> (0 :> 0 @@ 1 :> 0), lf |-> (0 :> 0 @@ 1 :> 0), cdef |-> (0 :> 0 @@ 1 :> 0), lr |-> (0 :> 0 @@ 1 :> 0)]>>,doneMap |-> [recon |-> (0 :> TRUE @@ 1 :> FALSE), lf |-> (0 :> FALSE @@ 1 :> FALSE), cdef |-> (0 :> FALSE @@ 1 :> FALSE), lr |-> (0 :> FALSE @@ 1 :> FALSE)],nextRow |-> [recon |-> 2, lf |-> 0, cdef |-> 0, lr |-> 0],numLred |-> 0,pc |-> (0 :> "deps" @@ 1 :> "wait_start"),stale |-> FALSE,stage |-> (0 :> 1 @@ 1 :> 1),row |-> (0 :> 1 @@ 1 :> -1),tframe |-> (0 :> 1 @@ 1 :> 1),frame |-> 1]),
    ([mpc |-> "joined",tmpLock |-> -1,start |-> [recon |-> TRUE, lf |-> TRUE, cdef |-> TRUE, lr |-> TRUE],count |-> <<[recon |-> (0 :> 1 @@ 1 :> 0), lf |-> (0 :> 0 @@ 1 :> 0), cdef |-> (0 :> 0 @@ 1 :> 0), lr |-> (0 :> 0 @@ 1 :> 0)], [recon |-> (0 :> 0 @@ 1 :> 0), lf |-> (0 :> 0 @@ 1 :> 0), cdef |-> (0 :> 0 @@ 1 :> 0), lr |-> (0 :> 0 @@ 1 :> 0)]>>,doneMap |-> [recon |-> (0 :> TRUE @@ 1 :> FALSE), lf |-> (0 :> FALSE @@ 1 :> FALSE), cdef |-> (0 :> FALSE @@ 1 :> FALSE), lr |-> (0 :> FALSE @@ 1 :> FALSE)],nextRow |-> [recon |-> 2, lf |-> 0, cdef |-> 0, lr |-> 0],numLred |-> 0,pc |-> (0 :> "work" @@ 1 :> "wait_start"),stale |-> FALSE,stage |-> (0 :> 1 @@ 1 :> 1),row |-> (0 :> 1 @@ 1 :> -1),tframe |-> (0 :> 1 @@ 1 :> 1),frame |-> 1]),
    ([mpc |-> "joined",tmpLock |-> -1,start |-> [recon |-> TRUE, lf |-> TRUE, cdef |-> TRUE, lr |-> TRUE],count |-> <<[recon |-> (0 :> 1 @@ 1 :> 0), lf |-> (0 :> 0 @@ 1 :> 0), cdef |-> (0 :> 0 @@ 1 :> 0), lr |-> (0 :> 0 @@ 1 :> 0)], [recon |-> (0 :> 0 @@ 1 :> 0), lf |-> (0 :> 0 @@ 1 :> 0), cdef |-> (0 :> 0 @@ 1 :> 0), lr |-> (0 :> 0 @@ 1 :> 0)]>>,doneMap |-> [recon |-> (0 :> TRUE @@ 1 :> FALSE), lf |-> (0 :> FALSE @@ 1 :> FALSE), cdef |-> (0 :> FALSE @@ 1 :> FALSE), lr |-> (0 :> FALSE @@ 1 :> FALSE)],nextRow |-> [recon |-> 2, lf |-> 0, cdef |-> 0, lr |-> 0],numLred |-> 0,pc |-> (0 :> "work" @@ 1 :> "take"),stale |-> FALSE,stage |-> (0 :> 1 @@ 1 :> 1),row |-> (0 :> 1 @@ 1 :> -1),tframe |-> (0 :> 1 @@ 1 :> 1),frame |-> 1]),
    ([mpc |-> "joined",tmpLock |-> -1,start |-> [recon |-> TRUE, lf |-> TRUE, cdef |-> TRUE, lr |-> TRUE],count |-> <<[recon |-> (0 :> 1 @@ 1 :> 1), lf |-> (0 :> 0 @@ 1 :> 0), cdef |-> (0 :> 0 @@ 1 :> 0), lr |-> (0 :> 0 @@ 1 :> 0)], [recon |-> (0 :> 0 @@ 1 :> 0), lf |-> (0 :> 0 @@ 1 :> 0), cdef |-> (0 :> 0 @@ 1 :> 0), lr |-> (0 :> 0 @@ 1 :> 0)]>>,doneMap |-> [recon |-> (0 :> TRUE @@ 1 :> TRUE), lf |-> (0 :> FALSE @@ 1 :> FALSE), cdef |-> (0 :> FALSE @@ 1 :> FALSE), lr |-> (0 :> FALSE @@ 1 :> FALSE)],nextRow |-> [recon |-> 2, lf |-> 0, cdef |-> 0, lr |-> 0],numLred |-> 0,pc |-> (0 :> "take" @@ 1 :> "take"),stale |-> FALSE,stage |-> (0 :> 1 @@ 1 :> 1),row |-> (0 :> 1 @@ 1 :> -1),tframe |-> (0 :> 1 @@ 1 :> 1),frame |-> 1]),
    ([mpc |-> "joined",tmpLock |-> -1,start |-> [recon |-> TRUE, lf |-> TRUE, cdef |-> TRUE, lr |-> TRUE],count |-> <<[recon |-> (0 :> 1 @@ 1 :> 1), lf |-> (0 :> 0 @@ 1 :> 0), cdef |-> (0 :> 0 @@ 1 :> 0), lr |-> (0 :> 0 @@ 1 :> 0)], [recon |-> (0 :> 0 @@ 1 :> 0), lf |-> (0 :> 0 @@ 1 :> 0), cdef |-> (0 :> 0 @@ 1 :> 0), lr |-> (0 :> 0 @@ 1 :> 0)]>>,doneMap |-> [recon |-> (0 :> TRUE @@ 1 :> TRUE), lf |-> (0 :> FALSE @@ 1 :> FALSE), cdef |-> (0 :> FALSE @@ 1 :> FALSE), lr |-> (0 :> FALSE @@ 1 :> FALSE)],nextRow |-> [recon |-> 2, lf |-> 0, cdef |-> 0, lr |-> 0],numLred |-> 0,pc |-> (0 :> "next_stage" @@ 1 :> "take"),stale |-> FALSE,stage |-> (0 :> 1 @@ 1 :> 1),row |-> (0 :> -1 @@ 1 :> -1),tframe |-> (0 :> 1 @@ 1 :> 1),frame |-> 1]),
    ([mpc |-> "joined",tmpLock |-> -1,start |-> [recon |-> TRUE, lf |-> TRUE, cdef |-> TRUE, lr |-> TRUE],count |-> <<[recon |-> (0 :> 1 @@ 1 :> 1), lf |-> (0 :> 0 @@ 1 :> 0), cdef |-> (0 :> 0 @@ 1 :> 0), lr |-> (0 :> 0 @@ 1 :> 0)], [recon |-> (0 :> 0 @@ 1 :> 0), lf |-> (0 :> 0 @@ 1 :> 0), cdef |-> (0 :> 0 @@ 1 :> 0), lr |-> (0 :> 0 @@ 1 :> 0)]>>,doneMap |-> [recon |-> (0 :> TRUE @@ 1 :> TRUE), lf |-> (0 :> FALSE @@ 1 :> FALSE), cdef |-> (0 :> FALSE @@ 1 :> FALSE), lr |-> (0 :> FALSE @@ 1 :> FALSE)],nextRow |-> [recon |-> 2, lf |-> 0, cdef |-> 0, lr |-> 0],numLred |-> 0,pc |-> (0 :> "wait_start" @@ 1 :> "take"),stale |-> FALSE,stage |-> (0 :> 2 @@ 1 :> 1),row |-> (0 :> -1 @@ 1 :> -1),tframe |-> (0 :> 1 @@ 1 :> 1),frame |-> 1]),
    ([mpc |-> "joined",tmpLock |-> -1,start |-> [recon |-> TRUE, lf |-> TRUE, cdef |-> TRUE, lr |-> TRUE],count |-> <<[recon |-> (0 :> 1 @@ 1 :> 1), lf |-> (0 :> 0 @@ 1 :> 0), cdef |-> (0 :> 0 @@ 1 :> 0), lr |-> (0 :> 0 @@ 1 :> 0)], [recon |-> (0 :> 0 @@ 1 :> 0), lf |-> (0 :> 0 @@ 1 :> 0), cdef |-> (0 :> 0 @@ 1 :> 0), lr |-> (0 :> 0 @@ 1 :> 0)]>>,doneMap |-> [recon |-> (0 :> TRUE @@ 1 :> TRUE), lf |-> (0 :> FALSE @@ 1 :> FALSE), cdef |-> (0 :> FALSE @@ 1 :> FALSE), lr |-> (0 :> FALSE @@ 1 :> FALSE)],nextRow |-> [recon |-> 2, lf |-> 0, cdef |-> 0, lr |-> 0],numLred |-> 0,pc |-> (0 :> "take" @@ 1 :> "take"),stale |-> FALSE,stage |-> (0 :> 2 @@ 1 :> 1),row |-> (0 :> -1 @@ 1 :> -1),tframe |-> (0 :> 1 @@ 1 :> 1),frame |-> 1]),
    ([mpc |-> "joined",tmpLock |-> -1,start |-> [recon |-> TRUE, lf |-> TRUE, cdef |-> TRUE, lr |-> TRUE],count |-> <<[recon |-> (0 :> 1 @@ 1 :> 1), lf |-> (0 :> 0 @@ 1 :> 0), cdef |-> (0 :> 0 @@ 1 :> 0), lr |-> (0 :> 0 @@ 1 :> 0)], [recon |-> (0 :> 0 @@ 1 :> 0), lf |-> (0 :> 0 @@ 1 :> 0), cdef |-> (0 :> 0 @@ 1 :> 0), lr |-> (0 :> 0 @@ 1 :> 0)]>>,doneMap |-> [recon |-> (0 :> TRUE @@ 1 :> TRUE), lf |-> (0 :> FALSE @@ 1 :> FALSE), cdef |-> (0 :> FALSE @@ 1 :> FALSE), lr |-> (0 :> FALSE @@ 1 :> FALSE)],nextRow |-> [recon |-> 2, lf |-> 1, cdef |-> 0, lr |-> 0],numLred |-> 0,pc |-> (0 :> "deps" @@ 1 :> "take"),stale |-> FALSE,stage |-> (0 :> 2 @@ 1 :> 1),row |-> (0 :> 0 @@ 1 :> -1),tframe |-> (0 :> 1 @@ 1 :> 1),frame |-> 1]),
    ([mpc |-> "joined",tmpLock |-> -1,start |-> [recon |-> TRUE, lf |-> TRUE, cdef |-> TRUE, lr |-> TRUE],count |-> <<[recon |-> (0 :> 1 @@ 1 :> 1), lf |-> (0 :> 0 @@ 1 :> 0), cdef |-> (0 :> 0 @@ 1 :> 0), lr |-> (0 :> 0 @@ 1 :> 0)], [recon |-> (0 :> 0 @@ 1 :> 0), lf |-> (0 :> 0 @@ 1 :> 0), cdef |-> (0 :> 0 @@ 1 :> 0), lr |-> (0 :> 0 @@ 1 :> 0)]>>,doneMap |-> [recon |-> (0 :> TRUE @@ 1 :> TRUE), lf |-> (0 :> FALSE @@ 1 :> FALSE), cdef |-> (0 :> FALSE @@ 1 :> FALSE), lr |-> (0 :> FALSE @@ 1 :> FALSE)],nextRow |-> [recon |-> 2, lf |-> 1, cdef |-> 0, lr |-> 0],numLred |-> 0,pc |-> (0 :> "work" @@ 1 :> "take"),stale |-> FALSE,stage |-> (0 :> 2 @@ 1 :> 1),row |-> (0 :> 0 @@ 1 :> -1),tframe |-> (0 :> 1 @@ 1 :> 1),frame |-> 1]),
    ([mpc |-> "joined",tmpLock |-> -1,start |-> [recon |-> TRUE, lf |-> TRUE, cdef |-> TRUE, lr |-> TRUE],count |-> <<[recon |-> (0 :> 1 @@ 1 :> 1), lf |-> (0 :> 1 @@ 1 :> 0), cdef |-> (0 :> 0 @@ 1 :> 0), lr |-> (0 :> 0 @@ 1 :> 0)], [recon |-> (0 :> 0 @@ 1 :> 0), lf |-> (0 :> 0 @@ 1 :> 0), cdef |-> (0 :> 0 @@ 1 :> 0), lr |-> (0 :> 0 @@ 1 :> 0)]>>,doneMap |-> [recon |-> (0 :> TRUE @@ 1 :> TRUE), lf |-> (0 :> TRUE @@ 1 :> FALSE), cdef |-> (0 :> FALSE @@ 1 :> FALSE), lr |-> (0 :> FALSE @@ 1 :> FALSE)],nextRow |-> [recon |-> 2, lf |-> 1, cdef |-> 0, lr |-> 0],numLred |-> 0,pc |-> (0 :> "take" @@ 1 :> "take"),stale |-> FALSE,stage |-> (0 :> 2 @@ 1 :> 1),row |-> (0 :> 0 @@ 1 :> -1),tframe |-> (0 :> 1 @@ 1 :> 1),frame |-> 1]),
    ([mpc |-> "joined",tmpLock |-> -1,start |-> [recon |-> TRUE, lf |-> TRUE, cdef |-> TRUE, lr |-> TRUE],count |-> <<[recon |-> (0 :> 1 @@ 1 :> 1), lf |-> (0 :> 1 @@ 1 :> 0), cdef |-> (0 :> 0 @@ 1 :> 0), lr |-> (0 :> 0 @@ 1 :> 0)], [recon |-> (0 :> 0 @@ 1 :> 0), lf |-> (0 :> 0 @@ 1 :> 0), cdef |-> (0 :> 0 @@ 1 :> 0), lr |-> (0 :> 0 @@ 1 :> 0)]>>,doneMap |-> [recon |-> (0 :> TRUE @@ 1 :> TRUE), lf |-> (0 :> TRUE @@ 1 :> FALSE), cdef |-> (0 :> FALSE @@ 1 :> FALSE), lr |-> (0 :> FALSE @@ 1 :> FALSE)],nextRow |-> [recon |-> 2, lf |-> 2, cdef |-> 0, lr |-> 0],numLred |-> 0,pc |-> (0 :> "deps" @@ 1 :> "take"),stale |-> FALSE,stage |-> (0 :> 2 @@ 1 :> 1),row |-> (0 :> 1 @@ 1 :> -1),tframe |-> (0 :> 1 @@ 1 :> 1),frame |-> 1]),
    ([mpc |-> "joined",tmpLock |-> -1,start |-> [recon |-> TRUE, lf |-> TRUE, cdef |-> TRUE, lr |-> TRUE],count |-> <<[recon |-> (0 :> 1 @@ 1 :> 1), lf |-> (0 :> 1 @@ 1 :> 0), cdef |-> (0 :> 0 @@ 1 :> 0), lr |-> (0 :> 0 @@ 1 :> 0)], [recon |-> (0 :> 0 @@ 1 :> 0), lf |-> (0 :> 0 @@ 1 :> 0), cdef |-> (0 :> 0 @@ 1 :> 0), lr |-> (0 :> 0 @@ 1 :> 0)]>>,doneMap |-> [recon |-> (0 :> TRUE @@ 1 :> TRUE), lf |-> (0 :> TRUE @@ 1 :> FALSE), cdef |-> (0 :> FALSE @@ 1 :> FALSE), lr |-> (0 :> FALSE @@ 1 :> FALSE)],nextRow |-> [recon |-> 2, lf |-> 2, cdef |-> 0, lr |-> 0],numLred |-> 0,pc |-> (0 :> "work" @@ 1 :> "take"),stale |-> FALSE,stage |-> (0 :> 2 @@ 1 :> 1),row |-> (0 :> 1 @@ 1 :> -1),tframe |-> (0 :> 1 @@ 1 :> 1),frame |-> 1]),
    ([mpc |-> "joined",tmpLock |-> -1,start |-> [recon |-> TRUE, lf |-> TRUE, cdef |-> TRUE, lr |-> TRUE],count |-> <<[recon |-> (0 :> 1 @@ 1 :> 1), lf |-> (0 :> 1 @@ 1 :> 1), cdef |-> (0 :> 0 @@ 1 :> 0), lr |-> (0 :> 0 @@ 1 :> 0)], [recon |-> (0 :> 0 @@ 1 :> 0), lf |-> (0 :> 0 @@ 1 :> 0), cdef |-> (0 :> 0 @@ 1 :> 0), lr |-> (0 :> 0 @@ 1 :> 0)]>>,doneMap |-> [recon |-> (0 :> TRUE @@ 1 :> TRUE), lf |-> (0 :> TRUE @@ 1 :> TRUE), cdef |-> (0 :> FALSE @@ 1 :> FALSE), lr |-> (0 :> FALSE @@ 1 :> FALSE)],nextRow |-> [recon |-> 2, lf |-> 2, cdef |-> 0, lr |-> 0],numLred |-> 0,pc |-> (0 :> "take" @@ 1 :> "take"),stale |-> FALSE,stage |-> (0 :> 2 @@ 1 :> 1),row |-> (0 :> 1 @@ 1 :> -1),tframe |-> (0 :> 1 @@ 1 :> 1),frame |-> 1]),
    ([mpc |-> "joined",tmpLock |-> -1,start |-> [recon |-> TRUE, lf |-> TRUE, cdef |-> TRUE, lr |-> TRUE],count |-> <<[recon |-> (0 :> 1 @@ 1 :> 1), lf |-> (0 :> 1 @@ 1 :> 1), cdef |-> (0 :> 0 @@ 1 :> 0), lr |-> (0 :> 0 @@ 1 :> 0)], [recon |-> (0 :> 0 @@ 1 :> 0), lf |-> (0 :> 0 @@ 1 :> 0), cdef |-> (0 :> 0 @@ 1 :> 0), lr |-> (0 :> 0 @@ 1 :> 0)]>>,doneMap |-> [recon |-> (0 :> TRUE @@ 1 :> TRUE), lf |-> (0 :> TRUE @@ 1 :> TRUE), cdef |-> (0 :> FALSE @@ 1 :> FALSE), lr |-> (0 :> FALSE @@ 1 :> FALSE)],nextRow |-> [recon |-> 2, lf |-> 2, cdef |-> 0, lr |-> 0],numLred |-> 0,pc |-> (0 :> "next_stage" @@ 1 :> "take"),stale |-> FALSE,stage |-> (0 :> 2 @@ 1 :> 1),row |-> (0 :> -1 @@ 1 :> -1),tframe |-> (0 :> 1 @@ 1 :> 1),frame |-> 1]),
    ([mpc |-> "joined",tmpLock |-> -1,start |-> [recon |-> TRUE, lf |-> TRUE, cdef |-> TRUE, lr |-> TRUE],count |-> <<[recon |-> (0 :> 1 @@ 1 :> 1), lf |-> (0 :> 1 @@ 1 :> 1), cdef |-> (0 :> 0 @@ 1 :> 0), lr |-> (0 :> 0 @@ 1 :> 0)], [recon |-> (0 :> 0 @@ 1 :> 0), lf |-> (0 :> 0 @@ 1 :> 0), cdef |-> (0 :> 0 @@ 1 :> 0), lr |-> (0 :> 0 @@ 1 :> 0)]>>,doneMap |-> [recon |-> (0 :> TRUE @@ 1 :> TRUE), lf |-> (0 :> TRUE @@ 1 :> TRUE), cdef |-> (0 :> FALSE @@ 1 :> FALSE), lr |-> (0 :> FALSE @@ 1 :> FALSE)],nextRow |-> [recon |-> 2, lf |-> 2, cdef |-> 0, lr |-> 0],numLred |-> 0,pc |-> (0 :> "wait_start" @@ 1 :> "take"),stale |-> FALSE,stage |-> (0 :> 3 @@ 1 :> 1),row |-> (0 :> -1 @@ 1 :> -1),tframe |-> (0 :> 1 @@ 1 :> 1),frame |-> 1]),
    ([mpc |-> "joined",tmpLock |-> -1,start |-> [recon |-> TRUE, lf |-> TRUE, cdef |-> TRUE, lr |-> TRUE],count |-> <<[recon |-> (0 :> 1 @@ 1 :> 1), lf |-> (0 :> 1 @@ 1 :> 1), cdef |-> (0 :> 0 @@ 1 :> 0), lr |-> (0 :> 0 @@ 1 :> 0)], [recon |-> (0 :> 0 @@ 1 :> 0), lf |-> (0 :> 0 @@ 1 :> 0), cdef |-> (0 :> 0 @@ 1 :> 0), lr |-> (0 :> 0 @@ 1 :> 0)]>>,doneMap |-> [recon |-> (0 :> TRUE @@ 1 :> TRUE), lf |-> (0 :> TRUE @@ 1 :> TRUE), cdef |-> (0 :> FALSE @@ 1 :> FALSE), lr |-> (0 :> FALSE @@ 1 :> FALSE)],nextRow |-> [recon |-> 2, lf |-> 2, cdef |-> 0, lr |-> 0],numLred |-> 0,pc |-> (0 :> "take" @@ 1 :> "take"),stale |-> FALSE,stage |-> (0 :> 3 @@ 1 :> 1),row |-> (0 :> -1 @@ 1 :> -1),tframe |-> (0 :> 1 @@ 1 :> 1),frame |-> 1]),
    ([mpc |-> "joined",tmpLock |-> -1,start |-> [recon |-> TRUE, lf |-> TRUE, cdef |-> TRUE, lr |-> TRUE],count |-> <<[recon |-> (0 :> 1 @@ 1 :> 1), lf |-> (0 :> 1 @@ 1 :> 1), cdef |-> (0 :> 0 @@ 1 :> 0), lr |-> (0 :> 0 @@ 1 :> 0)], [recon |-> (0 :> 0 @@ 1 :> 0), lf |-> (0 :> 0 @@ 1 :> 0), cdef |-> (0 :> 0 @@ 1 :> 0), lr |-> (0 :> 0 @@ 1 :> 0)]>>,doneMap |-> [recon |-> (0 :> TRUE @@ 1 :> TRUE), lf |-> (0 :> TRUE @@ 1 :> TRUE), cdef |-> (0 :> FALSE @@ 1 :> FALSE), lr |-> (0 :> FALSE @@ 1 :> FALSE)],nextRow |-> [recon |-> 2, lf |-> 2, cdef |-> 1, lr |-> 0],numLred |-> 0,pc |-> (0 :> "deps" @@ 1 :> "take"),stale |-> FALSE,stage |-> (0 :> 3 @@ 1 :> 1),row |-> (0 :> 0 @@ 1 :> -1),tframe |-> (0 :> 1 @@ 1 :> 1),frame |-> 1]),
    ([mpc |-> "joined",tmpLock |-> -1,start |-> [recon |-> TRUE, lf |-> TRUE, cdef |-> TRUE, lr |-> TRUE],count |-> <<[recon |-> (0 :> 1 @@ 1 :> 1), lf |-> (0 :> 1 @@ 1 :> 1), cdef |-> (0 :> 0 @@ 1 :> 0), lr |-> (0 :> 0 @@ 1 :> 0)], [recon |-> (0 :> 0 @@ 1 :> 0), lf |-> (0 :> 0 @@ 1 :> 0), cdef |-> (0 :> 0 @@ 1 :> 0), lr |-> (0 :> 0 @@ 1 :> 0)]>>,doneMap |-> [recon |-> (0 :> TRUE @@ 1 :> TRUE), lf |-> (0 :> TRUE @@ 1 :> TRUE), cdef |-> (0 :> FALSE @@ 1 :> FALSE), lr |-> (0 :> FALSE @@ 1 :> FALSE)],nextRow |-> [recon |-> 2, lf |-> 2, cdef |-> 1, lr |-> 0],numLred |-> 0,pc |-> (0 :> "deps" @@ 1 :> "next_stage"),stale |-> FALSE,stage |-> (0 :> 3 @@ 1 :> 1),row |-> (0 :> 0 @@ 1 :> -1),tframe |-> (0 :> 1 @@ 1 :> 1),frame |-> 1]),
    ([mpc |-> "joined",tmpLock |-> -1,start |-> [recon |-> TRUE, lf |-> TRUE, cdef |-> TRUE, lr |-> TRUE],count |-> <<[recon |-> (0 :> 1 @@ 1 :> 1), lf |-> (0 :> 1 @@ 1 :> 1), cdef |-> (0 :> 0 @@ 1 :> 0), lr |-> (0 :> 0 @@ 1 :> 0)], [recon |-> (0 :> 0 @@ 1 :> 0), lf |-> (0 :> 0 @@ 1 :> 0), cdef |-> (0 :> 0 @@ 1 :> 0), lr |-> (0 :> 0 @@ 1 :> 0)]>>,doneMap |-> [recon |-> (0 :> TRUE @@ 1 :> TRUE), lf |-> (0 :> TRUE @@ 1 :> TRUE), cdef |-> (0 :> FALSE @@ 1 :> FALSE), lr |-> (0 :> FALSE @@ 1 :> FALSE)],nextRow |-> [recon |-> 2, lf |-> 2, cdef |-> 1, lr |-> 0],numLred |-> 0,pc |-> (0 :> "work" @@ 1 :> "next_stage"),stale |-> FALSE,stage |-> (0 :> 3 @@ 1 :> 1),row |-> (0 :> 0 @@ 1 :> -1),tframe |-> (0 :> 1 @@ 1 :> 1),frame |-> 1]),
    ([mpc |-> "joined",tmpLock |-> -1,start |-> [recon |-> TRUE, lf |-> TRUE, cdef |-> TRUE, lr |-> TRUE],count |-> <<[recon |-> (0 :> 1 @@ 1 :> 1), lf |-> (0 :> 1 @@ 1 :> 1), cdef |-> (0 :> 1 @@ 1 :> 0), lr |-> (0 :> 0 @@ 1 :> 0)], [recon |-> (0 :> 0 @@ 1 :> 0), lf |-> (0 :> 0 @@ 1 :> 0), cdef |-> (0 :> 0 @@ 1 :> 0), lr |-> (0 :> 0 @@ 1 :> 0)]>>,doneMap |-> [recon |-> (0 :> TRUE @@ 1 :> TRUE), lf |-> (0 :> TRUE @@ 1 :> TRUE), cdef |-> (0 :> TRUE @@ 1 :> FALSE), lr |-> (0 :> FALSE @@ 1 :> FALSE)],nextRow |-> [recon |-> 2, lf |-> 2, cdef |-> 1, lr |-> 0],numLred |-> 0,pc |-> (0 :> "take" @@ 1 :> "next_stage"),stale |-> FALSE,stage |-> (0 :> 3 @@ 1 :> 1),row |-> (0 :> 0 @@ 1 :> -1),tframe |-> (0 :> 1 @@ 1 :> 1),frame |-> 1]),
    ([mpc |-> "joined",tmpLock |-> -1,start |-> [recon |-> TRUE, lf |-> TRUE, cdef |-> TRUE, lr |-> TRUE],count |-> <<[recon |-> (0 :> 1 @@ 1 :> 1), lf |-> (0 :> 1 @@ 1 :> 1), cdef |-> (0 :> 1 @@ 1 :> 0), lr |-> (0 :> 0 @@ 1 :> 0)], [recon |-> (0 :> 0 @@ 1 :> 0), lf |-> (0 :> 0 @@ 1 :> 0), cdef |-> (0 :> 0 @@ 1 :> 0), lr |-> (0 :> 0 @@ 1 :> 0)]>>,doneMap |-> [recon |-> (0 :> TRUE @@ 1 :> TRUE), lf |-> (0 :> TRUE @@ 1 :> TRUE), cdef |-> (0 :> TRUE @@ 1 :> FALSE), lr |-> (0 :> FALSE @@ 1 :> FALSE)],nextRow |-> [recon |-> 2, lf |-> 2, cdef |-> 1, lr |-> 0],numLred |-> 0,pc |-> (0 :> "take" @@ 1 :> "wait_start"),stale |-> FALSE,stage |-> (0 :> 3 @@ 1 :> 2),row |-> (0 :> 0 @@ 1 :> -1),tframe |-> (0 :> 1 @@ 1 :> 1),frame |-> 1]),
    ([mpc |-> "joined",tmpLock |-> -1,start |-> [recon |-> TRUE, lf |-> TRUE, cdef |-> TRUE, lr |-> TRUE],count |-> <<[recon |-> (0 :> 1 @@ 1 :> 1), lf |-> (0 :> 1 @@ 1 :> 1), cdef |-> (0 :> 1 @@ 1 :> 0), lr |-> (0 :> 0 @@ 1 :> 0)], [recon |-> (0 :> 0 @@ 1 :> 0), lf |-> (0 :> 0 @@ 1 :> 0), cdef |-> (0 :> 0 @@ 1 :> 0), lr |-> (0 :> 0 @@ 1 :> 0)]>>,doneMap |-> [recon |-> (0 :> TRUE @@ 1 :> TRUE), lf |-> (0 :> TRUE @@ 1 :> TRUE), cdef |-> (0 :> TRUE @@ 1 :> FALSE), lr |-> (0 :> FALSE @@ 1 :> FALSE)],nextRow |-> [recon |-> 2, lf |-> 2, cdef |-> 1, lr |-> 0],numLred |-> 0,pc |-> (0 :> "take" @@ 1 :> "take"),stale |-> FALSE,stage |-> (0 :> 3 @@ 1 :> 2),row |-> (0 :> 0 @@ 1 :> -1),tframe |-> (0 :> 1 @@ 1 :> 1),frame |-> 1]),
    ([mpc |-> "joined",tmpLock |-> -1,start |-> [recon |-> TRUE, lf |-> TRUE, cdef |-> TRUE, lr |-> TRUE],count |-> <<[recon |-> (0 :> 1 @@ 1 :> 1), lf |-> (0 :> 1 @@ 1 :> 1), cdef |-> (0 :> 1 @@ 1 :> 0), lr |-> (0 :> 0 @@ 1 :> 0)], [recon |-> (0 :> 0 @@ 1 :> 0), lf |-> (0 :> 0 @@ 1 :> 0), cdef |-> (0 :> 0 @@ 1 :> 0), lr |-> (0 :> 0 @@ 1 :> 0)]>>,doneMap |-> [recon |-> (0 :> TRUE @@ 1 :> TRUE), lf |-> (0 :> TRUE @@ 1 :> TRUE), cdef |-> (0 :> TRUE @@ 1 :> FALSE), lr |-> (0 :> FALSE @@ 1 :> FALSE)],nextRow |-> [recon |-> 2, lf |-> 2, cdef |-> 2, lr |-> 0],numLred |-> 0,pc |-> (0 :> "deps" @@ 1 :> "take"),stale |-> FALSE,stage |-> (0 :> 3 @@ 1 :> 2),row |-> (0 :> 1 @@ 1 :> -1),tframe |-> (0 :> 1 @@ 1 :> 1),frame |-> 1]),
    ([mpc |-> "joined",tmpLock |-> -1,start |-> [recon |-> TRUE, lf |-> TRUE, cdef |-> TRUE, lr |-> TRUE],count |-> <<[recon |-> (0 :> 1 @@ 1 :> 1), lf |-> (0 :> 1 @@ 1 :> 1), cdef |-> (0 :> 1 @@ 1 :> 0), lr |-> (0 :> 0 @@ 1 :> 0)], [recon |-> (0 :> 0 @@ 1 :> 0), lf |-> (0 :> 0 @@ 1 :> 0), cdef |-> (0 :> 0 @@ 1 :> 0), lr |-> (0 :> 0 @@ 1 :> 0)]>>,doneMap |-> [recon |-> (0 :> TRUE @@ 1 :> TRUE), lf |-> (0 :> TRUE @@ 1 :> TRUE), cdef |-> (0 :> TRUE @@ 1 :> FALSE), lr |-> (0 :> FALSE @@ 1 :> FALSE)],nextRow |-> [recon |-> 2, lf |-> 2, cdef |-> 2, lr |-> 0],numLred |-> 0,pc |-> (0 :> "work" @@ 1 :> "take"),stale |-> FALSE,stage |-> (0 :> 3 @@ 1 :> 2),row |-> (0 :> 1 @@ 1 :> -1),tframe |-> (0 :> 1 @@ 1 :> 1),frame |-> 1]),
    ([mpc |-> "joined",tmpLock |-> -1,start |-> [recon |-> TRUE, lf |-> TRUE, cdef |-> TRUE, lr |-> TRUE],count |-> <<[recon |-> (0 :> 1 @@ 1 :> 1), lf |-> (0 :> 1 @@ 1 :> 1), cdef |-> (0 :> 1 @@ 1 :> 1), lr |-> (0 :> 0 @@ 1 :> 0)], [recon |-> (0 :> 0 @@ 1 :> 0), lf |-> (0 :> 0 @@ 1 :> 0), cdef |-> (0 :> 0 @@ 1 :> 0), lr |-> (0 :> 0 @@ 1 :> 0)]>>,doneMap |-> [recon |-> (0 :> TRUE @@ 1 :> TRUE), lf |-> (0 :> TRUE @@ 1 :> TRUE), cdef |-> (0 :> TRUE @@ 1 :> TRUE), lr |-> (0 :> FALSE @@ 1 :> FALSE)],nextRow |-> [recon |-> 2, lf |-> 2, cdef |-> 2, lr |-> 0],numLred |-> 0,pc |-> (0 :> "take" @@ 1 :> "take"),stale |-> FALSE,stage |-> (0 :> 3 @@ 1 :> 2),row |-> (0 :> 1 @@ 1 :> -1),tframe |-> (0 :> 1 @@ 1 :> 1),frame |-> 1]),
    ([mpc |-> "joined",tmpLock |-> -1,start |-> [recon |-> TRUE, lf |-> TRUE, cdef |-> TRUE, lr |-> TRUE],count |-> <<[recon |-> (0 :> 1 @@ 1 :> 1), lf |-> (0 :> 1 @@ 1 :> 1), cdef |-> (0 :> 1 @@ 1 :> 1), lr |-> (0 :> 0 @@ 1 :> 0)], [recon |-> (0 :> 0 @@ 1 :> 0), lf |-> (0 :> 0 @@ 1 :> 0), cdef |-> (0 :> 0 @@ 1 :> 0), lr |-> (0 :> 0 @@ 1 :> 0)]>>,doneMap |-> [recon |-> (0 :> TRUE @@ 1 :> TRUE), lf |-> (0 :> TRUE @@ 1 :> TRUE), cdef |-> (0 :> TRUE @@ 1 :> TRUE), lr |-> (0 :> FALSE @@ 1 :> FALSE)],nextRow |-> [recon |-> 2, lf |-> 2, cdef |-> 2, lr |-> 0],numLred |-> 0,pc |-> (0 :> "next_stage" @@ 1 :> "take"),stale |-> FALSE,stage |-> (0 :> 3 @@ 1 :> 2),row |-> (0 :> -1 @@ 1 :> -1),tframe |-> (0 :> 1 @@ 1 :> 1),frame |-> 1]),
    ([mpc |-> "joined",tmpLock |-> -1,start |-> [recon |-> TRUE, lf |-> TRUE, cdef |-> TRUE, lr |-> TRUE],count |-> <<[recon |-> (0 :> 1 @@ 1 :> 1), lf |-> (0 :> 1 @@ 1 :> 1), cdef |-> (0 :> 1 @@ 1 :> 1), lr |-> (0 :> 0 @@ 1 :> 0)], [recon |-> (0 :> 0 @@ 1 :> 0), lf |-> (0 :> 0 @@ 1 :> 0), cdef |-> (0 :> 0 @@ 1 :> 0), lr |-> (0 :> 0 @@ 1 :> 0)]>>,doneMap |-> [recon |-> (0 :> TRUE @@ 1 :> TRUE), lf |-> (0 :> TRUE @@ 1 :> TRUE), cdef |-> (0 :> TRUE @@ 1 :> TRUE), lr |-> (0 :> FALSE @@ 1 :> FALSE)],nextRow |-> [recon |-> 2, lf |-> 2, cdef |-> 2, lr |-> 0],numLred |-> 0,pc |-> (0 :> "wait_start" @@ 1 :> "take"),stale |-> FALSE,stage |-> (0 :> 4 @@ 1 :> 2),row |-> (0 :> -1 @@ 1 :> -1),tframe |-> (0 :> 1 @@ 1 :> 1),frame |-> 1]),
    ([mpc |-> "joined",tmpLock |-> -1,start |-> [recon |-> TRUE, lf |-> TRUE, cdef |-> TRUE, lr |-> TRUE],count |-> <<[recon |-> (0 :> 1 @@ 1 :> 1), lf |-> (0 :> 1 @@ 1 :> 1), cdef |-> (0 :> 1 @@ 1 :> 1), lr |-> (0 :> 0 @@ 1 :> 0)], [recon |-> (0 :> 0 @@ 1 :> 0), lf |-> (0 :> 0 @@ 1 :> 0), cdef |-> (0 :> 0 @@ 1 :> 0), lr |-> (0 :> 0 @@ 1 :> 0)]>>,doneMap |-> [recon |-> (0 :> TRUE @@ 1 :> TRUE), lf |-> (0 :> TRUE @@ 1 :> TRUE), cdef |-> (0 :> TRUE @@ 1 :> TRUE), lr |-> (0 :> FALSE @@ 1 :> FALSE)],nextRow |-> [recon |-> 2, lf |-> 2, cdef |-> 2, lr |-> 0],numLred |-> 0,pc |-> (0 :> "take" @@ 1 :> "take"),stale |-> FALSE,stage |-> (0 :> 4 @@ 1 :> 2),row |-> (0 :> -1 @@ 1 :> -1),tframe |-> (0 :> 1 @@ 1 :> 1),frame |-> 1]),
    ([mpc |-> "joined",tmpLock |-> -1,start |-> [recon |-> TRUE, lf |-> TRUE, cdef |-> TRUE, lr |-> TRUE],count |-> <<[recon |-> (0 :> 1 @@ 1 :> 1), lf |-> (0 :> 1 @@ 1 :> 1), cdef |-> (0 :> 1 @@ 1 :> 1), lr |-> (0 :> 0 @@ 1 :> 0)], [recon |-> (0 :> 0 @@ 1 :> 0), lf |-> (0 :> 0 @@ 1 :> 0), cdef |-> (0 :> 0 @@ 1 :> 0), lr |-> (0 :> 0 @@ 1 :> 0)]>>,doneMap |-> [recon |-> (0 :> TRUE @@ 1 :> TRUE), lf |-> (0 :> TRUE @@ 1 :> TRUE), cdef |-> (0 :> TRUE @@ 1 :> TRUE), lr |-> (0 :> FALSE @@ 1 :> FALSE)],nextRow |-> [recon |-> 2, lf |-> 2, cdef |-> 2, lr |-> 1],numLred |-> 0,pc |-> (0 :> "deps" @@ 1 :> "take"),stale |-> FALSE,stage |-> (0 :> 4 @@ 1 :> 2),row |-> (0 :> 0 @@ 1 :> -1),tframe |-> (0 :> 1 @@ 1 :> 1),frame |-> 1]),
    ([mpc |-> "joined",tmpLock |-> -1,start |-> [recon |-> TRUE, lf |-> TRUE, cdef |-> TRUE, lr |-> TRUE],count |-> <<[recon |-> (0 :> 1 @@ 1 :> 1), lf |-> (0 :> 1 @@ 1 :> 1), cdef |-> (0 :> 1 @@ 1 :> 1), lr |-> (0 :> 0 @@ 1 :> 0)], [recon |-> (0 :> 0 @@ 1 :> 0), lf |-> (0 :> 0 @@ 1 :> 0), cdef |-> (0 :> 0 @@ 1 :> 0), lr |-> (0 :> 0 @@ 1 :> 0)]>>,doneMap |-> [recon |-> (0 :> TRUE @@ 1 :> TRUE), lf |-> (0 :> TRUE @@ 1 :> TRUE), cdef |-> (0 :> TRUE @@ 1 :> TRUE), lr |-> (0 :> FALSE @@ 1 :> FALSE)],nextRow |-> [recon |-> 2, lf |-> 2, cdef |-> 2, lr |-> 1],numLred |-> 0,pc |-> (0 :> "work" @@ 1 :> "take"),stale |-> FALSE,stage |-> (0 :> 4 @@ 1 :> 2),row |-> (0 :> 0 @@ 1 :> -1),tframe |-> (0 :> 1 @@ 1 :> 1),frame |-> 1]),
    ([mpc |-> "joined",tmpLock |-> -1,start |-> [recon |-> TRUE, lf |-> TRUE, cdef |-> TRUE, lr |-> TRUE],count |-> <<[recon |-> (0 :> 1 @@ 1 :> 1), lf |-> (0 :> 1 @@ 1 :> 1), cdef |-> (0 :> 1 @@ 1 :> 1), lr |-> (0 :> 1 @@ 1 :> 0)], [recon |-> (0 :> 0 @@ 1 :> 0), lf |-> (0 :> 0 @@ 1 :> 0), cdef |-> (0 :> 0 @@ 1 :> 0), lr |-> (0 :> 0 @@ 1 :> 0)]>>,doneMap |-> [recon |-> (0 :> TRUE @@ 1 :> TRUE), lf |-> (0 :> TRUE @@ 1 :> TRUE), cdef |-> (0 :> TRUE @@ 1 :> TRUE), lr |-> (0 :> TRUE @@ 1 :> FALSE)],nextRow |-> [recon |-> 2, lf |-> 2, cdef |-> 2, lr |-> 1],numLred |-> 0,pc |-> (0 :> "take" @@ 1 :> "take"),stale |-> FALSE,stage |-> (0 :> 4 @@ 1 :> 2),row |-> (0 :> 0 @@ 1 :> -1),tframe |-> (0 :> 1 @@ 1 :> 1),frame |-> 1]),
    ([mpc |-> "joined",tmpLock |-> -1,start |-> [recon |-> TRUE, lf |-> TRUE, cdef |-> TRUE, lr |-> TRUE],count |-> <<[recon |-> (0 :> 1 @@ 1 :> 1), lf |-> (0 :> 1 @@ 1 :> 1), cdef |-> (0 :> 1 @@ 1 :> 1), lr |-> (0 :> 1 @@ 1 :> 0)], [recon |-> (0 :> 0 @@ 1 :> 0), lf |-> (0 :> 0 @@ 1 :> 0), cdef |-> (0 :> 0 @@ 1 :> 0), lr |-> (0 :> 0 @@ 1 :> 0)]>>,doneMap |-> [recon |-> (0 :> TRUE @@ 1 :> TRUE), lf |-> (0 :> TRUE @@ 1 :> TRUE), cdef |-> (0 :> TRUE @@ 1 :> TRUE), lr |-> (0 :> TRUE @@ 1 :> FALSE)],nextRow |-> [recon |-> 2, lf |-> 2, cdef |-> 2, lr |-> 2],numLred |-> 0,pc |-> (0 :> "deps" @@ 1 :> "take"),stale |-> FALSE,stage |-> (0 :> 4 @@ 1 :> 2),row |-> (0 :> 1 @@ 1 :> -1),tframe |-> (0 :> 1 @@ 1 :> 1),frame |-> 1]),
    ([mpc |-> "joined",tmpLock |-> -1,start |-> [recon |-> TRUE, lf |-> TRUE, cdef |-> TRUE, lr |-> TRUE],count |-> <<[recon |-> (0 :> 1 @@ 1 :> 1), lf |-> (0 :> 1 @@ 1 :> 1), cdef |-> (0 :> 1 @@ 1 :> 1), lr |-> (0 :> 1 @@ 1 :> 0)], [recon |-> (0 :> 0 @@ 1 :> 0), lf |-> (0 :> 0 @@ 1 :> 0), cdef |-> (0 :> 0 @@ 1 :> 0), lr |-> (0 :> 0 @@ 1 :> 0)]>>,doneMap |-> [recon |-> (0 :> TRUE @@ 1 :> TRUE), lf |-> (0 :> TRUE @@ 1 :> TRUE), cdef |-> (0 :> TRUE @@ 1 :> TRUE), lr |-> (0 :> TRUE @@ 1 :> FALSE)],nextRow |-> [recon |-> 2, lf |-> 2, cdef |-> 2, lr |-> 2],numLred |-> 0,pc |-> (0 :> "work" @@ 1 :> "take"),stale |-> FALSE,stage |-> (0 :> 4 @@ 1 :> 2),row |-> (0 :> 1 @@ 1 :> -1),tframe |-> (0 :> 1 @@ 1 :> 1),frame |-> 1]),
    ([mpc |-> "joined",tmpLock |-> -1,start |-> [recon |-> TRUE, lf |-> TRUE, cdef |-> TRUE, lr |-> TRUE],count |-> <<[recon |-> (0 :> 1 @@ 1 :> 1), lf |-> (0 :> 1 @@ 1 :> 1), cdef |-> (0 :> 1 @@ 1 :> 1), lr |-> (0 :> 1 @@ 1 :> 1)], [recon |-> (0 :> 0 @@ 1 :> 0), lf |-> (0 :> 0 @@ 1 :> 0), cdef |-> (0 :> 0 @@ 1 :> 0), lr |-> (0 :> 0 @@ 1 :> 0)]>>,doneMap |-> [recon |-> (0 :> TRUE @@ 1 :> TRUE), lf |-> (0 :> TRUE @@ 1 :> TRUE), cdef |-> (0 :> TRUE @@ 1 :> TRUE), lr |-> (0 :> TRUE @@ 1 :> TRUE)],nextRow |-> [recon |-> 2, lf |-> 2, cdef |-> 2, lr |-> 2],numLred |-> 0,pc |-> (0 :> "take" @@ 1 :> "take"),stale |-> FALSE,stage |-> (0 :> 4 @@ 1 :> 2),row |-> (0 :> 1 @@ 1 :> -1),tframe |-> (0 :> 1 @@ 1 :> 1),frame |-> 1]),
    ([mpc |-> "joined",tmpLock |-> -1,start |-> [recon |-> TRUE, lf |-> TRUE, cdef |-> TRUE, lr |-> TRUE],count |-> <<[recon |-> (0 :> 1 @@ 1 :> 1), lf |-> (0 :> 1 @@ 1 :> 1), cdef |-> (0 :> 1 @@ 1 :> 1), lr |-> (0 :> 1 @@ 1 :> 1)], [recon |-> (0 :> 0 @@ 1 :> 0), lf |-> (0 :> 0 @@ 1 :> 0), cdef |-> (0 :> 0 @@ 1 :> 0), lr |-> (0 :> 0 @@ 1 :> 0)]>>,doneMap |-> [recon |-> (0 :> TRUE @@ 1 :> TRUE), lf |-> (0 :> TRUE @@ 1 :> TRUE), cdef |-> (0 :> TRUE @@ 1 :> TRUE), lr |-> (0 :> TRUE @@ 1 :> TRUE)],nextRow |-> [recon |-> 2, lf |-> 2, cdef |-> 2, lr |-> 2],numLred |-> 0,pc |-> (0 :> "bar_lock" @@ 1 :> "take"),stale |-> FALSE,stage |-> (0 :> 4 @@ 1 :> 2),row |-> (0 :> -1 @@ 1 :> -1),tframe |-> (0 :> 1 @@ 1 :> 1),frame |-> 1]),
    ([mpc |-> "joined",tmpLock |-> -1,start |-> [recon |-> TRUE, lf |-> TRUE, cdef |-> TRUE, lr |-> TRUE],count |-> <<[recon |-> (0 :> 1 @@ 1 :> 1), lf |-> (0 :> 1 @@ 1 :> 1), cdef |-> (0 :> 1 @@ 1 :> 1), lr |-> (0 :> 1 @@ 1 :> 1)], [recon |-> (0 :> 0 @@ 1 :> 0), lf |-> (0 :> 0 @@ 1 :> 0), cdef |-> (0 :> 0 @@ 1 :> 0), lr |-> (0 :> 0 @@ 1 :> 0)]>>,doneMap |-> [recon |-> (0 :> TRUE @@ 1 :> TRUE), lf |-> (0 :> TRUE @@ 1 :> TRUE), cdef |-> (0 :> TRUE @@ 1 :> TRUE), lr |-> (0 :> TRUE @@ 1 :> TRUE)],nextRow |-> [recon |-> 2, lf |-> 2, cdef |-> 2, lr |-> 2],numLred |-> 0,pc |-> (0 :> "bar_lock" @@ 1 :> "next_stage"),stale |-> FALSE,stage |-> (0 :> 4 @@ 1 :> 2),row |-> (0 :> -1 @@ 1 :> -1),tframe |-> (0 :> 1 @@ 1 :> 1),frame |-> 1]),
    ([mpc |-> "joined",tmpLock |-> -1,start |-> [recon |-> TRUE, lf |-> TRUE, cdef |-> TRUE, lr |-> TRUE],count |-> <<[recon |-> (0 :> 1 @@ 1 :> 1), lf |-> (0 :> 1 @@ 1 :> 1), cdef |-> (0 :> 1 @@ 1 :> 1), lr |-> (0 :> 1 @@ 1 :> 1)], [recon |-> (0 :> 0 @@ 1 :> 0), lf |-> (0 :> 0 @@ 1 :> 0), cdef |-> (0 :> 0 @@ 1 :> 0), lr |-> (0 :> 0 @@ 1 :> 0)]>>,doneMap |-> [recon |-> (0 :> TRUE @@ 1 :> TRUE), lf |-> (0 :> TRUE @@ 1 :> TRUE), cdef |-> (0 :> TRUE @@ 1 :> TRUE), lr |-> (0 :> TRUE @@ 1 :> TRUE)],nextRow |-> [recon |-> 2, lf |-> 2, cdef |-> 2, lr |-> 2],numLred |-> 0,pc |-> (0 :> "bar_lock" @@ 1 :> "wait_start"),stale |-> FALSE,stage |-> (0 :> 4 @@ 1 :> 3),row |-> (0 :> -1 @@ 1 :> -1),tframe |-> (0 :> 1 @@ 1 :> 1),frame |-> 1]),
    ([mpc |-> "joined",tmpLock |-> -1,start |-> [recon |-> TRUE, lf |-> TRUE, cdef |-> TRUE, lr |-> TRUE],count |-> <<[recon |-> (0 :> 1 @@ 1 :> 1), lf |-> (0 :> 1 @@ 1 :> 1), cdef |-> (0 :> 1 @@ 1 :> 1), lr |-> (0 :> 1 @@ 1 :> 1)], [recon |-> (0 :> 0 @@ 1 :> 0), lf |-> (0 :> 0 @@ 1 :> 0), cdef |-> (0 :> 0 @@ 1 :> 0), lr |-> (0 :> 0 @@ 1 :> 0)]>>,doneMap |-> [recon |-> (0 :> TRUE @@ 1 :> TRUE), lf |-> (0 :> TRUE @@ 1 :> TRUE), cdef |-> (0 :> TRUE @@ 1 :> TRUE), lr |-> (0 :> TRUE @@ 1 :> TRUE)],nextRow |-> [recon |-> 2, lf |-> 2, cdef |-> 2, lr |-> 2],numLred |-> 0,pc |-> (0 :> "bar_lock" @@ 1 :> "take"),stale |-> FALSE,stage |-> (0 :> 4 @@ 1 :> 3),row |-> (0 :> -1 @@ 1 :> -1),tframe |-> (0 :> 1 @@ 1 :> 1),frame |-> 1]),
    ([mpc |-> "joined",tmpLock |-> -1,start |-> [recon |-> TRUE, lf |-> TRUE, cdef |-> TRUE, lr |-> TRUE],count |-> <<[recon |-> (0 :> 1 @@ 1 :> 1), lf |-> (0 :> 1 @@ 1 :> 1), cdef |-> (0 :> 1 @@ 1 :> 1), lr |-> (0 :> 1 @@ 1 :> 1)], [recon |-> (0 :> 0 @@ 1 :> 0), lf |-> (0 :> 0 @@ 1 :> 0), cdef |-> (0 :> 0 @@ 1 :> 0), lr |-> (0 :> 0 @@ 1 :> 0)]>>,doneMap |-> [recon |-> (0 :> TRUE @@ 1 :> TRUE), lf |-> (0 :> TRUE @@ 1 :> TRUE), cdef |-> (0 :> TRUE @@ 1 :> TRUE), lr |-> (0 :> TRUE @@ 1 :> TRUE)],nextRow |-> [recon |-> 2, lf |-> 2, cdef |-> 2, lr |-> 2],numLred |-> 0,pc |-> (0 :> "bar_lock" @@ 1 :> "next_stage"),stale |-> FALSE,stage |-> (0 :> 4 @@ 1 :> 3),row |-> (0 :> -1 @@ 1 :> -1),tframe |-> (0 :> 1 @@ 1 :> 1),frame |-> 1]),
    ([mpc |-> "joined",tmpLock |-> 0,start |-> [recon |-> TRUE, lf |-> TRUE, cdef |-> TRUE, lr |-> TRUE],count |-> <<[recon |-> (0 :> 1 @@ 1 :> 1), lf |-> (0 :> 1 @@ 1 :> 1), cdef |-> (0 :> 1 @@ 1 :> 1), lr |-> (0 :> 1 @@ 1 :> 1)], [recon |-> (0 :> 0 @@ 1 :> 0), lf |-> (0 :> 0 @@ 1 :> 0), cdef |-> (0 :> 0 @@ 1 :> 0), lr |-> (0 :> 0 @@ 1 :> 0)]>>,doneMap |-> [recon |-> (0 :> TRUE @@ 1 :> TRUE), lf |-> (0 :> TRUE @@ 1 :> TRUE), cdef |-> (0 :> TRUE @@ 1 :> TRUE), lr |-> (0 :> TRUE @@ 1 :> TRUE)],nextRow |-> [recon |-> 2, lf |-> 2, cdef |-> 2, lr |-> 2],numLred |-> 0,pc |-> (0 :> "bar_inc" @@ 1 :> "next_stage"),stale |-> FALSE,stage |-> (0 :> 4 @@ 1 :> 3),row |-> (0 :> -1 @@ 1 :> -1),tframe |-> (0 :> 1 @@ 1 :> 1),frame |-> 1]),
    ([mpc |-> "joined",tmpLock |-> 0,start |-> [recon |-> TRUE, lf |-> TRUE, cdef |-> TRUE, lr |-> TRUE],count |-> <<[recon |-> (0 :> 1 @@ 1 :> 1), lf |-> (0 :> 1 @@ 1 :> 1), cdef |-> (0 :> 1 @@ 1 :> 1), lr |-> (0 :> 1 @@ 1 :> 1)], [recon |-> (0 :> 0 @@ 1 :> 0), lf |-> (0 :> 0 @@ 1 :> 0), cdef |-> (0 :> 0 @@ 1 :> 0), lr |-> (0 :> 0 @@ 1 :> 0)]>>,doneMap |-> [recon |-> (0 :> TRUE @@ 1 :> TRUE), lf |-> (0 :> TRUE @@ 1 :> TRUE), cdef |-> (0 :> TRUE @@ 1 :> TRUE), lr |-> (0 :> TRUE @@ 1 :> TRUE)],nextRow |-> [recon |-> 2, lf |-> 2, cdef |-> 2, lr |-> 2],numLred |-> 1,pc |-> (0 :> "bar_unlock" @@ 1 :> "next_stage"),stale |-> FALSE,stage |-> (0 :> 4 @@ 1 :> 3),row |-> (0 :> -1 @@ 1 :> -1),tframe |-> (0 :> 1 @@ 1 :> 1),frame |-> 1]),
    ([mpc |-> "joined",tmpLock |-> -1,start |-> [recon |-> TRUE, lf |-> TRUE, cdef |-> TRUE, lr |-> TRUE],count |-> <<[recon |-> (0 :> 1 @@ 1 :> 1), lf |-> (0 :> 1 @@ 1 :> 1), cdef |-> (0 :> 1 @@ 1 :> 1), lr |-> (0 :> 1 @@ 1 :> 1)], [recon |-> (0 :> 0 @@ 1 :> 0), lf |-> (0 :> 0 @@ 1 :> 0), cdef |-> (0 :> 0 @@ 1 :> 0), lr |-> (0 :> 0 @@ 1 :> 0)]>>,doneMap |-> [recon |-> (0 :> TRUE @@ 1 :> TRUE), lf |-> (0 :> TRUE @@ 1 :> TRUE), cdef |-> (0 :> TRUE @@ 1 :> TRUE), lr |-> (0 :> TRUE @@ 1 :> TRUE)],nextRow |-> [recon |-> 2, lf |-> 2, cdef |-> 2, lr |-> 2],numLred |-> 1,pc |-> (0 :> "bar_spin" @@ 1 :> "next_stage"),stale |-> FALSE,stage |-> (0 :> 4 @@ 1 :> 3),row |-> (0 :> -1 @@ 1 :> -1),tframe |-> (0 :> 1 @@ 1 :> 1),frame |-> 1]),
    ([mpc |-> "joined",tmpLock |-> -1,start |-> [recon |-> TRUE, lf |-> TRUE, cdef |-> TRUE, lr |-> TRUE],count |-> <<[recon |-> (0 :> 1 @@ 1 :> 1), lf |-> (0 :> 1 @@ 1 :> 1), cdef |-> (0 :> 1 @@ 1 :> 1), lr |-> (0 :> 1 @@ 1 :> 1)], [recon |-> (0 :> 0 @@ 1 :> 0), lf |-> (0 :> 0 @@ 1 :> 0), cdef |-> (0 :> 0 @@ 1 :> 0), lr |-> (0 :> 0 @@ 1 :> 0)]>>,doneMap |-> [recon |-> (0 :> TRUE @@ 1 :> TRUE), lf |-> (0 :> TRUE @@ 1 :> TRUE), cdef |-> (0 :> TRUE @@ 1 :> TRUE), lr |-> (0 :> TRUE @@ 1 :> TRUE)],nextRow |-> [recon |-> 2, lf |-> 2, cdef |-> 2, lr |-> 2],numLred |-> 1,pc |-> (0 :> "bar_spin" @@ 1 :> "wait_start"),stale |-> FALSE,stage |-> (0 :> 4 @@ 1 :> 4),row |-> (0 :> -1 @@ 1 :> -1),tframe |-> (0 :> 1 @@ 1 :> 1),frame |-> 1]),
    ([mpc |-> "joined",tmpLock |-> -1,start |-> [recon |-> TRUE, lf |-> TRUE, cdef |-> TRUE, lr |-> TRUE],count |-> <<[recon |-> (0 :> 1 @@ 1 :> 1), lf |-> (0 :> 1 @@ 1 :> 1), cdef |-> (0 :> 1 @@ 1 :> 1), lr |-> (0 :> 1 @@ 1 :> 1)], [recon |-> (0 :> 0 @@ 1 :> 0), lf |-> (0 :> 0 @@ 1 :> 0), cdef |-> (0 :> 0 @@ 1 :> 0), lr |-> (0 :> 0 @@ 1 :> 0)]>>,doneMap |-> [recon |-> (0 :> TRUE @@ 1 :> TRUE), lf |-> (0 :> TRUE @@ 1 :> TRUE), cdef |-> (0 :> TRUE @@ 1 :> TRUE), lr |-> (0 :> TRUE @@ 1 :> TRUE)],nextRow |-> [recon |-> 2, lf |-> 2, cdef |-> 2, lr |-> 2],numLred |-> 1,pc |-> (0 :> "bar_spin" @@ 1 :> "take"),stale |-> FALSE,stage |-> (0 :> 4 @@ 1 :> 4),row |-> (0 :> -1 @@ 1 :> -1),tframe |-> (0 :> 1 @@ 1 :> 1),frame |-> 1]),
    ([mpc |-> "joined",tmpLock |-> -1,start |-> [recon |-> TRUE, lf |-> TRUE, cdef |-> TRUE, lr |-> TRUE],count |-> <<[recon |-> (0 :> 1 @@ 1 :> 1), lf |-> (0 :> 1 @@ 1 :> 1), cdef |-> (0 :> 1 @@ 1 :> 1), lr |-> (0 :> 1 @@ 1 :> 1)], [recon |-> (0 :> 0 @@ 1 :> 0), lf |-> (0 :> 0 @@ 1 :> 0), cdef |-> (0 :> 0 @@ 1 :> 0), lr |-> (0 :> 0 @@ 1 :> 0)]>>,doneMap |-> [recon |-> (0 :> TRUE @@ 1 :> TRUE), lf |-> (0 :> TRUE @@ 1 :> TRUE), cdef |-> (0 :> TRUE @@ 1 :> TRUE), lr |-> (0 :> TRUE @@ 1 :> TRUE)],nextRow |-> [recon |-> 2, lf |-> 2, cdef |-> 2, lr |-> 2],numLred |-> 1,pc |-> (0 :> "bar_spin" @@ 1 :> "bar_lock"),stale |-> FALSE,stage |-> (0 :> 4 @@ 1 :> 4),row |-> (0 :> -1 @@ 1 :> -1),tframe |-> (0 :> 1 @@ 1 :> 1),frame |-> 1]),
    ([mpc |-> "joined",tmpLock |-> 1,start |-> [recon |-> TRUE, lf |-> TRUE, cdef |-> TRUE, lr |-> TRUE],count |-> <<[recon |-> (0 :> 1 @@ 1 :> 1), lf |-> (0 :> 1 @@ 1 :> 1), cdef |-> (0 :> 1 @@ 1 :> 1), lr |-> (0 :> 1 @@ 1 :> 1)], [recon |-> (0 :> 0 @@ 1 :> 0), lf |-> (0 :> 0 @@ 1 :> 0), cdef |-> (0 :> 0 @@ 1 :> 0), lr |-> (0 :> 0 @@ 1 :> 0)]>>,doneMap |-> [recon |-> (0 :> TRUE @@ 1 :> TRUE), lf |-> (0 :> TRUE @@ 1 :> TRUE), cdef |-> (0 :> TRUE @@ 1 :> TRUE), lr |-> (0 :> TRUE @@ 1 :> TRUE)],nextRow |-> [recon |-> 2, lf |-> 2, cdef |-> 2, lr |-> 2],numLred |-> 1,pc |-> (0 :> "bar_spin" @@ 1 :> "bar_inc"),stale |-> FALSE,stage |-> (0 :> 4 @@ 1 :> 4),row |-> (0 :> -1 @@ 1 :> -1),tframe |-> (0 :> 1 @@ 1 :> 1),frame |-> 1]),
    ([mpc |-> "joined",tmpLock |-> 1,start |-> [recon |-> TRUE, lf |-> TRUE, cdef |-> TRUE, lr |-> TRUE],count |-> <<[recon |-> (0 :> 1 @@ 1 :> 1), lf |-> (0 :> 1 @@ 1 :> 1), cdef |-> (0 :> 1 @@ 1 :> 1), lr |-> (0 :> 1 @@ 1 :> 1)], [recon |-> (0 :> 0 @@ 1 :> 0), lf |-> (0 :> 0 @@ 1 :> 0), cdef |-> (0 :> 0 @@ 1 :> 0), lr |-> (0 :> 0 @@ 1 :> 0)]>>,doneMap |-> [recon |-> (0 :> TRUE @@ 1 :> TRUE), lf |-> (0 :> TRUE @@ 1 :> TRUE), cdef |-> (0 :> TRUE @@ 1 :> TRUE), lr |-> (0 :> TRUE @@ 1 :> TRUE)],nextRow |-> [recon |-> 2, lf |-> 2, cdef |-> 2, lr |-> 2],numLred |-> 2,pc |-> (0 :> "bar_spin" @@ 1 :> "bar_reset"),stale |-> FALSE,stage |-> (0 :> 4 @@ 1 :> 4),row |-> (0 :> -1 @@ 1 :> -1),tframe |-> (0 :> 1 @@ 1 :> 1),frame |-> 1]),
    ([mpc |-> "reset",tmpLock |-> 1,start |-> [recon |-> TRUE, lf |-> TRUE, cdef |-> TRUE, lr |-> TRUE],count |-> <<[recon |-> (0 :> 1 @@ 1 :> 1), lf |-> (0 :> 1 @@ 1 :> 1), cdef |-> (0 :> 1 @@ 1 :> 1), lr |-> (0 :> 1 @@ 1 :> 1)], [recon |-> (0 :> 0 @@ 1 :> 0), lf |-> (0 :> 0 @@ 1 :> 0), cdef |-> (0 :> 0 @@ 1 :> 0), lr |-> (0 :> 0 @@ 1 :> 0)]>>,doneMap |-> [recon |-> (0 :> TRUE @@ 1 :> TRUE), lf |-> (0 :> TRUE @@ 1 :> TRUE), cdef |-> (0 :> TRUE @@ 1 :> TRUE), lr |-> (0 :> TRUE @@ 1 :> TRUE)],nextRow |-> [recon |-> 2, lf |-> 2, cdef |-> 2, lr |-> 2],numLred |-> 2,pc |-> (0 :> "main_setup" @@ 1 :> "bar_reset"),stale |-> FALSE,stage |-> (0 :> 1 @@ 1 :> 4),row |-> (0 :> -1 @@ 1 :> -1),tframe |-> (0 :> 2 @@ 1 :> 1),frame |-> 2])
    >>
----


=============================================================================

---- CONFIG DecMT_TTrace_1790051834 ----
CONSTANTS
    T = 2
    R = 2
    F = 2
    FixedBarrier = FALSE

INVARIANT
    _inv

CHECK_DEADLOCK
    \* CHECK_DEADLOCK off because of PROPERTY or INVARIANT above.
    FALSE

INIT
    _init

NEXT
    _next

CONSTANT
    _TETrace <- _trace

ALIAS
    _expression
=============================================================================
\* Generated on Tue Sep 22 04:37:19 UTC 2026