----------------------------- MODULE Packetize -----------------------------
(***************************************************************************)
(* Design model of the packetization stage                                 *)
(*   Source/Lib/Encoder/Codec/EbPacketizationProcess.c :636-910            *)
(* fed by a hierarchical random-access GOP (picture decision):             *)
(*   - pictures finish entropy coding in ANY order (parallel pipeline),    *)
(*     limited only by the number of pictures in flight;                   *)
(*   - each is inserted into the circular reorder queue at                 *)
(*     decode_order mod D;                                                 *)
(*   - from the head, a temporal unit = the consecutive entries up to and  *)
(*     including the first shown frame (count_frames_in_next_tu);          *)
(*   - hidden frames of the unit are pushed on the undisplayed stack       *)
(*     (kept sorted so that the next to be displayed is popped);           *)
(*   - a shown frame whose display successor is already coded carries      *)
(*     has_show_existing: a second packet (show-existing) follows;         *)
(*   - EOS is set on the entry whose decode order is the terminating       *)
(*     number and is moved to the show-existing packet if there is one;    *)
(*   - released entries get picture_number += D (slot reuse).              *)
(* Properties: C02 (one displayed frame per packet, last in the unit),     *)
(* C03 (N packets, display order, EOS exactly on the last), C22 (wrap of   *)
(* the circular queue with D << N), C27/C04 (same output for every         *)
(* completion order).                                                      *)
(***************************************************************************)
EXTENDS Integers, Sequences, FiniteSets, TLC

CONSTANTS MaxN,     \* pictures submitted: every N in 0 .. MaxN is explored
          Levels,   \* set of hierarchical levels explored (mini-GOP = 2^L)
          D,        \* depth of the circular reorder queue
          InFlight, \* pictures that may be between picture decision and packetization
          MaxUndisp \* REF_FRAMES: capacity of the undisplayed stack

NONE == -1

(* ---- picture decision, generic hierarchical structure ---- *)
RECURSIVE Bisect(_, _)
Bisect(a, b) == IF b - a < 2 THEN <<>>
                ELSE LET m == (a + b) \div 2 IN <<m>> \o Bisect(a, m) \o Bisect(m, b)
RECURSIVE MiniGops(_, _, _)
MiniGops(first, n, mg) ==            \* decode order of pocs first .. n-1
  IF first > n - 1 THEN <<>>
  ELSE IF first + mg - 1 <= n - 1
         THEN <<first + mg - 1>> \o Bisect(first - 1, first + mg - 1) \o MiniGops(first + mg, n, mg)
         ELSE IF mg > 8
                THEN MiniGops(first, n, mg \div 2)              \* incomplete window: smaller complete mini-GOPs (>= 8) first
                ELSE [i \in 1 .. n - first |-> first + i - 1]   \* remaining tail: low delay, in order
DecOrderOf(n, lv) == IF n = 0 THEN <<>> ELSE <<0>> \o MiniGops(1, n, 2 ^ lv)   \* pocs in decode order

VARIABLES N,        \* pictures submitted (chosen in Init)
          DecOrder, \* sequence of pocs in decode order (chosen in Init)
          arrived,  \* set of decode indices (1-based) that reached packetization
          slot,     \* [0 .. D-1 -> decode index | NONE]
          expect,   \* [0 .. D-1 -> decode index the slot is waiting for]  (picture_number += D on release)
          head,     \* decode index at the head of the queue
          undisp,   \* undisplayed stack: sequence of pocs, top = last
          out       \* delivered packets: sequence of [pos, frames, showex, eos]
vars == <<N, DecOrder, arrived, slot, expect, head, undisp, out>>

DecOf(p) == CHOOSE d \in 1 .. N : DecOrder[d] = p             \* 1-based decode index of poc p
Hidden(p) == \E q \in 0 .. p - 1 : DecOf(q) > DecOf(p)        \* decoded before an earlier-displayed picture
HasShowEx(p) == ~Hidden(p) /\ p + 1 <= N - 1 /\ DecOf(p + 1) < DecOf(p)

Init ==
  /\ N \in 0 .. MaxN
  /\ \E lv \in Levels : DecOrder = DecOrderOf(N, lv)
  /\ arrived = {} /\ slot = [i \in 0 .. D - 1 |-> NONE]
  /\ expect = [i \in 0 .. D - 1 |-> IF i = 0 THEN D ELSE i]   \* decode indices are 1-based: index d lives in slot d mod D
  /\ head = 1 /\ undisp = <<>> /\ out = <<>>

(* consecutive filled entries from the head up to and including the first shown one; 0 if incomplete *)
RECURSIVE TuLen(_, _)
TuLen(d, k) ==
  IF d > N \/ k > D THEN 0
  ELSE IF slot[d % D] # d THEN 0
  ELSE IF ~Hidden(DecOrder[d]) THEN k
  ELSE TuLen(d + 1, k + 1)

(* sort descending by display position so that the next to display is on top *)
RECURSIVE SortDesc(_)
SortDesc(s) == IF s = {} THEN <<>> ELSE LET m == CHOOSE x \in s : \A y \in s : x >= y IN <<m>> \o SortDesc(s \ {m})
SeqSet(q) == {q[i] : i \in 1 .. Len(q)}

Arrive(d) ==
  /\ d \in 1 .. N /\ d \notin arrived
  /\ d < head + InFlight                    \* in-flight window
  /\ slot[d % D] = NONE /\ expect[d % D] = d \* NoOverwrite: the slot was released and waits for exactly this picture
  /\ arrived' = arrived \cup {d}
  /\ slot' = [slot EXCEPT ![d % D] = d]
  /\ UNCHANGED <<N, DecOrder, expect, head, undisp, out>>

Emit ==
  /\ TuLen(head, 1) > 0
  /\ LET n == TuLen(head, 1)
         last == head + n - 1
         p == DecOrder[last]
         hid == {DecOrder[head + i] : i \in 0 .. n - 2}
         st == IF n > 1 THEN SortDesc(SeqSet(undisp) \cup hid) ELSE undisp
         eos == last = N \/ \E i \in 0 .. n - 1 : head + i = N     \* an entry of the unit has the terminating number
         lastEos == (last = N)
         tu == [pos |-> p, frames |-> n, showex |-> FALSE, eos |-> lastEos /\ ~HasShowEx(p)]
     IN /\ Len(st) <= MaxUndisp
        /\ IF HasShowEx(p)
             THEN /\ st # <<>>
                  /\ out' = out \o <<tu, [pos |-> st[Len(st)], frames |-> 0, showex |-> TRUE, eos |-> lastEos]>>
                  /\ undisp' = SubSeq(st, 1, Len(st) - 1)
             ELSE /\ out' = Append(out, tu)
                  /\ undisp' = st
        /\ slot' = [i \in 0 .. D - 1 |-> IF \E k \in 0 .. n - 1 : (head + k) % D = i THEN NONE ELSE slot[i]]
        /\ expect' = [i \in 0 .. D - 1 |-> IF \E k \in 0 .. n - 1 : (head + k) % D = i THEN expect[i] + D ELSE expect[i]]
        /\ head' = head + n
  /\ UNCHANGED <<N, DecOrder, arrived>>

Next == Emit \/ \E d \in 1 .. N : Arrive(d)
Spec == Init /\ [][Next]_vars
FairSpec == Spec /\ WF_vars(Next)

-----------------------------------------------------------------------------
Done == head = N + 1
(* packets come out in display order, one per position *)
InOrder == \A i \in 1 .. Len(out) : out[i].pos = i - 1
(* exactly the last packet carries EOS *)
EosOnlyLast == \A i \in 1 .. Len(out) : out[i].eos <=> (i = N)
(* when everything was processed exactly N packets were delivered and nothing is left behind *)
Complete == Done => (Len(out) = N /\ undisp = <<>>)
(* a show-existing packet displays a picture that was coded hidden *)
ShowExHidden == \A i \in 1 .. Len(out) : out[i].showex => Hidden(out[i].pos)
(* no deadlock: unless done, some step is possible *)
Progress == ~Done => (ENABLED Next)
Finishes == <>Done
=============================================================================
