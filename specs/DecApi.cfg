SPECIFICATION Spec
CONSTANT MaxFrames = 2
INVARIANT TypeOK
CHECK_DEADLOCK FALSE
