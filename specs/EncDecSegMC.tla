---------------------------- MODULE EncDecSegMC ----------------------------
(***************************************************************************)
(* Exhaustive model: every grid W,H <= MaxW,MaxH x every requested segment *)
(* grid x every interleaving of NW workers.  The grid is chosen in Init so *)
(* that one TLC run covers all geometries.                                 *)
(***************************************************************************)
EXTENDS EncDecSeg, TLC

CONSTANTS MaxW, MaxH, NW, MaxRowsCap

Workers == 1 .. NW

VARIABLES
  g,        \* geometry record (constant after Init)
  dep,      \* dependency_map
  cur,      \* row_array[r].current_seg_index
  tasks,    \* feedback FIFO: sequence of tasks, <<"mdc">> or <<"row", r>>
  pc,       \* worker control state
  task,     \* worker: task being executed
  seg,      \* worker: *segmentInOutIndex
  tmp,      \* worker: value of cur[row] read without lock (ENCDEC_INPUT start)
  selfA,    \* worker: self_assigned
  cont,     \* worker: continue_processing_flag
  fb,       \* worker: feedback_row_index
  fin,      \* worker: the segment it has just finished (segment_index)
  done,     \* [<<x,y>> -> number of times the superblock was processed]
  running   \* set of segments currently being processed

vars == <<g, dep, cur, tasks, pc, task, seg, tmp, selfA, cont, fb, fin, done, running>>

Init ==
  /\ \E W \in 1 .. MaxW, H \in 1 .. MaxH :
       \E SC \in 1 .. W, SR \in 1 .. H :
          /\ g = Geo(W, H, SC, SR, MaxRowsCap)
  /\ dep = g.dep0
  /\ cur = g.rStart
  /\ tasks = << <<"mdc">> >>
  /\ pc = [w \in Workers |-> "idle"]
  /\ task = [w \in Workers |-> <<>>]
  /\ seg = [w \in Workers |-> NONE]
  /\ tmp = [w \in Workers |-> NONE]
  /\ selfA = [w \in Workers |-> FALSE]
  /\ cont = [w \in Workers |-> FALSE]
  /\ fb = [w \in Workers |-> NONE]
  /\ fin = [w \in Workers |-> NONE]
  /\ done = [p \in (0 .. g.W - 1) \X (0 .. g.H - 1) |-> 0]
  /\ running = {}


(* svt_get_full_object on the EncDec task fifo *)
TakeTask(w) ==
  /\ pc[w] = "idle" /\ tasks # <<>>
  /\ task' = [task EXCEPT ![w] = Head(tasks)]
  /\ tasks' = Tail(tasks)
  /\ pc' = [pc EXCEPT ![w] = IF Head(tasks)[1] = "mdc" THEN "start_mdc" ELSE "start_row_rd"]
  /\ UNCHANGED <<g, dep, cur, seg, tmp, selfA, cont, fb, fin, done, running>>

(* ENCDEC_TASKS_MDC_INPUT :303-324 (no other task of this picture exists yet) *)
StartMdc(w) ==
  /\ pc[w] = "start_mdc"
  /\ seg' = [seg EXCEPT ![w] = g.rStart[0]]
  /\ cur' = [r \in DOMAIN cur |-> IF r = 0 THEN g.rStart[0] + 1 ELSE g.rStart[r]]
  /\ pc' = [pc EXCEPT ![w] = "process"]
  /\ UNCHANGED <<g, dep, tasks, task, tmp, selfA, cont, fb, fin, done, running>>

(* ENCDEC_TASKS_ENCDEC_INPUT :325-340: current_seg_index is read and incremented WITHOUT the row mutex *)
StartRowRead(w) ==
  /\ pc[w] = "start_row_rd"
  /\ tmp' = [tmp EXCEPT ![w] = cur[task[w][2]]]
  /\ pc' = [pc EXCEPT ![w] = "start_row_wr"]
  /\ UNCHANGED <<g, dep, cur, tasks, task, seg, selfA, cont, fb, fin, done, running>>
StartRowWrite(w) ==
  /\ pc[w] = "start_row_wr"
  /\ seg' = [seg EXCEPT ![w] = tmp[w]]
  /\ cur' = [cur EXCEPT ![task[w][2]] = tmp[w] + 1]
  /\ pc' = [pc EXCEPT ![w] = "process"]
  /\ UNCHANGED <<g, dep, tasks, task, tmp, selfA, cont, fb, fin, done, running>>

(* the segment loop body: all superblocks of the segment, in the order of the kernel loop *)
ProcessBegin(w) ==
  /\ pc[w] = "process"
  /\ running' = running \cup {seg[w]}
  /\ pc' = [pc EXCEPT ![w] = "processing"]
  /\ UNCHANGED <<g, dep, cur, tasks, task, seg, tmp, selfA, cont, fb, fin, done>>
ProcessEnd(w) ==
  /\ pc[w] = "processing"
  /\ done' = [p \in DOMAIN done |-> IF seg[w] \in 0 .. g.ttl - 1 /\ p \in SeqSet(SegOrder(g, seg[w])) THEN done[p] + 1 ELSE done[p]]
  /\ running' = running \ {seg[w]}
  /\ selfA' = [selfA EXCEPT ![w] = FALSE]
  /\ cont' = [cont EXCEPT ![w] = FALSE]
  /\ fb' = [fb EXCEPT ![w] = NONE]
  /\ pc' = [pc EXCEPT ![w] = "right"]
  /\ UNCHANGED <<g, dep, cur, tasks, task, seg, tmp, fin>>

(* ENCDEC_TASKS_CONTINUE, right neighbour :352-369 (under row_array[r].assignment_mutex) *)
ContinueRight(w) ==
  /\ pc[w] = "right"
  /\ LET e == RightEffect(g, dep, cur, seg[w]) IN
       /\ dep' = e.dep
       /\ cur' = e.cur
       /\ IF e.got # NONE
            THEN /\ seg' = [seg EXCEPT ![w] = e.got]
                 /\ selfA' = [selfA EXCEPT ![w] = TRUE]
                 /\ cont' = [cont EXCEPT ![w] = TRUE]
            ELSE UNCHANGED <<seg, selfA, cont>>
  /\ pc' = [pc EXCEPT ![w] = "bl"]
  /\ fin' = [fin EXCEPT ![w] = seg[w]]                \* remembers the finished segment
  /\ UNCHANGED <<g, tasks, task, tmp, fb, done, running>>

(* bottom-left neighbour :372-394 (under row_array[r+1].assignment_mutex) *)
ContinueBL(w) ==
  /\ pc[w] = "bl"
  /\ LET e == BLEffect(g, dep, cur, fin[w], selfA[w]) IN
       /\ dep' = e.dep
       /\ cur' = e.cur
       /\ fb' = [fb EXCEPT ![w] = e.fb]
       /\ IF e.got # NONE
            THEN /\ seg' = [seg EXCEPT ![w] = e.got]
                 /\ cont' = [cont EXCEPT ![w] = TRUE]
            ELSE UNCHANGED <<seg, cont>>
  /\ pc' = [pc EXCEPT ![w] = "feedback"]
  /\ UNCHANGED <<g, tasks, task, tmp, selfA, fin, done, running>>

(* post the feedback task :396-405, then return continue_processing_flag *)
Feedback(w) ==
  /\ pc[w] = "feedback"
  /\ tasks' = IF fb[w] > 0 THEN Append(tasks, <<"row", fb[w]>>) ELSE tasks
  /\ pc' = [pc EXCEPT ![w] = IF cont[w] THEN "process" ELSE "idle"]
  /\ UNCHANGED <<g, dep, cur, task, seg, tmp, selfA, cont, fb, fin, done, running>>

Step(w) == TakeTask(w) \/ StartMdc(w) \/ StartRowRead(w) \/ StartRowWrite(w) \/ ProcessBegin(w)
           \/ ProcessEnd(w) \/ ContinueRight(w) \/ ContinueBL(w) \/ Feedback(w)
Next == \E w \in Workers : Step(w)
Spec == Init /\ [][Next]_vars
FairSpec == Spec /\ \A w \in Workers : WF_vars(Step(w))

-----------------------------------------------------------------------------
AllDone == \A p \in DOMAIN done : done[p] = 1
Quiescent == tasks = <<>> /\ \A w \in Workers : pc[w] = "idle"

(* static half (scheduling independent) *)
GeometryOK == LoopMatchesMap(g) /\ AllSbCovered(g) /\ IntraSegOrder(g)

(* "processes every superblock exactly once" *)
NeverTwice == \A p \in DOMAIN done : done[p] <= 1
(* "always completes the picture": no quiescent state with work left (safety form of <>AllDone) *)
NoStuck == Quiescent => AllDone

(* "starts a segment only after the segments holding its left, upper and upper-right (and upper-left) *)
(* neighbouring superblocks have finished"                                                           *)
DepsRespected ==
  \A s \in running :
    s \in 0 .. g.ttl - 1 /\
    \A p \in SeqSet(SegOrder(g, s)) : \A q \in Nbrs(g, p[1], p[2]) :
       q \in SeqSet(SegOrder(g, s)) \/ done[q] = 1
(* a segment is running at most once at a time, and only valid ones are assigned *)
AssignedValid == \A w \in Workers : pc[w] \in {"process", "processing"} => seg[w] \in 0 .. g.ttl - 1 /\ g.valid[seg[w]] > 0
OneRunner == \A w1, w2 \in Workers : (w1 # w2 /\ pc[w1] = "processing" /\ pc[w2] = "processing") => seg[w1] # seg[w2]
DepNoUnderflow == \A s \in DOMAIN dep : dep[s] >= 0       \* uint8_t in C
FeedbackBounded == Len(tasks) <= g.sr

Completes == <>AllDone
=============================================================================
