\* vacuity guard: with the defective constructor kind the invariant MUST be violated
SPECIFICATION Spec
CONSTANTS MaxDepth = 1 MaxKids = 1 WithLeakyKind = TRUE
INVARIANTS FailedNewUnwound
CHECK_DEADLOCK FALSE
