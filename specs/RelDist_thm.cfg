SPECIFICATION Spec
CONSTANT MaxBits = 8
INVARIANT ThmHolds
CHECK_DEADLOCK FALSE
