---- MODULE Packetize_TTrace_1790041566 ----
EXTENDS Sequences, TLCExt, Packetize, Toolbox, Naturals, TLC

_expression ==
    LET Packetize_TEExpression == INSTANCE Packetize_TEExpression
    IN Packetize_TEExpression!expression
----

_trace ==
    LET Packetize_TETrace == INSTANCE Packetize_TETrace
    IN Packetize_TETrace!trace
----

_prop ==
    ~<>[](
        head = (2)
        /\
        expect = ((0 :> 4 @@ 1 :> 5 @@ 2 :> 2 @@ 3 :> 3))
        /\
        arrived = ({1, 2, 3, 4})
        /\
        slot = ((0 :> 4 @@ 1 :> -1 @@ 2 :> 2 @@ 3 :> 3))
        /\
        N = (9)
        /\
        undisp = (<<>>)
        /\
        DecOrder = (<<0, 8, 4, 2, 1, 3, 6, 5, 7>>)
        /\
        out = (<<[eos |-> FALSE, pos |-> 0, frames |-> 1, showex |-> FALSE]>>)
    )
----

_init ==
    /\ N = _TETrace[1].N
    /\ undisp = _TETrace[1].undisp
    /\ DecOrder = _TETrace[1].DecOrder
    /\ expect = _TETrace[1].expect
    /\ out = _TETrace[1].out
    /\ slot = _TETrace[1].slot
    /\ arrived = _TETrace[1].arrived
    /\ head = _TETrace[1].head
----

_next ==
    /\ \E i,j \in DOMAIN _TETrace:
        /\ \/ /\ j = i + 1
              /\ i = TLCGet("level")
        /\ N  = _TETrace[i].N
        /\ N' = _TETrace[j].N
        /\ undisp  = _TETrace[i].undisp
        /\ undisp' = _TETrace[j].undisp
        /\ DecOrder  = _TETrace[i].DecOrder
        /\ DecOrder' = _TETrace[j].DecOrder
        /\ expect  = _TETrace[i].expect
        /\ expect' = _TETrace[j].expect
        /\ out  = _TETrace[i].out
        /\ out' = _TETrace[j].out
        /\ slot  = _TETrace[i].slot
        /\ slot' = _TETrace[j].slot
        /\ arrived  = _TETrace[i].arrived
        /\ arrived' = _TETrace[j].arrived
        /\ head  = _TETrace[i].head
        /\ head' = _TETrace[j].head

\* Uncomment the ASSUME below to write the states of the error trace
\* to the given file in Json format. Note that you can pass any tuple
\* to `JsonSerialize`. For example, a sub-sequence of _TETrace.
    \* ASSUME
    \*     LET J == INSTANCE Json
    \*         IN J!JsonSerialize("Packetize_TTrace_1790041566.json", _TETrace)

=============================================================================

 Note that you can extract this module `Packetize_TEExpression`
  to a dedicated file to reuse `expression` (the module in the 
  dedicated `Packetize_TEExpression.tla` file takes precedence 
  over the module `Packetize_TEExpression` below).

---- MODULE Packetize_TEExpression ----
EXTENDS Sequences, TLCExt, Packetize, Toolbox, Naturals, TLC

expression == 
    [
        \* To hide variables of the `Packetize` spec from the error trace,
        \* remove the variables below.  The trace will be written in the order
        \* of the fields of this record.
        N |-> N
        ,undisp |-> undisp
        ,DecOrder |-> DecOrder
        ,expect |-> expect
        ,out |-> out
        ,slot |-> slot
        ,arrived |-> arrived
        ,head |-> head
        
        \* Put additional constant-, state-, and action-level expressions here:
        \* ,_stateNumber |-> _TEPosition
        \* ,_NUnchanged |-> N = N'
        
        \* Format the `N` variable as Json value.
        \* ,_NJson |->
        \*     LET J == INSTANCE Json
        \*     IN J!ToJson(N)
        
        \* Lastly, you may build expressions over arbitrary sets of states by
        \* leveraging the _TETrace operator.  For example, this is how to
        \* count the number of times a spec variable changed up to the current
        \* state in the trace.
        \* ,_NModCount |->
        \*     LET F[s \in DOMAIN _TETrace] ==
        \*         IF s = 1 THEN 0
        \*         ELSE IF _TETrace[s].N # _TETrace[s-1].N
        \*             THEN 1 + F[s-1] ELSE F[s-1]
        \*     IN F[_TEPosition - 1]
    ]

=============================================================================



Parsing and semantic processing can take forever if the trace below is long.
 In this case, it is advised to uncomment the module below to deserialize the
 trace from a generated binary file.

\*
\*---- MODULE Packetize_TETrace ----
\*EXTENDS IOUtils, Packetize, TLC
\*
\*trace == IODeserialize("Packetize_TTrace_1790041566.bin", TRUE)
\*
\*=============================================================================
\*

---- MODULE Packetize_TETrace ----
EXTENDS Packetize, TLC

trace == 
    <<
    ([head |-> 1,expect |-> (0 :> 4 @@ 1 :> 1 @@ 2 :> 2 @@ 3 :> 3),arrived |-> {},slot |-> (0 :> -1 @@ 1 :> -1 @@ 2 :> -1 @@ 3 :> -1),N |-> 9,undisp |-> <<>>,DecOrder |-> <<0, 8, 4, 2, 1, 3, 6, 5, 7>>,out |-> <<>>]),
    ([head |-> 1,expect |-> (0 :> 4 @@ 1 :> 1 @@ 2 :> 2 @@ 3 :> 3),arrived |-> {2},slot |-> (0 :> -1 @@ 1 :> -1 @@ 2 :> 2 @@ 3 :> -1),N |-> 9,undisp |-> <<>>,DecOrder |-> <<0, 8, 4, 2, 1, 3, 6, 5, 7>>,out |-> <<>>]),
    ([head |-> 1,expect |-> (0 :> 4 @@ 1 :> 1 @@ 2 :> 2 @@ 3 :> 3),arrived |-> {2, 3},slot |-> (0 :> -1 @@ 1 :> -1 @@ 2 :> 2 @@ 3 :> 3),N |-> 9,undisp |-> <<>>,DecOrder |-> <<0, 8, 4, 2, 1, 3, 6, 5, 7>>,out |-> <<>>]),
    ([head |-> 1,expect |-> (0 :> 4 @@ 1 :> 1 @@ 2 :> 2 @@ 3 :> 3),arrived |-> {1, 2, 3},slot |-> (0 :> -1 @@ 1 :> 1 @@ 2 :> 2 @@ 3 :> 3),N |-> 9,undisp |-> <<>>,DecOrder |-> <<0, 8, 4, 2, 1, 3, 6, 5, 7>>,out |-> <<>>]),
    ([head |-> 2,expect |-> (0 :> 4 @@ 1 :> 5 @@ 2 :> 2 @@ 3 :> 3),arrived |-> {1, 2, 3},slot |-> (0 :> -1 @@ 1 :> -1 @@ 2 :> 2 @@ 3 :> 3),N |-> 9,undisp |-> <<>>,DecOrder |-> <<0, 8, 4, 2, 1, 3, 6, 5, 7>>,out |-> <<[eos |-> FALSE, pos |-> 0, frames |-> 1, showex |-> FALSE]>>]),
    ([head |-> 2,expect |-> (0 :> 4 @@ 1 :> 5 @@ 2 :> 2 @@ 3 :> 3),arrived |-> {1, 2, 3, 4},slot |-> (0 :> 4 @@ 1 :> -1 @@ 2 :> 2 @@ 3 :> 3),N |-> 9,undisp |-> <<>>,DecOrder |-> <<0, 8, 4, 2, 1, 3, 6, 5, 7>>,out |-> <<[eos |-> FALSE, pos |-> 0, frames |-> 1, showex |-> FALSE]>>])
    >>
----


=============================================================================

---- CONFIG Packetize_TTrace_1790041566 ----
CONSTANTS
    MaxN = 10
    Levels = { 2 , 3 }
    D = 4
    InFlight = 3
    MaxUndisp = 8

PROPERTY
    _prop

CHECK_DEADLOCK
    \* CHECK_DEADLOCK off because of PROPERTY or INVARIANT above.
    FALSE

INIT
    _init

NEXT
    _next

CONSTANT
    _TETrace <- _trace

ALIAS
    _expression
=============================================================================
\* Generated on Tue Sep 22 01:46:13 UTC 2026