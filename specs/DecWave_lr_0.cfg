SPECIFICATION FairSpec
CONSTANTS R = 3  W = 4  T = 3  Kind = "lr"  Slip = 0
INVARIANT NoEarlyStart
INVARIANT NoStall
PROPERTY Completes
CHECK_DEADLOCK FALSE
