SPECIFICATION FairSpec
CONSTANT Ser = TRUE
CONSTANT Bar = TRUE
CONSTANT Pop = "dec2"
INVARIANT TypeOK
INVARIANT NoInterference
PROPERTY Completes
CHECK_DEADLOCK FALSE
