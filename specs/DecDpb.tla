------------------------------- MODULE DecDpb -------------------------------
(***************************************************************************)
(* The decoder's picture-buffer manager (decoded picture buffer):          *)
(*   Source/Lib/Decoder/Codec/EbDecPicMgr.c                                *)
(*     dec_pic_mgr_get_cur_pic      :110  first free buffer, ref_count = 1 *)
(*     generate_next_ref_frame_map  :260  next[s] = refreshed ? cur : map[s], ref_count++ each *)
(*     dec_pic_mgr_update_ref_pic   :213  release map[s]; map[s] = next[s]; release cur (not for show-existing) *)
(*   Source/Lib/Decoder/Codec/EbDecParseObu.c:1772  show_existing_frame:   *)
(*     cur = map[frame_to_show] (no count), a shown KEY frame refreshes    *)
(*     every slot                                                          *)
(* MAX_PIC_BUFS = REF_FRAMES + 1 + DEC_MAX_NUM_FRM_PRLL buffers.           *)
(*                                                                         *)
(* One frame = Get | ShowEx ; Gen ; (decode: reads the pictures in map) ;  *)
(* Upd.  The frame headers of a valid stream choose the refresh set and    *)
(* the slot to show; TLC explores every such sequence.                     *)
(*                                                                         *)
(* Safety: reference counts are exact, a buffer is free iff its count is   *)
(* zero, no slot ever points at a free buffer, the buffer taken for a new  *)
(* frame is referenced by nobody (a decode never overwrites a live         *)
(* reference), the pool never runs dry, nothing leaks.                     *)
(***************************************************************************)
EXTENDS Integers, FiniteSets, TLC
CONSTANTS NS,      \* reference slots (REF_FRAMES = 8)
          NB       \* picture buffers (MAX_PIC_BUFS = 10)

Slots == 0 .. NS - 1
Bufs  == 0 .. NB - 1
None  == -1

VARIABLES rc, free,        \* Bufs -> ref_count, is_free
          map, nxt,        \* Slots -> buffer or None
          cur,             \* buffer of the frame in flight / last output, or None
          isKey,           \* Bufs -> the picture in the buffer is a key frame
          ph,              \* "idle" | "got" | "gen"
          showEx,          \* the frame in flight is a show-existing frame
          refresh,         \* refresh set of the frame in flight
          bad
vars == <<rc, free, map, nxt, cur, isKey, ph, showEx, refresh, bad>>

Init == /\ rc = [b \in Bufs |-> 0] /\ free = [b \in Bufs |-> TRUE]
        /\ map = [s \in Slots |-> None] /\ nxt = [s \in Slots |-> None]
        /\ cur = None /\ isKey = [b \in Bufs |-> FALSE]
        /\ ph = "idle" /\ showEx = FALSE /\ refresh = {} /\ bad = {}

FreeBufs == {b \in Bufs : free[b]}
FirstFree == CHOOSE b \in FreeBufs : \A x \in FreeBufs : b <= x
Refs(b) == Cardinality({s \in Slots : map[s] = b}) + Cardinality({s \in Slots : nxt[s] = b})

(* dec_pic_mgr_get_cur_pic for a frame with the given refresh set *)
Get(rf, key) ==
  /\ ph = "idle"
  /\ IF FreeBufs = {}
       THEN /\ bad' = bad \cup {"no free picture buffer"}
            /\ UNCHANGED <<rc, free, map, nxt, cur, isKey, ph, showEx, refresh>>
       ELSE LET b == FirstFree IN
            /\ bad' = bad \cup (IF Refs(b) > 0 THEN {"buffer handed out while referenced"} ELSE {})
            /\ rc' = [rc EXCEPT ![b] = 1] /\ free' = [free EXCEPT ![b] = FALSE]
            /\ cur' = b /\ isKey' = [isKey EXCEPT ![b] = key]
            /\ ph' = "got" /\ showEx' = FALSE /\ refresh' = rf
            /\ UNCHANGED <<map, nxt>>

(* show_existing_frame of slot s *)
ShowEx(s) ==
  /\ ph = "idle" /\ map[s] # None
  /\ cur' = map[s]
  /\ refresh' = IF isKey[map[s]] THEN Slots ELSE {}
  /\ ph' = "got" /\ showEx' = TRUE
  /\ UNCHANGED <<rc, free, map, nxt, isKey, bad>>

Bump(f) == [b \in Bufs |-> rc[b] + Cardinality({s \in Slots : f[s] = b})]
(* generate_next_ref_frame_map *)
Gen ==
  /\ ph = "got"
  /\ LET n == [s \in Slots |-> IF s \in refresh THEN cur ELSE map[s]] IN
       /\ nxt' = n
       /\ rc' = Bump(n)
  /\ ph' = "gen"
  /\ UNCHANGED <<free, map, cur, isKey, showEx, refresh, bad>>

(* dec_pic_mgr_update_ref_pic(frame_decoded = 1) *)
Drop(r, S) == [b \in Bufs |-> r[b] - Cardinality({s \in S : map[s] = b})]
Upd ==
  /\ ph = "gen"
  /\ bad' = bad \cup {"decode read a free reference" : s \in {x \in Slots : map[x] # None /\ free[map[x]]}}
  /\ LET r1 == Drop(rc, Slots)
         r2 == IF showEx THEN r1 ELSE [r1 EXCEPT ![cur] = @ - 1] IN
       /\ rc' = r2
       \* is_free is only ever SET by a release that reaches zero (dec_ref_count_and_rel)
       /\ free' = [b \in Bufs |-> IF r2[b] = 0 /\ (rc[b] # r2[b]) THEN TRUE ELSE free[b]]
  /\ map' = nxt /\ nxt' = [s \in Slots |-> None]
  /\ ph' = "idle"
  /\ UNCHANGED <<cur, isKey, showEx, refresh>>

Next == \/ \E rf \in SUBSET Slots, key \in BOOLEAN : Get(rf, key)
        \/ \E s \in Slots : ShowEx(s)
        \/ Gen \/ Upd
Spec == Init /\ [][Next]_vars

Holding == IF ph \in {"got", "gen"} /\ ~showEx THEN cur ELSE None
CountExact == \A b \in Bufs : rc[b] = Refs(b) + (IF Holding = b THEN 1 ELSE 0)
FreeIffZero == \A b \in Bufs : free[b] <=> rc[b] = 0
RefsLive == \A s \in Slots : (map[s] # None => ~free[map[s]]) /\ (nxt[s] # None => ~free[nxt[s]])
NoBad == bad = {}
(* witnesses (must be violated): every buffer gets used; a slot keeps a picture across many frames *)
NeverAllBusy == Cardinality(FreeBufs) > 1
=============================================================================
