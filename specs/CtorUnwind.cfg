SPECIFICATION Spec
CONSTANTS MaxDepth = 2 MaxKids = 2 WithLeakyKind = FALSE
INVARIANTS FailedNewUnwound DeleteReleasesAll FaultReported
CHECK_DEADLOCK FALSE
