SPECIFICATION Spec
CONSTANTS MaxW = 4 MaxH = 4 NW = 2 MaxRowsCap = 8
INVARIANTS GeometryOK NeverTwice NoStuck DepsRespected AssignedValid OneRunner DepNoUnderflow FeedbackBounded
CHECK_DEADLOCK FALSE
