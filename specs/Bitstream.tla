----------------------------- MODULE Bitstream -----------------------------
(***************************************************************************)
(* What a conforming AV1 reader sees in the packets the encoder delivers:  *)
(* temporal-unit grammar, decoded-picture-buffer bookkeeping, display      *)
(* order, intra placement, quantizer bounds, tool switches.  Written from  *)
(* the AV1 specification (sections 5.9, 7.5, 7.20, 7.21), not from the     *)
(* encoder.  Events come from the independent parser tools/av1obu.py.      *)
(*                                                                         *)
(* C02 grammar / sizes / sequence header / picture type                    *)
(* C03 exactly N displayed pictures, display order = packet order          *)
(* C18 base_q_idx inside the configured bounds                             *)
(* C19 intra placement by display position; key frames reset the DPB       *)
(* C20 tools that are switched off do not appear; tile layout              *)
(* C22 order hints are the display positions modulo 2^OrderHintBits        *)
(***************************************************************************)
EXTENDS Integers, Sequences, FiniteSets, TLC, Json, IOUtils

Tr == ndJsonDeserialize(IOEnv.TRACE)

OBU_SEQ == 1   OBU_TD == 2   OBU_FRAME_HDR == 3   OBU_TILE_GROUP == 4
OBU_META == 5  OBU_FRAME == 6  OBU_RED == 7  OBU_PAD == 15
KEY == 0  INTER == 1  INTRA_ONLY == 2  SWITCH == 3
NoSlot == [valid |-> FALSE, tag |-> -1, oh |-> 0, ftype |-> 0, showable |-> 0, rff |-> 0]

VARIABLES l,
  cfg,       \* stream-level expectations (record from the Stream event)
  seqDig,    \* digest of the first sequence header ("" before)
  dpb,       \* [0..7 -> slot record]
  nextTag,   \* frames decoded so far
  disp,      \* pictures displayed so far
  nonref,    \* tags announced as non-reference pictures
  lastKey,   \* tag of the last shown key frame
  pk         \* state inside the current packet (record) or "none"
vars == <<l, cfg, seqDig, dpb, nextTag, disp, nonref, lastKey, pk>>

Ev == Tr[l]
IsEv(e) == l <= Len(Tr) /\ Ev.ev = e /\ l' = l + 1
Pow2(n) == IF n = 0 THEN 1 ELSE 2 ^ n
Idle == [in |-> FALSE]

Init ==
  /\ l = 1 /\ cfg = [none |-> TRUE] /\ seqDig = "" /\ dpb = [s \in 0 .. 7 |-> NoSlot]
  /\ nextTag = 0 /\ disp = 0 /\ nonref = {} /\ lastKey = -1 /\ pk = Idle

Stream ==
  /\ IsEv("Stream") /\ ~pk.in
  /\ cfg' = Ev.cfg /\ seqDig' = "" /\ dpb' = [s \in 0 .. 7 |-> NoSlot]
  /\ nextTag' = 0 /\ disp' = 0 /\ nonref' = {} /\ lastKey' = -1 /\ pk' = Idle

Pkt ==
  /\ IsEv("Pkt") /\ ~pk.in
  /\ Ev.td = 1                                   \* EB_BUFFERFLAG_HAS_TD on every packet
  /\ pk' = [in |-> TRUE, len |-> Ev.len, showex |-> Ev.showex, pictype |-> Ev.pictype,
            bytes |-> 0, nobu |-> 0, shown |-> 0, closed |-> FALSE, seq |-> FALSE,
            keyshown |-> FALSE, open |-> FALSE, dtype |-> -1, drff |-> -1, dex |-> 0]
  /\ UNCHANGED <<cfg, seqDig, dpb, nextTag, disp, nonref, lastKey>>

(* every OBU: the temporal delimiter comes first and only first; nothing follows the displayed frame *)
Obu ==
  /\ IsEv("Obu") /\ pk.in
  /\ Ev.forbidden = 0 /\ Ev.hassize = 1
  /\ (pk.nobu = 0) <=> (Ev.type = OBU_TD)
  /\ Ev.type \in {OBU_SEQ, OBU_TD, OBU_FRAME_HDR, OBU_TILE_GROUP, OBU_META, OBU_FRAME, OBU_PAD}
  /\ ~pk.closed \/ Ev.type = OBU_PAD
  /\ Ev.type = OBU_TILE_GROUP => pk.open             \* tile groups only inside an open frame
  /\ Ev.type \in {OBU_SEQ, OBU_FRAME_HDR, OBU_FRAME, OBU_META} => ~pk.open \/ Ev.type = OBU_FRAME_HDR
  /\ pk' = [pk EXCEPT !.bytes = @ + Ev.total, !.nobu = @ + 1,
                      !.open = IF Ev.type = OBU_TILE_GROUP /\ Ev.last = 1 THEN FALSE ELSE @,
                      !.closed = IF Ev.type = OBU_TILE_GROUP /\ Ev.last = 1 /\ pk.shown = 1 THEN TRUE ELSE @]
  /\ UNCHANGED <<cfg, seqDig, dpb, nextTag, disp, nonref, lastKey>>

(* sequence header: byte-identical every time and equal to the stream-header API's *)
SeqHdr ==
  /\ IsEv("Seq") /\ pk.in
  /\ seqDig = "" \/ seqDig = Ev.dig
  /\ cfg.hdrdig = "" \/ cfg.hdrdig = Ev.dig
  /\ Ev.ohbits = cfg.ohbits
  /\ \A t \in DOMAIN cfg.seqoff : cfg.seqoff[t] = 1 => Ev.tools[t] = 0     \* C20, sequence level
  /\ seqDig' = Ev.dig
  /\ pk' = [pk EXCEPT !.seq = TRUE]
  /\ UNCHANGED <<cfg, dpb, nextTag, disp, nonref, lastKey>>

IsIntraType(t) == t \in {KEY, INTRA_ONLY}
(* C19: intra-coded pictures exactly at display positions that are multiples of P+1 *)
IntraPlacementOK(pos, ftype, shownDirectly) ==
  LET due == IF cfg.period < 0 THEN pos = 0 ELSE pos % (cfg.period + 1) = 0 IN
    /\ cfg.period = -2 \/ (IsIntraType(ftype) <=> due)      \* -2: period chosen by the encoder ("auto"), only position 0 is known
    /\ (due /\ (cfg.idr = 1 \/ pos = 0)) => (ftype = KEY /\ shownDirectly)
(* C03/C22: display order = submission order: order hint = display position mod 2^bits *)
OrderHintOK(oh) == oh = disp % Pow2(cfg.ohbits)
(* C02: reported picture type agrees with the displayed frame *)
PicTypeOK(pt, ftype) ==
  /\ (pt = 3) <=> (ftype = KEY)
  /\ (pt = 2) <=> (ftype = INTRA_ONLY)
  /\ pt \in {0, 1, 4} <=> (ftype = INTER)
  /\ pt \in 0 .. 4
(* C18 *)
QOK(q, ftype) ==
  IF cfg.qfixed = 1 THEN q = (IF ftype = KEY THEN cfg.qkey ELSE cfg.qinter)
  ELSE q >= cfg.qmin /\ q <= cfg.qmax
(* C20, frame level: a tool that the configuration switches off does not appear *)
ToolsOK(f) == \A t \in DOMAIN cfg.off : cfg.off[t] = 1 => f.tools[t] = 0
TilesOK(f) == cfg.tiles = 0 \/ (f.tilecols = cfg.tilecols /\ f.tilerows = cfg.tilerows)

(* a coded frame (not show-existing) *)
Frame ==
  /\ IsEv("Frame") /\ pk.in /\ Ev.showex = 0 /\ ~pk.closed /\ ~pk.open
  /\ seqDig # ""                                                   \* a sequence header came first
  /\ Ev.ftype \in {KEY, INTER, INTRA_ONLY}
  /\ Ev.ftype = KEY => pk.seq                                      \* key frames carry the sequence header
  /\ Ev.ftype = KEY /\ Ev.show = 1 => Ev.rff = 255
  /\ ~IsIntraType(Ev.ftype) =>
        \A i \in 1 .. 7 : /\ dpb[Ev.refs[i]].valid                 \* decodable: references exist
                          /\ dpb[Ev.refs[i]].tag \notin nonref     \* announced non-reference pictures are not used
                          /\ dpb[Ev.refs[i]].tag >= lastKey        \* nothing reaches back across a shown key frame
  /\ QOK(Ev.q, Ev.ftype)
  /\ ToolsOK(Ev) /\ TilesOK(Ev)
  /\ IF Ev.show = 1
       THEN /\ pk.shown = 0
            /\ OrderHintOK(Ev.oh)
            /\ IntraPlacementOK(disp, Ev.ftype, TRUE)
            /\ pk.showex = 0
            /\ PicTypeOK(pk.pictype, Ev.ftype)
            /\ disp' = disp + 1
            /\ nonref' = IF pk.pictype = 4 THEN nonref \cup {nextTag} ELSE nonref
       ELSE /\ Ev.showable = 1                                     \* hidden frames of this encoder are shown later
            /\ Ev.rff # 0                                          \* ... so they must be kept
            /\ UNCHANGED <<disp, nonref>>
  /\ LET s == [valid |-> TRUE, tag |-> nextTag, oh |-> Ev.oh, ftype |-> Ev.ftype, showable |-> Ev.showable, rff |-> Ev.rff]
         base == IF Ev.ftype = KEY /\ Ev.show = 1 THEN [i \in 0 .. 7 |-> NoSlot] ELSE dpb IN
       dpb' = [i \in 0 .. 7 |-> IF (Ev.rff \div Pow2(i)) % 2 = 1 THEN s ELSE base[i]]
  /\ lastKey' = IF Ev.ftype = KEY /\ Ev.show = 1 THEN nextTag ELSE lastKey
  /\ nextTag' = nextTag + 1
  /\ pk' = [pk EXCEPT !.shown = @ + Ev.show, !.open = (Ev.obutype = OBU_FRAME_HDR) \/ (Ev.obutype = OBU_FRAME /\ Ev.lasttg = 0),
                      !.closed = (Ev.show = 1 /\ Ev.obutype = OBU_FRAME /\ Ev.lasttg = 1),
                      !.keyshown = @ \/ (Ev.ftype = KEY /\ Ev.show = 1)]
  /\ UNCHANGED <<cfg, seqDig>>

(* show_existing_frame: displays a stored, showable, not yet displayed-in-order picture *)
ShowEx ==
  /\ IsEv("Frame") /\ pk.in /\ Ev.showex = 1 /\ ~pk.closed /\ ~pk.open
  /\ pk.shown = 0 /\ pk.showex = 1
  /\ dpb[Ev.slot].valid /\ dpb[Ev.slot].showable = 1
  /\ OrderHintOK(dpb[Ev.slot].oh)
  /\ IntraPlacementOK(disp, dpb[Ev.slot].ftype, FALSE)
  /\ PicTypeOK(pk.pictype, dpb[Ev.slot].ftype)
  /\ dpb[Ev.slot].ftype # KEY                 \* (a shown-existing key frame would reset the DPB; not produced here)
  /\ disp' = disp + 1
  /\ pk' = [pk EXCEPT !.shown = 1, !.closed = TRUE]
  /\ UNCHANGED <<cfg, seqDig, dpb, nextTag, nonref, lastKey>>

(* end of packet: exactly one displayed frame, it was the last frame, sizes add up *)
End ==
  /\ IsEv("End") /\ pk.in
  /\ pk.shown = 1 /\ pk.closed /\ ~pk.open
  /\ pk.bytes = pk.len
  /\ pk.showex = 1 => pk.nobu = 2               \* TD + frame header only
  /\ (disp = 1) => pk.seq                       \* sequence header before the first frame
  /\ pk' = Idle
  /\ UNCHANGED <<cfg, seqDig, dpb, nextTag, disp, nonref, lastKey>>

(* end of stream: exactly N pictures were displayed *)
Close ==
  /\ IsEv("Close") /\ ~pk.in
  /\ disp = Ev.n
  /\ UNCHANGED <<cfg, seqDig, dpb, nextTag, disp, nonref, lastKey, pk>>

Next == Stream \/ Pkt \/ Obu \/ SeqHdr \/ Frame \/ ShowEx \/ End \/ Close
Spec == Init /\ [][Next]_vars
TraceAccepted == TLCGet("stats").diameter - 1 = Len(Tr)
=============================================================================
