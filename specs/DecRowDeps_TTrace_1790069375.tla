---- MODULE DecRowDeps_TTrace_1790069375 ----
EXTENDS DecRowDeps, Sequences, TLCExt, Toolbox, Naturals, TLC

_expression ==
    LET DecRowDeps_TEExpression == INSTANCE DecRowDeps_TEExpression
    IN DecRowDeps_TEExpression!expression
----

_trace ==
    LET DecRowDeps_TETrace == INSTANCE DecRowDeps_TETrace
    IN DecRowDeps_TETrace!trace
----

_inv ==
    ~(
        TLCGet("level") = Len(_TETrace)
        /\
        bad = ({})
        /\
        lf = ((0 :> "no" @@ 1 :> "no" @@ 2 :> "no" @@ 3 :> "no"))
        /\
        recon = ((0 :> (0 :> FALSE @@ 1 :> TRUE @@ 2 :> FALSE) @@ 1 :> (0 :> FALSE @@ 1 :> TRUE @@ 2 :> FALSE) @@ 2 :> (0 :> FALSE @@ 1 :> FALSE @@ 2 :> FALSE) @@ 3 :> (0 :> FALSE @@ 1 :> FALSE @@ 2 :> FALSE)))
        /\
        cdef = ((0 :> FALSE @@ 1 :> FALSE @@ 2 :> FALSE @@ 3 :> FALSE))
    )
----

_init ==
    /\ lf = _TETrace[1].lf
    /\ bad = _TETrace[1].bad
    /\ cdef = _TETrace[1].cdef
    /\ recon = _TETrace[1].recon
----

_next ==
    /\ \E i,j \in DOMAIN _TETrace:
        /\ \/ /\ j = i + 1
              /\ i = TLCGet("level")
        /\ lf  = _TETrace[i].lf
        /\ lf' = _TETrace[j].lf
        /\ bad  = _TETrace[i].bad
        /\ bad' = _TETrace[j].bad
        /\ cdef  = _TETrace[i].cdef
        /\ cdef' = _TETrace[j].cdef
        /\ recon  = _TETrace[i].recon
        /\ recon' = _TETrace[j].recon

\* Uncomment the ASSUME below to write the states of the error trace
\* to the given file in Json format. Note that you can pass any tuple
\* to `JsonSerialize`. For example, a sub-sequence of _TETrace.
    \* ASSUME
    \*     LET J == INSTANCE Json
    \*         IN J!JsonSerialize("DecRowDeps_TTrace_1790069375.json", _TETrace)

=============================================================================

 Note that you can extract this module `DecRowDeps_TEExpression`
  to a dedicated file to reuse `expression` (the module in the 
  dedicated `DecRowDeps_TEExpression.tla` file takes precedence 
  over the module `DecRowDeps_TEExpression` below).

---- MODULE DecRowDeps_TEExpression ----
EXTENDS DecRowDeps, Sequences, TLCExt, Toolbox, Naturals, TLC

expression == 
    [
        \* To hide variables of the `DecRowDeps` spec from the error trace,
        \* remove the variables below.  The trace will be written in the order
        \* of the fields of this record.
        lf |-> lf
        ,bad |-> bad
        ,cdef |-> cdef
        ,recon |-> recon
        
        \* Put additional constant-, state-, and action-level expressions here:
        \* ,_stateNumber |-> _TEPosition
        \* ,_lfUnchanged |-> lf = lf'
        
        \* Format the `lf` variable as Json value.
        \* ,_lfJson |->
        \*     LET J == INSTANCE Json
        \*     IN J!ToJson(lf)
        
        \* Lastly, you may build expressions over arbitrary sets of states by
        \* leveraging the _TETrace operator.  For example, this is how to
        \* count the number of times a spec variable changed up to the current
        \* state in the trace.
        \* ,_lfModCount |->
        \*     LET F[s \in DOMAIN _TETrace] ==
        \*         IF s = 1 THEN 0
        \*         ELSE IF _TETrace[s].lf # _TETrace[s-1].lf
        \*             THEN 1 + F[s-1] ELSE F[s-1]
        \*     IN F[_TEPosition - 1]
    ]

=============================================================================



Parsing and semantic processing can take forever if the trace below is long.
 In this case, it is advised to uncomment the module below to deserialize the
 trace from a generated binary file.

\*
\*---- MODULE DecRowDeps_TETrace ----
\*EXTENDS DecRowDeps, IOUtils, TLC
\*
\*trace == IODeserialize("DecRowDeps_TTrace_1790069375.bin", TRUE)
\*
\*=============================================================================
\*

---- MODULE DecRowDeps_TETrace ----
EXTENDS DecRowDeps, TLC

trace == 
    <<
    ([bad |-> {},lf |-> (0 :> "no" @@ 1 :> "no" @@ 2 :> "no" @@ 3 :> "no"),recon |-> (0 :> (0 :> FALSE @@ 1 :> FALSE @@ 2 :> FALSE) @@ 1 :> (0 :> FALSE @@ 1 :> FALSE @@ 2 :> FALSE) @@ 2 :> (0 :> FALSE @@ 1 :> FALSE @@ 2 :> FALSE) @@ 3 :> (0 :> FALSE @@ 1 :> FALSE @@ 2 :> FALSE)),cdef |-> (0 :> FALSE @@ 1 :> FALSE @@ 2 :> FALSE @@ 3 :> FALSE)]),
    ([bad |-> {},lf |-> (0 :> "no" @@ 1 :> "no" @@ 2 :> "no" @@ 3 :> "no"),recon |-> (0 :> (0 :> FALSE @@ 1 :> TRUE @@ 2 :> FALSE) @@ 1 :> (0 :> FALSE @@ 1 :> FALSE @@ 2 :> FALSE) @@ 2 :> (0 :> FALSE @@ 1 :> FALSE @@ 2 :> FALSE) @@ 3 :> (0 :> FALSE @@ 1 :> FALSE @@ 2 :> FALSE)),cdef |-> (0 :> FALSE @@ 1 :> FALSE @@ 2 :> FALSE @@ 3 :> FALSE)]),
    ([bad |-> {},lf |-> (0 :> "no" @@ 1 :> "no" @@ 2 :> "no" @@ 3 :> "no"),recon |-> (0 :> (0 :> FALSE @@ 1 :> TRUE @@ 2 :> FALSE) @@ 1 :> (0 :> FALSE @@ 1 :> TRUE @@ 2 :> FALSE) @@ 2 :> (0 :> FALSE @@ 1 :> FALSE @@ 2 :> FALSE) @@ 3 :> (0 :> FALSE @@ 1 :> FALSE @@ 2 :> FALSE)),cdef |-> (0 :> FALSE @@ 1 :> FALSE @@ 2 :> FALSE @@ 3 :> FALSE)])
    >>
----


=============================================================================

---- CONFIG DecRowDeps_TTrace_1790069375 ----
CONSTANTS
    R = 4
    C = 3
    Wait = "all"

INVARIANT
    _inv

CHECK_DEADLOCK
    \* CHECK_DEADLOCK off because of PROPERTY or INVARIANT above.
    FALSE

INIT
    _init

NEXT
    _next

CONSTANT
    _TETrace <- _trace

ALIAS
    _expression
=============================================================================
\* Generated on Tue Sep 22 09:29:49 UTC 2026