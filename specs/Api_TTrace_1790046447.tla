---- MODULE Api_TTrace_1790046447 ----
EXTENDS Sequences, TLCExt, Toolbox, Naturals, TLC, Api

_expression ==
    LET Api_TEExpression == INSTANCE Api_TEExpression
    IN Api_TEExpression!expression
----

_trace ==
    LET Api_TETrace == INSTANCE Api_TETrace
    IN Api_TETrace!trace
----

_inv ==
    ~(
        TLCGet("level") = Len(_TETrace)
        /\
        phase = ("created")
        /\
        allow = ({"err"})
        /\
        call = ("set_parameter(h,invalid)")
        /\
        ncalls = (7)
        /\
        rejected = (TRUE)
        /\
        nsent = (0)
        /\
        held = (FALSE)
        /\
        hdr = (FALSE)
        /\
        npk = (0)
        /\
        eos = (FALSE)
    )
----

_init ==
    /\ phase = _TETrace[1].phase
    /\ rejected = _TETrace[1].rejected
    /\ allow = _TETrace[1].allow
    /\ hdr = _TETrace[1].hdr
    /\ npk = _TETrace[1].npk
    /\ ncalls = _TETrace[1].ncalls
    /\ eos = _TETrace[1].eos
    /\ nsent = _TETrace[1].nsent
    /\ held = _TETrace[1].held
    /\ call = _TETrace[1].call
----

_next ==
    /\ \E i,j \in DOMAIN _TETrace:
        /\ \/ /\ j = i + 1
              /\ i = TLCGet("level")
        /\ phase  = _TETrace[i].phase
        /\ phase' = _TETrace[j].phase
        /\ rejected  = _TETrace[i].rejected
        /\ rejected' = _TETrace[j].rejected
        /\ allow  = _TETrace[i].allow
        /\ allow' = _TETrace[j].allow
        /\ hdr  = _TETrace[i].hdr
        /\ hdr' = _TETrace[j].hdr
        /\ npk  = _TETrace[i].npk
        /\ npk' = _TETrace[j].npk
        /\ ncalls  = _TETrace[i].ncalls
        /\ ncalls' = _TETrace[j].ncalls
        /\ eos  = _TETrace[i].eos
        /\ eos' = _TETrace[j].eos
        /\ nsent  = _TETrace[i].nsent
        /\ nsent' = _TETrace[j].nsent
        /\ held  = _TETrace[i].held
        /\ held' = _TETrace[j].held
        /\ call  = _TETrace[i].call
        /\ call' = _TETrace[j].call

\* Uncomment the ASSUME below to write the states of the error trace
\* to the given file in Json format. Note that you can pass any tuple
\* to `JsonSerialize`. For example, a sub-sequence of _TETrace.
    \* ASSUME
    \*     LET J == INSTANCE Json
    \*         IN J!JsonSerialize("Api_TTrace_1790046447.json", _TETrace)

=============================================================================

 Note that you can extract this module `Api_TEExpression`
  to a dedicated file to reuse `expression` (the module in the 
  dedicated `Api_TEExpression.tla` file takes precedence 
  over the module `Api_TEExpression` below).

---- MODULE Api_TEExpression ----
EXTENDS Sequences, TLCExt, Toolbox, Naturals, TLC, Api

expression == 
    [
        \* To hide variables of the `Api` spec from the error trace,
        \* remove the variables below.  The trace will be written in the order
        \* of the fields of this record.
        phase |-> phase
        ,rejected |-> rejected
        ,allow |-> allow
        ,hdr |-> hdr
        ,npk |-> npk
        ,ncalls |-> ncalls
        ,eos |-> eos
        ,nsent |-> nsent
        ,held |-> held
        ,call |-> call
        
        \* Put additional constant-, state-, and action-level expressions here:
        \* ,_stateNumber |-> _TEPosition
        \* ,_phaseUnchanged |-> phase = phase'
        
        \* Format the `phase` variable as Json value.
        \* ,_phaseJson |->
        \*     LET J == INSTANCE Json
        \*     IN J!ToJson(phase)
        
        \* Lastly, you may build expressions over arbitrary sets of states by
        \* leveraging the _TETrace operator.  For example, this is how to
        \* count the number of times a spec variable changed up to the current
        \* state in the trace.
        \* ,_phaseModCount |->
        \*     LET F[s \in DOMAIN _TETrace] ==
        \*         IF s = 1 THEN 0
        \*         ELSE IF _TETrace[s].phase # _TETrace[s-1].phase
        \*             THEN 1 + F[s-1] ELSE F[s-1]
        \*     IN F[_TEPosition - 1]
    ]

=============================================================================



Parsing and semantic processing can take forever if the trace below is long.
 In this case, it is advised to uncomment the module below to deserialize the
 trace from a generated binary file.

\*
\*---- MODULE Api_TETrace ----
\*EXTENDS IOUtils, TLC, Api
\*
\*trace == IODeserialize("Api_TTrace_1790046447.bin", TRUE)
\*
\*=============================================================================
\*

---- MODULE Api_TETrace ----
EXTENDS TLC, Api

trace == 
    <<
    ([phase |-> "none",allow |-> {},call |-> "-",ncalls |-> 0,rejected |-> FALSE,nsent |-> 0,held |-> FALSE,hdr |-> FALSE,npk |-> 0,eos |-> FALSE]),
    ([phase |-> "none",allow |-> {"err"},call |-> "init_handle(NULL,cfg)",ncalls |-> 1,rejected |-> FALSE,nsent |-> 0,held |-> FALSE,hdr |-> FALSE,npk |-> 0,eos |-> FALSE]),
    ([phase |-> "none",allow |-> {"err"},call |-> "init_handle(NULL,cfg)",ncalls |-> 2,rejected |-> FALSE,nsent |-> 0,held |-> FALSE,hdr |-> FALSE,npk |-> 0,eos |-> FALSE]),
    ([phase |-> "none",allow |-> {"err"},call |-> "set_parameter(NULL,cfg)",ncalls |-> 3,rejected |-> FALSE,nsent |-> 0,held |-> FALSE,hdr |-> FALSE,npk |-> 0,eos |-> FALSE]),
    ([phase |-> "none",allow |-> {"err"},call |-> "set_parameter(NULL,cfg)",ncalls |-> 4,rejected |-> FALSE,nsent |-> 0,held |-> FALSE,hdr |-> FALSE,npk |-> 0,eos |-> FALSE]),
    ([phase |-> "none",allow |-> {"err"},call |-> "set_parameter(NULL,cfg)",ncalls |-> 5,rejected |-> FALSE,nsent |-> 0,held |-> FALSE,hdr |-> FALSE,npk |-> 0,eos |-> FALSE]),
    ([phase |-> "created",allow |-> {"ok"},call |-> "init_handle(&h,cfg)",ncalls |-> 6,rejected |-> FALSE,nsent |-> 0,held |-> FALSE,hdr |-> FALSE,npk |-> 0,eos |-> FALSE]),
    ([phase |-> "created",allow |-> {"err"},call |-> "set_parameter(h,invalid)",ncalls |-> 7,rejected |-> TRUE,nsent |-> 0,held |-> FALSE,hdr |-> FALSE,npk |-> 0,eos |-> FALSE])
    >>
----


=============================================================================

---- CONFIG Api_TTrace_1790046447 ----
CONSTANTS
    MaxSend = 2
    MaxCalls = 7

INVARIANT
    _inv

CHECK_DEADLOCK
    \* CHECK_DEADLOCK off because of PROPERTY or INVARIANT above.
    FALSE

INIT
    _init

NEXT
    _next

CONSTANT
    _TETrace <- _trace

ALIAS
    _expression
=============================================================================
\* Generated on Tue Sep 22 03:07:28 UTC 2026