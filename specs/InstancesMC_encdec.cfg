SPECIFICATION FairSpec
CONSTANT Bar = TRUE
CONSTANT Pop = "encdec"
INVARIANT TypeOK
INVARIANT NoInterference
PROPERTY Completes
CHECK_DEADLOCK FALSE
