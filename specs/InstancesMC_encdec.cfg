SPECIFICATION FairSpec
CONSTANT Pop = "encdec"
INVARIANT TypeOK
INVARIANT NoInterference
PROPERTY Completes
CHECK_DEADLOCK FALSE
