SPECIFICATION FairSpec
CONSTANT Ser = TRUE
CONSTANT Bar = TRUE
CONSTANT Pop = "encdec"
INVARIANT TypeOK
INVARIANT NoInterference
PROPERTY Completes
CHECK_DEADLOCK FALSE
