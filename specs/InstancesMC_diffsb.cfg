SPECIFICATION FairSpec
CONSTANT Ser = TRUE
CONSTANT Bar = TRUE
CONSTANT Pop = "diffsb"
INVARIANT TypeOK
INVARIANT NoInterference
PROPERTY Completes
CHECK_DEADLOCK FALSE
