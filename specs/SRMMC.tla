------------------------------ MODULE SRMMC ------------------------------
(***************************************************************************)
(* Exhaustive model of the system resource manager with well-behaved       *)
(* clients: NP producer threads (get_empty ; [inc_live] ; post_full),      *)
(* NC consumer threads (get_full blocking or non-blocking ; release until  *)
(* returned) and an optional shutdown thread (svt_shutdown_process).       *)
(* When NC = 0 (a pool without a full queue) producers get and release.    *)
(***************************************************************************)
EXTENDS SRM, TLC

CONSTANTS NO, NP, NC,      \* objects, producers, consumers
          MaxOps,          \* operations per client thread
          WithShutdown,    \* BOOLEAN: a thread calls svt_shutdown_process at an arbitrary moment
          WithNonBlocking, \* BOOLEAN: consumers may use svt_get_full_object_non_blocking
          MaxInc           \* producers may add 0..MaxInc to live_count before posting

Prods == 1 .. NP
Cons  == NP + 1 .. NP + NC
Shut  == IF WithShutdown /\ NC > 0 THEN {NP + NC + 1} ELSE {}
Threads == Prods \cup Cons \cup Shut
FifoOf(t) == IF t \in Prods THEN t - 1 ELSE t - NP - 1

VARIABLES
  pc,        \* [thread -> control state]
  cur,       \* [thread -> object held | NULL]
  ops,       \* [thread -> operations completed]
  shutI,     \* index of the next consumer fifo the shutdown thread handles
  ticket,    \* [object -> posting ticket | NULL]   ghost: order of svt_post_full_object calls
  nextPost,  \* ghost: tickets issued
  nextDeliv  \* ghost: tickets delivered by the full queue's assignation

mcVars == <<pc, cur, ops, shutI, ticket, nextPost, nextDeliv>>
vars == <<srmVars, mcVars>>

Init ==
  /\ InitSizes(NO, NP, NC, Threads)
  /\ pc = [t \in Threads |-> IF t \in Shut THEN "sh_idle" ELSE "fill"]
  /\ cur = [t \in Threads |-> NULL]
  /\ ops = [t \in Threads |-> 0]
  /\ shutI = 0
  /\ ticket = [o \in 0 .. NO - 1 |-> NULL]
  /\ nextPost = 0
  /\ nextDeliv = 0

Free(t) == \A q \in 0 .. 1 : qLock[q] # t       \* t is not inside an assignation loop
Filled == CBCount(objQ[0], NO - 1) > 0 \/ \E t \in Threads : pc[t] # "fill" /\ t \notin Shut

(* constructor: single-threaded fill of the empty queue, then everybody starts *)
DoFill ==
  /\ \A t \in Threads \ Shut : pc[t] = "fill"
  /\ \E o \in 0 .. NO - 1 :
       /\ CBCount(objQ[0], o) = 0
       /\ \A o2 \in 0 .. o - 1 : CBCount(objQ[0], o2) > 0
       /\ Fill(o)
       /\ pc' = IF o = NO - 1 THEN [t \in Threads |-> IF t \in Shut THEN pc[t] ELSE "idle"] ELSE pc
  /\ UNCHANGED <<cur, ops, shutI, ticket, nextPost, nextDeliv>>

(* the assignation loop of whoever holds a muxing-queue lock *)
DoAssign(t) ==
  \E q \in 0 .. 1 :
    /\ Assign(t, q)
    /\ IF q = 1
         THEN LET o == CBFront(objQ[1]) IN
                /\ nextDeliv' = nextDeliv + 1
                /\ ticket' = [ticket EXCEPT ![o] = NULL]
         ELSE UNCHANGED <<nextDeliv, ticket>>
    /\ UNCHANGED <<pc, cur, ops, shutI, nextPost>>
DoAssignPost(t) ==
  \E q \in 0 .. 1 : AssignPost(t, q) /\ UNCHANGED mcVars

(* ---- producer ---- *)
P_RelProc(t) ==
  /\ pc[t] = "idle" /\ t \in Prods /\ ops[t] < MaxOps /\ Free(t)
  /\ RelProc(t, 0, FifoOf(t))
  /\ pc' = [pc EXCEPT ![t] = "ge_wait"]
  /\ UNCHANGED <<cur, ops, shutI, ticket, nextPost, nextDeliv>>
P_SemWait(t) ==
  /\ pc[t] = "ge_wait" /\ Free(t)
  /\ SemWait(t, 0, FifoOf(t))
  /\ pc' = [pc EXCEPT ![t] = "ge_pop"]
  /\ UNCHANGED <<cur, ops, shutI, ticket, nextPost, nextDeliv>>
P_Pop(t) ==
  /\ pc[t] = "ge_pop"
  /\ PopEmpty(t, FifoOf(t))
  /\ cur' = [cur EXCEPT ![t] = Head(list[0][FifoOf(t)])]
  /\ pc' = [pc EXCEPT ![t] = "p_have"]
  /\ UNCHANGED <<ops, shutI, ticket, nextPost, nextDeliv>>
P_IncLive(t) ==
  /\ pc[t] = "p_have"
  /\ \E n \in 1 .. MaxInc : IncLive(t, cur[t], n)
  /\ pc' = [pc EXCEPT ![t] = "p_have2"]
  /\ UNCHANGED <<cur, ops, shutI, ticket, nextPost, nextDeliv>>
P_Post(t) ==
  /\ pc[t] \in {"p_have", "p_have2"} /\ NC > 0
  /\ PostFull(t, cur[t])
  /\ ticket' = [ticket EXCEPT ![cur[t]] = nextPost]
  /\ nextPost' = nextPost + 1
  /\ cur' = [cur EXCEPT ![t] = NULL]
  /\ ops' = [ops EXCEPT ![t] = @ + 1]
  /\ pc' = [pc EXCEPT ![t] = "idle"]
  /\ UNCHANGED <<shutI, nextDeliv>>
(* release by whoever holds the object (consumer, or producer of a pool without full queue) *)
X_Release(t) ==
  /\ \/ pc[t] = "c_have"
     \/ (pc[t] \in {"p_have", "p_have2"} /\ NC = 0)
  /\ Free(t)
  /\ Release(t, cur[t])
  /\ IF ReleaseReturns(cur[t])
       THEN /\ cur' = [cur EXCEPT ![t] = NULL]
            /\ ops' = [ops EXCEPT ![t] = @ + 1]
            /\ pc' = [pc EXCEPT ![t] = "idle"]
       ELSE UNCHANGED <<cur, ops, pc>>
  /\ UNCHANGED <<shutI, ticket, nextPost, nextDeliv>>

(* ---- consumer ---- *)
C_RelProc(t) ==          \* blocking get, or the blocking part of a non-blocking get that saw an object
  /\ pc[t] \in {"idle", "nb_go"} /\ t \in Cons /\ Free(t)
  /\ pc[t] = "idle" => ops[t] < MaxOps
  /\ RelProc(t, 1, FifoOf(t))
  /\ pc' = [pc EXCEPT ![t] = "gf_wait"]
  /\ UNCHANGED <<cur, ops, shutI, ticket, nextPost, nextDeliv>>
C_NbRelProc(t) ==
  /\ WithNonBlocking
  /\ pc[t] = "idle" /\ t \in Cons /\ ops[t] < MaxOps /\ Free(t)
  /\ RelProc(t, 1, FifoOf(t))
  /\ pc' = [pc EXCEPT ![t] = "nb_peek"]
  /\ UNCHANGED <<cur, ops, shutI, ticket, nextPost, nextDeliv>>
C_Peek(t) ==
  /\ pc[t] = "nb_peek" /\ Free(t)
  /\ IF PeekEmpty(FifoOf(t))
       THEN /\ pc' = [pc EXCEPT ![t] = "idle"]
            /\ ops' = [ops EXCEPT ![t] = @ + 1]
       ELSE /\ pc' = [pc EXCEPT ![t] = "nb_go"]
            /\ UNCHANGED ops
  /\ UNCHANGED <<srmVars, cur, shutI, ticket, nextPost, nextDeliv>>
C_SemWait(t) ==
  /\ pc[t] = "gf_wait" /\ Free(t)
  /\ SemWait(t, 1, FifoOf(t))
  /\ pc' = [pc EXCEPT ![t] = "gf_pop"]
  /\ UNCHANGED <<cur, ops, shutI, ticket, nextPost, nextDeliv>>
C_Pop(t) ==
  /\ pc[t] = "gf_pop"
  /\ \/ /\ PopFull(t, FifoOf(t))
        /\ cur' = [cur EXCEPT ![t] = Head(list[1][FifoOf(t)])]
        /\ pc' = [pc EXCEPT ![t] = "c_have"]
     \/ /\ PopQuit(t, FifoOf(t))
        /\ pc' = [pc EXCEPT ![t] = "exited"]
        /\ UNCHANGED cur
  /\ UNCHANGED <<ops, shutI, ticket, nextPost, nextDeliv>>

(* ---- svt_shutdown_process :498-509 ---- *)
S_Set(t) ==
  /\ t \in Shut /\ pc[t] = "sh_idle" /\ shutI < NC /\ Filled
  /\ ShutdownSet(t, shutI)
  /\ pc' = [pc EXCEPT ![t] = "sh_post"]
  /\ UNCHANGED <<cur, ops, shutI, ticket, nextPost, nextDeliv>>
S_Post(t) ==
  /\ t \in Shut /\ pc[t] = "sh_post"
  /\ ShutdownPost(t, shutI)
  /\ shutI' = shutI + 1
  /\ pc' = [pc EXCEPT ![t] = IF shutI + 1 = NC THEN "sh_done" ELSE "sh_idle"]
  /\ UNCHANGED <<cur, ops, ticket, nextPost, nextDeliv>>

Step(t) ==
  \/ DoAssign(t) \/ DoAssignPost(t)
  \/ P_RelProc(t) \/ P_SemWait(t) \/ P_Pop(t) \/ P_IncLive(t) \/ P_Post(t) \/ X_Release(t)
  \/ C_RelProc(t) \/ C_NbRelProc(t) \/ C_Peek(t) \/ C_SemWait(t) \/ C_Pop(t)
  \/ S_Set(t) \/ S_Post(t)

Next == DoFill \/ \E t \in Threads : Step(t)

Spec == Init /\ [][Next]_vars
FairSpec == Spec /\ WF_vars(DoFill) /\ \A t \in Threads : WF_vars(Step(t))

-----------------------------------------------------------------------------
TypeOK ==
  /\ \A q \in 0 .. 1 : qLock[q] \in Threads \cup {NULL}
  /\ \A q \in 0 .. 1 : \A f \in Fifos(q) : sem[q][f] \in 0 .. NO + 1
  /\ \A o \in Objs : live[o] \in -1 .. MaxInc
  /\ \A t \in Threads : cur[t] \in Objs \cup {NULL}

Held(o) == Cardinality({t \in Threads : cur[t] = o})

(* C23 "never gives the same object to two holders at once, never loses or duplicates an object": *)
(* every object is in exactly one place: a queue, a fifo, or the hands of exactly one thread      *)
NoLossNoDup == Filled /\ (\A t \in Threads \ Shut : pc[t] # "fill") => \A o \in Objs : Places(o) + Held(o) = 1
NoDoubleHolder == \A o \in Objs : Held(o) <= 1 /\ Places(o) + Held(o) <= 1

(* C23 "delivers posted objects in posting order": the full queue hands objects to consumer fifos *)
(* in the order in which svt_post_full_object was called                                          *)
PostOrder ==
  ~CBEmpty(objQ[1]) => ticket[CBFront(objQ[1])] = nextDeliv

(* C23 "returns an object to its pool exactly when its last reference is released": an object in  *)
(* the pool side is marked released / never handed out; one that is held or posted is not         *)
ReturnedIffReleased ==
  /\ EmptySideReleased
  /\ \A o \in Objs : (Held(o) = 1 \/ CBCount(objQ[1], o) > 0 \/ \E f \in Fifos(1) : \E i \in 1 .. Len(list[1][f]) : list[1][f][i] = o)
                        => live[o] >= 0

(* liveness, under weak fairness of every thread *)
Blocked(t) == pc[t] \in {"gf_wait", "ge_wait"}
(* "wakes a blocked consumer whenever an object is available for it" *)
WakesWaiter ==
  \A t \in Prods \cup Cons :
    (Blocked(t) /\ list[IF t \in Prods THEN 0 ELSE 1][FifoOf(t)] # <<>>) ~> ~Blocked(t)
(* "on shutdown makes every blocked consumer return" *)
ShutdownWakes ==
  (Shut # {}) => <>[](\A t \in Cons : pc[t] # "gf_wait")

(* witnesses for vacuity checks: each must be REACHABLE, i.e. violated when given as invariant *)
W_QuitPop     == \A t \in Cons : pc[t] # "exited"
W_Overpush    == \A q \in 0 .. 1 : \A i \in 0 .. procQ[q].cap - 1 : TRUE  \* placeholder (see W_ProcDup)
W_TwoInFifo   == \A q \in 0 .. 1 : \A f \in Fifos(q) : Len(list[q][f]) < 2
W_NotReturned == \A o \in Objs : live[o] <= 0
=============================================================================
