SPECIFICATION Spec
CONSTANTS MaxN = 35 Levels = {4, 5} D = 8 InFlight = 6 MaxUndisp = 8
INVARIANTS InOrder EosOnlyLast Complete ShowExHidden Progress
CHECK_DEADLOCK FALSE
