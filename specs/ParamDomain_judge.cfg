SPECIFICATION JudgeSpec
POSTCONDITION Judged
CHECK_DEADLOCK FALSE
