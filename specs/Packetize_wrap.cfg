\* queue much shorter than the stream: every slot is reused several times (C22)
SPECIFICATION Spec
CONSTANTS MaxN = 13 Levels = {0, 1} D = 2 InFlight = 2 MaxUndisp = 8
INVARIANTS InOrder EosOnlyLast Complete ShowExHidden Progress
CHECK_DEADLOCK FALSE
