SPECIFICATION GenSpec
INVARIANT DocSaneInv
CHECK_DEADLOCK FALSE
