----------------------------- MODULE Instances -----------------------------
(***************************************************************************)
(* Several encoder and decoder instances in one process (property C17).    *)
(*                                                                         *)
(* What the instances share is exactly what the code keeps in process-     *)
(* global variables, written without synchronisation:                      *)
(*   geom  -- blk_geom_mds / max_sb / max_depth, rebuilt IN PLACE by every *)
(*            svt_av1_enc_init from that instance's superblock size        *)
(*            (EbEncHandle.c:1170 build_blk_geom(scs_init.sb_size == 128), *)
(*            EbUtility.c:1513)                                            *)
(*   rtcd  -- the kernel dispatch pointers, set by every svt_av1_enc_init  *)
(*            from that instance's use_cpu_flags (EbEncHandle.c:1157-1158) *)
(*   ports -- rate_control_ports[] / enc_dec_ports[] (EbEncHandle.c:671,  *)
(*            703): file-scope tables whose .count fields every           *)
(*            svt_av1_enc_init overwrites from that instance's process    *)
(*            counts (:1308-1314) and then reads back through             *)
(*            rate_control_port_lookup / enc_dec_port_lookup while it      *)
(*            builds the instance's kernel contexts (fifo indices)        *)
(*   head  -- svt_dec_memory_map, the head of THE decoder allocation list: *)
(*            svt_av1_dec_init_handle points it at the new handle's list   *)
(*            (EbDecHandle.c:116-119), EB_MALLOC_DEC pushes every          *)
(*            allocation of whichever decoder runs onto it                 *)
(*            (EbDecMemInit.h:73-94), svt_av1_dec_deinit frees everything  *)
(*            reachable from it (EbDecHandle.c:648-)                       *)
(* The rebuild is not atomic: while an init is in progress the tables pass  *)
(* through partial states (e.g. the convolve function table is re-filled   *)
(* entry by entry, asm_set_convolve_asm_table), whatever the values.       *)
(* Each instance is otherwise a private state machine (Api.tla).           *)
(*                                                                         *)
(* NoInterference: no encoder step ever reads a geometry or dispatch table *)
(* that is not the one its own init built; no decoder frees or loses       *)
(* memory of another live decoder.  TLC shows for which populations the    *)
(* DESIGN guarantees it: encoders with identical (sb size, cpu flags) that *)
(* are initialised ONE AT A TIME (SerialInit) and ALL before any of them   *)
(* encodes (Barrier) -- usage disciplines the application must provide --, *)
(* plus at most one decoder.                                               *)
(***************************************************************************)
EXTENDS Integers, Sequences, FiniteSets, TLC

CONSTANTS Enc, Dec,        \* instance identifiers
          Sb, Flags,       \* Enc -> superblock size, Enc -> cpu flag set
          Procs,           \* Enc -> process counts the instance configures (a function of resolution and thread count)
          Barrier,         \* TRUE: the application initialises every encoder before any of them starts encoding
          SerialInit,      \* TRUE: the application lets only one instance at a time be inside svt_av1_enc_init
          Steps,           \* encode/decode steps per instance
          Allocs           \* allocations a decoder makes per phase (init, and lazily at the first frame)

VARIABLES est, ecnt,       \* encoder: "new" | "init" | "run" | "done", steps taken
          builders,        \* encoders inside svt_av1_enc_init (tables partially rebuilt)
          dst, dcnt,       \* decoder: "new" | "handle" | "run" | "done", steps taken
          geom, rtcd,      \* globals (0 / {} = never built)
          ports,           \* global port-count tables (value = the process counts last written)
          head,            \* global allocation list: sequence of owners (one entry per allocation)
          mine,            \* Dec -> number of allocations the instance made and has not seen freed
          bad              \* set of interference witnesses

vars == <<est, ecnt, builders, dst, dcnt, geom, rtcd, ports, head, mine, bad>>

Init ==
  /\ est = [e \in Enc |-> "new"] /\ ecnt = [e \in Enc |-> 0]
  /\ dst = [d \in Dec |-> "new"] /\ dcnt = [d \in Dec |-> 0]
  /\ builders = {}
  /\ geom = 0 /\ rtcd = {} /\ ports = 0
  /\ head = <<>> /\ mine = [d \in Dec |-> 0]
  /\ bad = {}

(* svt_av1_enc_init, two steps: the global tables are being rebuilt for THIS instance ... *)
EInitBegin(e) ==
  /\ est[e] = "new"
  /\ SerialInit => builders = {}
  /\ est' = [est EXCEPT ![e] = "init"]
  /\ builders' = builders \cup {e}
  /\ ports' = Procs[e]                       \* the port counts of THIS instance are written into the global tables ...
  /\ UNCHANGED <<ecnt, dst, dcnt, geom, rtcd, head, mine, bad>>
(* ... and are complete, holding this instance's values *)
EInitEnd(e) ==
  /\ est[e] = "init"
  /\ est' = [est EXCEPT ![e] = "run"]
  /\ builders' = builders \ {e}
  /\ geom' = Sb[e]
  /\ rtcd' = Flags[e]
  \* ... and read back while the kernel contexts are built: the fifo indices of e are computed from whatever is there now
  /\ bad' = bad \cup (IF ports # Procs[e] THEN {<<e, "fifo indices computed from the port counts of another instance", ports>>} ELSE {})
  /\ UNCHANGED <<ecnt, dst, dcnt, ports, head, mine>>

(* any kernel of the encoder pipeline: reads block geometry and calls through the dispatch tables *)
EStep(e) ==
  /\ est[e] = "run" /\ ecnt[e] < Steps
  /\ Barrier => \A x \in Enc : est[x] \in {"run", "done"}
  /\ ecnt' = [ecnt EXCEPT ![e] = @ + 1]
  /\ bad' = bad \cup {<<e, "tables being rebuilt by", b>> : b \in builders}
                \cup (IF geom # Sb[e] THEN {<<e, "geometry of another instance", geom>>} ELSE {})
                \cup (IF rtcd # Flags[e] THEN {<<e, "dispatch table of another instance">>} ELSE {})
  /\ UNCHANGED <<est, builders, dst, dcnt, geom, rtcd, ports, head, mine>>

EDone(e) ==
  /\ est[e] = "run" /\ ecnt[e] = Steps
  /\ est' = [est EXCEPT ![e] = "done"]
  /\ UNCHANGED <<ecnt, builders, dst, dcnt, geom, rtcd, ports, head, mine, bad>>

(* svt_av1_dec_init_handle: the global head now designates this handle's (empty) list;            *)
(* whatever was reachable from the old head is reachable no more                                  *)
DInitHandle(d) ==
  /\ dst[d] = "new"
  /\ dst' = [dst EXCEPT ![d] = "handle"]
  /\ head' = <<>>
  /\ bad' = bad \cup {<<o, "allocation list lost: head re-pointed by", d>> : o \in {head[i] : i \in 1 .. Len(head)} \ {d}}
  /\ UNCHANGED <<est, ecnt, builders, dcnt, geom, rtcd, ports, mine>>

(* EB_MALLOC_DEC in init or (lazily) in the first frames: pushes onto the global list *)
DAllocStep(d) ==
  /\ dst[d] \in {"handle", "run"} /\ dcnt[d] < Steps
  /\ dst' = [dst EXCEPT ![d] = "run"]
  /\ dcnt' = [dcnt EXCEPT ![d] = @ + 1]
  /\ head' = head \o [i \in 1 .. Allocs |-> d]
  /\ mine' = [mine EXCEPT ![d] = @ + Allocs]
  /\ UNCHANGED <<est, ecnt, builders, geom, rtcd, ports, bad>>

(* svt_av1_dec_deinit: frees every entry reachable from the global head *)
DDeinit(d) ==
  /\ dst[d] = "run" /\ dcnt[d] = Steps
  /\ dst' = [dst EXCEPT ![d] = "done"]
  /\ LET owners == {head[i] : i \in 1 .. Len(head)}
         ownCnt == Cardinality({i \in 1 .. Len(head) : head[i] = d}) IN
       /\ bad' = bad \cup {<<o, "memory of a live decoder freed by", d>> : o \in {x \in owners \ {d} : dst[x] # "done"}}
                     \cup (IF ownCnt # mine[d] THEN {<<d, "own allocations not on the list at teardown (leaked)">>} ELSE {})
       /\ mine' = [o \in Dec |-> IF o \in owners THEN mine[o] - Cardinality({i \in 1 .. Len(head) : head[i] = o}) ELSE mine[o]]
  /\ head' = <<>>
  /\ UNCHANGED <<est, ecnt, builders, dcnt, geom, rtcd, ports>>

Next == \/ \E e \in Enc : EInitBegin(e) \/ EInitEnd(e) \/ EStep(e) \/ EDone(e)
        \/ \E d \in Dec : DInitHandle(d) \/ DAllocStep(d) \/ DDeinit(d)
Spec == Init /\ [][Next]_vars
FairSpec == Spec /\ WF_vars(Next)

NoInterference == bad = {}
TypeOK == /\ \A e \in Enc : est[e] \in {"new", "init", "run", "done"} /\ ecnt[e] \in 0 .. Steps
          /\ \A d \in Dec : dst[d] \in {"new", "handle", "run", "done"} /\ dcnt[d] \in 0 .. Steps
AllDone == (\A e \in Enc : est[e] = "done") /\ (\A d \in Dec : dst[d] = "done")
Completes == <>[]AllDone
(* witnesses (expected to be violated): overlap really happens in the model *)
NeverOverlap == ~(\E a, b \in Enc : a # b /\ est[a] = "run" /\ est[b] = "run" /\ ecnt[a] > 0 /\ ecnt[b] = 0)
=============================================================================
