\* 3 objects, 1 producer, 2 consumers, blocking gets, extra live counts, shutdown
SPECIFICATION Spec
CONSTANTS NO = 3 NP = 1 NC = 2 MaxOps = 3 WithShutdown = TRUE WithNonBlocking = FALSE MaxInc = 2
INVARIANTS TypeOK NoDup NoMissedAssign SemCountsList WaitedFindsObject NoLossNoDup NoDoubleHolder PostOrder ReturnedIffReleased
CHECK_DEADLOCK FALSE
