SPECIFICATION TraceSpec
CONSTANTS MaxN = 0 Levels = {0} D = 80 InFlight = 80 MaxUndisp = 8
POSTCONDITION TraceAccepted
CHECK_DEADLOCK FALSE
