SPECIFICATION Spec
CONSTANTS MaxN = 18 Levels = {0, 1, 2, 3} D = 4 InFlight = 4 MaxUndisp = 8
INVARIANTS InOrder EosOnlyLast Complete ShowExHidden Progress
CHECK_DEADLOCK FALSE
