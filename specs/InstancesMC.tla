---------------------------- MODULE InstancesMC ----------------------------
(* populations for Instances.tla; Pop selects one *)
EXTENDS Integers, Sequences, FiniteSets, TLC
CONSTANTS Pop, Bar
VARIABLES est, ecnt, builders, dst, dcnt, geom, rtcd, head, mine, bad

EncOf == CASE Pop = "same"      -> {"e1", "e2"}
           [] Pop = "same3"     -> {"e1", "e2", "e3"}
           [] Pop = "diffsb"    -> {"e1", "e2"}
           [] Pop = "diffflags" -> {"e1", "e2"}
           [] Pop = "dec2"      -> {"e1"}
           [] Pop = "encdec"    -> {"e1", "e2"}
DecOf == CASE Pop \in {"same", "encdec"} -> {"d1"}
           [] Pop = "dec2"      -> {"d1", "d2"}
           [] OTHER             -> {}
SbOf == CASE Pop = "diffsb" -> [e \in EncOf |-> IF e = "e1" THEN 128 ELSE 64]
          [] OTHER          -> [e \in EncOf |-> 64]
FlagsOf == CASE Pop = "diffflags" -> [e \in EncOf |-> IF e = "e1" THEN {"c"} ELSE {"c", "avx2"}]
             [] OTHER             -> [e \in EncOf |-> {"c", "avx2"}]

I == INSTANCE Instances WITH Enc <- EncOf, Dec <- DecOf, Sb <- SbOf, Flags <- FlagsOf, Barrier <- Bar, Steps <- 2, Allocs <- 2
Spec == I!Spec
FairSpec == I!FairSpec
NoInterference == I!NoInterference
TypeOK == I!TypeOK
Completes == I!Completes
NeverOverlap == I!NeverOverlap
=============================================================================
