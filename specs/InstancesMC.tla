---------------------------- MODULE InstancesMC ----------------------------
(* populations for Instances.tla; Pop selects one *)
EXTENDS Integers, Sequences, FiniteSets, TLC
CONSTANTS Pop, Bar, Ser
VARIABLES est, ecnt, builders, dst, dcnt, geom, rtcd, ports, head, mine, bad

EncOf == CASE Pop = "same"      -> {"e1", "e2"}
           [] Pop = "same3"     -> {"e1", "e2", "e3"}
           [] Pop = "diffsb"    -> {"e1", "e2"}
           [] Pop = "diffflags" -> {"e1", "e2"}
           [] Pop = "dec2"      -> {"e1"}
           [] Pop = "encdec"    -> {"e1", "e2"}
           [] Pop = "concinit"  -> {"e1", "e2"}
DecOf == CASE Pop \in {"same", "encdec"} -> {"d1"}
           [] Pop = "dec2"      -> {"d1", "d2"}
           [] OTHER             -> {}
SbOf == CASE Pop = "diffsb" -> [e \in EncOf |-> IF e = "e1" THEN 128 ELSE 64]
          [] OTHER          -> [e \in EncOf |-> 64]
(* process counts differ with resolution / thread count; same class in the "same*" populations only *)
ProcsOf == CASE Pop \in {"same", "same3"} -> [e \in EncOf |-> 4]
             [] OTHER -> [e \in EncOf |-> IF e = "e1" THEN 4 ELSE 7]
FlagsOf == CASE Pop = "diffflags" -> [e \in EncOf |-> IF e = "e1" THEN {"c"} ELSE {"c", "avx2"}]
             [] OTHER             -> [e \in EncOf |-> {"c", "avx2"}]

I == INSTANCE Instances WITH Enc <- EncOf, Dec <- DecOf, Sb <- SbOf, Flags <- FlagsOf, Procs <- ProcsOf, Barrier <- Bar, SerialInit <- Ser, Steps <- 2, Allocs <- 2
Spec == I!Spec
FairSpec == I!FairSpec
NoInterference == I!NoInterference
TypeOK == I!TypeOK
Completes == I!Completes
NeverOverlap == I!NeverOverlap
=============================================================================
