----------------------------- MODULE SRMTrace -----------------------------
(***************************************************************************)
(* Trace validation of the real system resource manager against SRM.tla.   *)
(* Input: NDJSON, one event per line, {"ev":name,"t":thread,"a":[args]},   *)
(* many instances concatenated; a "Ctor" event starts a fresh instance.    *)
(* Every event is fully logged, so the search is linear.  The invariants   *)
(* are evaluated on the successor state of every step (TraceInv'): a step  *)
(* whose successor violates one is not a step of the specification and the *)
(* trace is rejected at that event.  Clients are NOT assumed well-behaved: *)
(* every call gets the effect the C code gives it.                         *)
(***************************************************************************)
EXTENDS SRM, TLC, Json, IOUtils

Tr == ndJsonDeserialize(IOEnv.TRACE)
Tids == {Tr[i].t : i \in 1 .. Len(Tr)}

VARIABLES l
tvars == <<srmVars, l>>

Ev == Tr[l]
T == Ev.t
A(i) == Ev.a[i]
IsEv(e) == l <= Len(Tr) /\ Ev.ev = e /\ l' = l + 1

TraceInit == InitSizes(0, 0, 0, Tids) /\ l = 1

(* a new instance: everything is reset (primed values spelled out) *)
TCtor ==
  /\ IsEv("Ctor")
  /\ LET no == A(1)  np == A(2)  nc == A(3) IN
     /\ sz' = [obj |-> no, prod |-> np, cons |-> nc]
     /\ objQ'  = [q \in 0 .. 1 |-> CBNew(no)]
     /\ procQ' = [q \in 0 .. 1 |-> CBNew(IF q = 0 THEN np ELSE nc)]
     /\ list'  = [q \in 0 .. 1 |-> [f \in 0 .. (IF q = 0 THEN np ELSE nc) - 1 |-> <<>>]]
     /\ sem'   = [q \in 0 .. 1 |-> [f \in 0 .. (IF q = 0 THEN np ELSE nc) - 1 |-> 0]]
     /\ quit'  = [f \in 0 .. nc - 1 |-> FALSE]
     /\ live'  = [o \in 0 .. no - 1 |-> 0]
     /\ relEn' = [o \in 0 .. no - 1 |-> TRUE]
     /\ qLock' = [q \in 0 .. 1 |-> NULL]
     /\ pend'  = [q \in 0 .. 1 |-> NULL]
     /\ waited' = [t \in Tids |-> <<>>]

(* placing an object: it must not already sit anywhere in the manager ("never duplicates") *)
NotPlaced(o) == Places(o) = 0

(* constructor fill: wrappers are queued in index order into free slots (cheap form of NotPlaced) *)
TFill == IsEv("Fill") /\ A(1) \in Objs /\ objQ[0].tail = A(1) /\ objQ[0].arr[A(1)] = NULL /\ Fill(A(1))
TRelProc == IsEv("RelProc") /\ A(1) \in 0 .. 1 /\ RelProc(T, A(1), A(2))
TAssign ==
  /\ IsEv("Assign") /\ A(1) \in 0 .. 1
  /\ qLock[A(1)] = T
  /\ CBFront(procQ[A(1)]) = A(2)     \* the fifo that was queued first ...
  /\ CBFront(objQ[A(1)]) = A(3)      \* ... gets the object that was queued first
  /\ Assign(T, A(1))
TSemPost == IsEv("SemPost") /\ A(1) \in 0 .. 1 /\ pend[A(1)] = A(2) /\ AssignPost(T, A(1))
TSemWait == IsEv("SemWait") /\ A(1) \in 0 .. 1 /\ SemWait(T, A(1), A(2))
TPopEmpty ==
  /\ IsEv("PopEmpty") /\ A(1) \in Fifos(0)
  /\ list[0][A(1)] # <<>> /\ Head(list[0][A(1)]) = A(2)
  /\ PopEmpty(T, A(1))
TPopFull ==
  /\ IsEv("PopFull") /\ A(1) \in Fifos(1)
  /\ list[1][A(1)] # <<>> /\ Head(list[1][A(1)]) = A(2)
  /\ PopFull(T, A(1))
TPopQuit == IsEv("PopQuit") /\ A(1) \in Fifos(1) /\ PopQuit(T, A(1))
TPeek ==
  /\ IsEv("Peek") /\ A(1) \in Fifos(1)
  /\ (A(2) = 1) <=> PeekEmpty(A(1))
  /\ UNCHANGED srmVars
TPostFull == IsEv("PostFull") /\ A(1) \in Objs /\ NotPlaced(A(1)) /\ PostFull(T, A(1))
TRelease ==
  /\ IsEv("Release") /\ A(1) \in Objs
  /\ (A(2) = 1) <=> ReleaseReturns(A(1))        \* returned exactly when the last reference goes
  /\ ReleaseReturns(A(1)) => NotPlaced(A(1))
  /\ Release(T, A(1))
  /\ live'[A(1)] = A(3)
TIncLive == IsEv("IncLive") /\ A(1) \in Objs /\ IncLive(T, A(1), A(2)) /\ live'[A(1)] = A(3)
TRelEnable == IsEv("RelEnable") /\ A(1) \in Objs /\ SetRelEnable(T, A(1), A(2) = 1)
TShutdown == IsEv("Shutdown") /\ ShutdownSet(T, A(1))
TShutPost == IsEv("ShutPost") /\ ShutdownPost(T, A(1))
TDtor == IsEv("Dtor") /\ UNCHANGED srmVars

TraceInv == NoMissedAssign /\ SemCountsList /\ WaitedFindsObject

TraceNext ==
  /\ \/ TCtor \/ TFill \/ TRelProc \/ TAssign \/ TSemPost \/ TSemWait \/ TPopEmpty \/ TPopFull
     \/ TPopQuit \/ TPeek \/ TPostFull \/ TRelease \/ TIncLive \/ TRelEnable \/ TShutdown
     \/ TShutPost \/ TDtor
  /\ TraceInv'

TraceSpec == TraceInit /\ [][TraceNext]_tvars

(* accepted iff every line was consumed: one state per consumed line plus the initial state *)
TraceAccepted == TLCGet("stats").diameter - 1 = Len(Tr)
=============================================================================
