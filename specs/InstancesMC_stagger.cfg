SPECIFICATION FairSpec
CONSTANT Bar = FALSE
CONSTANT Pop = "same"
INVARIANT TypeOK
INVARIANT NoInterference
PROPERTY Completes
CHECK_DEADLOCK FALSE
