SPECIFICATION FairSpec
CONSTANT Ser = FALSE
CONSTANT Bar = TRUE
CONSTANT Pop = "concinit"
INVARIANT TypeOK
INVARIANT NoInterference
PROPERTY Completes
CHECK_DEADLOCK FALSE
