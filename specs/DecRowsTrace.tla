---------------------------- MODULE DecRowsTrace ----------------------------
(***************************************************************************)
(* Row-job protocol of the multi-threaded decoder, as a TRACE specification *)
(* (direction B): events recorded by the guarded hooks in                   *)
(*   EbDecProcess.c      FrmRst (main thread, before the maps of the new    *)
(*                       frame are cleared), LfBeg (after the wait on the   *)
(*                       recon map), LfMap (before lf_row_map[k] = 1),      *)
(*                       CdBeg (after the wait on lf_row_map), CdEnd        *)
(*                       (before cdef_completed_for_row_map[r] = 1), LrBeg  *)
(*                       (after the wait on the CDEF map), LrEnd (before    *)
(*                       lr_row_map[r] = 1)                                  *)
(*   EbDecProcessFrame.c RcDone (before sb_recon_row_map[row,col] = 1)      *)
(* "Done" events are emitted BEFORE the store that publishes them and       *)
(* "Beg" events AFTER the loads that waited for them, so in a correct run   *)
(* every Beg follows, in trace order, the Done events it depends on.        *)
(*                                                                          *)
(* The guards are the data dependencies of DecRowDeps.tla plus the later    *)
(* stages:                                                                  *)
(*   LfBeg(r)  : rows r-1, r, r+1 reconstructed in EVERY tile column        *)
(*   LfMap(k)  : row k is completely deblocked: published by the thread     *)
(*               that finished deblocking row k+1 (or the last row)         *)
(*   CdBeg(r)  : rows up to min(r+1, last) completely deblocked             *)
(*   LrBeg(r)  : CDEF of row r finished                                     *)
(*   FrmRst    : the previous frame went through every stage completely     *)
(*   every row is begun at most once per stage and frame.                   *)
(***************************************************************************)
EXTENDS Integers, Sequences, FiniteSets, TLC, Json, IOUtils

Tr == ndJsonDeserialize(IOEnv.TRACE)

VARIABLES l, R, C, active,       \* position, superblock rows, tile columns, a frame is in flight
          rc,                    \* set of <<row, col>> reconstructed
          lfb, lfm, cdb, cde, lrb, lre   \* sets of rows
vars == <<l, R, C, active, rc, lfb, lfm, cdb, cde, lrb, lre>>

Ev == Tr[l]
IsEv(e) == l <= Len(Tr) /\ Ev.ev = e /\ l' = l + 1
Arg(i) == Ev.a[i]
Last == R - 1
Rows == 0 .. R - 1
Cols == 0 .. C - 1
Clamp(r) == IF r < 0 THEN 0 ELSE IF r > Last THEN Last ELSE r

Empty == /\ rc' = {} /\ lfb' = {} /\ lfm' = {} /\ cdb' = {} /\ cde' = {} /\ lrb' = {} /\ lre' = {}

Init == l = 1 /\ R = 0 /\ C = 0 /\ active = FALSE /\ rc = {} /\ lfb = {} /\ lfm = {} /\ cdb = {} /\ cde = {} /\ lrb = {} /\ lre = {}

(* a new decoder instance starts (concatenated traces) *)
Reset == IsEv("Reset") /\ R' = 0 /\ C' = 0 /\ active' = FALSE /\ Empty

Complete == /\ rc = Rows \X Cols /\ lfm = Rows /\ cde = Rows /\ lre = Rows
FrmRst ==
  /\ IsEv("FrmRst")
  /\ active => Complete                       \* resets only behind the end-of-frame barrier
  /\ R' = Arg(1) /\ C' = Arg(2) /\ active' = TRUE /\ Empty

RcDone ==
  /\ IsEv("RcDone") /\ active
  /\ Arg(1) \in Rows /\ Arg(2) \in Cols /\ <<Arg(1), Arg(2)>> \notin rc
  /\ rc' = rc \cup {<<Arg(1), Arg(2)>>}
  /\ UNCHANGED <<R, C, active, lfb, lfm, cdb, cde, lrb, lre>>

RowRecon(r) == \A c \in Cols : <<r, c>> \in rc
LfBeg ==
  /\ IsEv("LfBeg") /\ active
  /\ LET r == Arg(1) IN
       /\ r \in Rows /\ r \notin lfb
       /\ RowRecon(Clamp(r - 1)) /\ RowRecon(r) /\ RowRecon(Clamp(r + 1))
       /\ lfb' = lfb \cup {r}
  /\ UNCHANGED <<R, C, active, rc, lfm, cdb, cde, lrb, lre>>
LfEnd == IsEv("LfEnd") /\ active /\ Arg(1) \in lfb /\ UNCHANGED <<R, C, active, rc, lfb, lfm, cdb, cde, lrb, lre>>
LfMap ==
  /\ IsEv("LfMap") /\ active
  /\ LET k == Arg(1) IN
       /\ k \in Rows /\ k \notin lfm
       /\ Clamp(k + 1) \in lfb                 \* published by the thread that deblocked the row below (or the last row)
       /\ lfm' = lfm \cup {k}
  /\ UNCHANGED <<R, C, active, rc, lfb, cdb, cde, lrb, lre>>
CdBeg ==
  /\ IsEv("CdBeg") /\ active
  /\ LET r == Arg(1) IN
       /\ r \in Rows /\ r \notin cdb
       /\ Clamp(r + 1) \in lfm
       /\ cdb' = cdb \cup {r}
  /\ UNCHANGED <<R, C, active, rc, lfb, lfm, cde, lrb, lre>>
CdEnd ==
  /\ IsEv("CdEnd") /\ active /\ Arg(1) \in cdb /\ Arg(1) \notin cde
  /\ cde' = cde \cup {Arg(1)}
  /\ UNCHANGED <<R, C, active, rc, lfb, lfm, cdb, lrb, lre>>
LrBeg ==
  /\ IsEv("LrBeg") /\ active
  /\ Arg(1) \in Rows /\ Arg(1) \notin lrb /\ Arg(1) \in cde
  /\ lrb' = lrb \cup {Arg(1)}
  /\ UNCHANGED <<R, C, active, rc, lfb, lfm, cdb, cde, lre>>
LrEnd ==
  /\ IsEv("LrEnd") /\ active /\ Arg(1) \in lrb /\ Arg(1) \notin lre
  /\ lre' = lre \cup {Arg(1)}
  /\ UNCHANGED <<R, C, active, rc, lfb, lfm, cdb, cde, lrb>>

Next == Reset \/ FrmRst \/ RcDone \/ LfBeg \/ LfEnd \/ LfMap \/ CdBeg \/ CdEnd \/ LrBeg \/ LrEnd
Spec == Init /\ [][Next]_vars
TraceAccepted == TLCGet("stats").diameter - 1 = Len(Tr)
=============================================================================
