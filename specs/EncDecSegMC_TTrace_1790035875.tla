---- MODULE EncDecSegMC_TTrace_1790035875 ----
EXTENDS Sequences, TLCExt, Toolbox, Naturals, TLC, EncDecSegMC

_expression ==
    LET EncDecSegMC_TEExpression == INSTANCE EncDecSegMC_TEExpression
    IN EncDecSegMC_TEExpression!expression
----

_trace ==
    LET EncDecSegMC_TETrace == INSTANCE EncDecSegMC_TETrace
    IN EncDecSegMC_TETrace!trace
----

_inv ==
    ~(
        TLCGet("level") = Len(_TETrace)
        /\
        cur = ((0 :> 1 @@ 1 :> 3))
        /\
        g = ([W |-> 1, H |-> 2, dep0 |-> (0 :> 0 @@ 1 :> 0 @@ 2 :> 0 @@ 3 :> 0), rStart |-> (0 :> 0 @@ 1 :> 3), segBand |-> 2, ttl |-> 4, rEnd |-> (0 :> 0 @@ 1 :> 3), sr |-> 2, valid |-> (0 :> 1 @@ 1 :> 0 @@ 2 :> 0 @@ 3 :> 1), sbBand |-> 2, sc |-> 1, xs |-> (0 :> 0 @@ 1 :> -1 @@ 2 :> -1 @@ 3 :> 0), ys |-> (0 :> 0 @@ 1 :> -1 @@ 2 :> -1 @@ 3 :> 1)])
        /\
        fin = (<<0, -1>>)
        /\
        done = ((<<0, 0>> :> 1 @@ <<0, 1>> :> 0))
        /\
        dep = ((0 :> 0 @@ 1 :> 0 @@ 2 :> 0 @@ 3 :> 0))
        /\
        running = ({})
        /\
        selfA = (<<FALSE, FALSE>>)
        /\
        pc = (<<"idle", "idle">>)
        /\
        task = (<<<<"mdc">>, <<>>>>)
        /\
        seg = (<<0, -1>>)
        /\
        tmp = (<<-1, -1>>)
        /\
        cont = (<<FALSE, FALSE>>)
        /\
        fb = (<<-1, -1>>)
        /\
        tasks = (<<>>)
    )
----

_init ==
    /\ done = _TETrace[1].done
    /\ cur = _TETrace[1].cur
    /\ tmp = _TETrace[1].tmp
    /\ tasks = _TETrace[1].tasks
    /\ running = _TETrace[1].running
    /\ cont = _TETrace[1].cont
    /\ g = _TETrace[1].g
    /\ pc = _TETrace[1].pc
    /\ dep = _TETrace[1].dep
    /\ fb = _TETrace[1].fb
    /\ fin = _TETrace[1].fin
    /\ task = _TETrace[1].task
    /\ selfA = _TETrace[1].selfA
    /\ seg = _TETrace[1].seg
----

_next ==
    /\ \E i,j \in DOMAIN _TETrace:
        /\ \/ /\ j = i + 1
              /\ i = TLCGet("level")
        /\ done  = _TETrace[i].done
        /\ done' = _TETrace[j].done
        /\ cur  = _TETrace[i].cur
        /\ cur' = _TETrace[j].cur
        /\ tmp  = _TETrace[i].tmp
        /\ tmp' = _TETrace[j].tmp
        /\ tasks  = _TETrace[i].tasks
        /\ tasks' = _TETrace[j].tasks
        /\ running  = _TETrace[i].running
        /\ running' = _TETrace[j].running
        /\ cont  = _TETrace[i].cont
        /\ cont' = _TETrace[j].cont
        /\ g  = _TETrace[i].g
        /\ g' = _TETrace[j].g
        /\ pc  = _TETrace[i].pc
        /\ pc' = _TETrace[j].pc
        /\ dep  = _TETrace[i].dep
        /\ dep' = _TETrace[j].dep
        /\ fb  = _TETrace[i].fb
        /\ fb' = _TETrace[j].fb
        /\ fin  = _TETrace[i].fin
        /\ fin' = _TETrace[j].fin
        /\ task  = _TETrace[i].task
        /\ task' = _TETrace[j].task
        /\ selfA  = _TETrace[i].selfA
        /\ selfA' = _TETrace[j].selfA
        /\ seg  = _TETrace[i].seg
        /\ seg' = _TETrace[j].seg

\* Uncomment the ASSUME below to write the states of the error trace
\* to the given file in Json format. Note that you can pass any tuple
\* to `JsonSerialize`. For example, a sub-sequence of _TETrace.
    \* ASSUME
    \*     LET J == INSTANCE Json
    \*         IN J!JsonSerialize("EncDecSegMC_TTrace_1790035875.json", _TETrace)

=============================================================================

 Note that you can extract this module `EncDecSegMC_TEExpression`
  to a dedicated file to reuse `expression` (the module in the 
  dedicated `EncDecSegMC_TEExpression.tla` file takes precedence 
  over the module `EncDecSegMC_TEExpression` below).

---- MODULE EncDecSegMC_TEExpression ----
EXTENDS Sequences, TLCExt, Toolbox, Naturals, TLC, EncDecSegMC

expression == 
    [
        \* To hide variables of the `EncDecSegMC` spec from the error trace,
        \* remove the variables below.  The trace will be written in the order
        \* of the fields of this record.
        done |-> done
        ,cur |-> cur
        ,tmp |-> tmp
        ,tasks |-> tasks
        ,running |-> running
        ,cont |-> cont
        ,g |-> g
        ,pc |-> pc
        ,dep |-> dep
        ,fb |-> fb
        ,fin |-> fin
        ,task |-> task
        ,selfA |-> selfA
        ,seg |-> seg
        
        \* Put additional constant-, state-, and action-level expressions here:
        \* ,_stateNumber |-> _TEPosition
        \* ,_doneUnchanged |-> done = done'
        
        \* Format the `done` variable as Json value.
        \* ,_doneJson |->
        \*     LET J == INSTANCE Json
        \*     IN J!ToJson(done)
        
        \* Lastly, you may build expressions over arbitrary sets of states by
        \* leveraging the _TETrace operator.  For example, this is how to
        \* count the number of times a spec variable changed up to the current
        \* state in the trace.
        \* ,_doneModCount |->
        \*     LET F[s \in DOMAIN _TETrace] ==
        \*         IF s = 1 THEN 0
        \*         ELSE IF _TETrace[s].done # _TETrace[s-1].done
        \*             THEN 1 + F[s-1] ELSE F[s-1]
        \*     IN F[_TEPosition - 1]
    ]

=============================================================================



Parsing and semantic processing can take forever if the trace below is long.
 In this case, it is advised to uncomment the module below to deserialize the
 trace from a generated binary file.

\*
\*---- MODULE EncDecSegMC_TETrace ----
\*EXTENDS IOUtils, TLC, EncDecSegMC
\*
\*trace == IODeserialize("EncDecSegMC_TTrace_1790035875.bin", TRUE)
\*
\*=============================================================================
\*

---- MODULE EncDecSegMC_TETrace ----
EXTENDS TLC, EncDecSegMC

trace == 
    <<
    ([cur |-> (0 :> 0 @@ 1 :> 3),g |-> [W |-> 1, H |-> 2, dep0 |-> (0 :> 0 @@ 1 :> 0 @@ 2 :> 0 @@ 3 :> 0), rStart |-> (0 :> 0 @@ 1 :> 3), segBand |-> 2, ttl |-> 4, rEnd |-> (0 :> 0 @@ 1 :> 3), sr |-> 2, valid |-> (0 :> 1 @@ 1 :> 0 @@ 2 :> 0 @@ 3 :> 1), sbBand |-> 2, sc |-> 1, xs |-> (0 :> 0 @@ 1 :> -1 @@ 2 :> -1 @@ 3 :> 0), ys |-> (0 :> 0 @@ 1 :> -1 @@ 2 :> -1 @@ 3 :> 1)],fin |-> <<-1, -1>>,done |-> (<<0, 0>> :> 0 @@ <<0, 1>> :> 0),dep |-> (0 :> 0 @@ 1 :> 0 @@ 2 :> 0 @@ 3 :> 0),running |-> {},selfA |-> <<FALSE, FALSE>>,pc |-> <<"idle", "idle">>,task |-> <<<<>>, <<>>>>,seg |-> <<-1, -1>>,tmp |-> <<-1, -1>>,cont |-> <<FALSE, FALSE>>,fb |-> <<-1, -1>>,tasks |-> <<<<"mdc">>>>]),
    ([cur |-> (0 :> 0 @@ 1 :> 3),g |-> [W |-> 1, H |-> 2, dep0 |-> (0 :> 0 @@ 1 :> 0 @@ 2 :> 0 @@ 3 :> 0), rStart |-> (0 :> 0 @@ 1 :> 3), segBand |-> 2, ttl |-> 4, rEnd |-> (0 :> 0 @@ 1 :> 3), sr |-> 2, valid |-> (0 :> 1 @@ 1 :> 0 @@ 2 :> 0 @@ 3 :> 1), sbBand |-> 2, sc |-> 1, xs |-> (0 :> 0 @@ 1 :> -1 @@ 2 :> -1 @@ 3 :> 0), ys |-> (0 :> 0 @@ 1 :> -1 @@ 2 :> -1 @@ 3 :> 1)],fin |-> <<-1, -1>>,done |-> (<<0, 0>> :> 0 @@ <<0, 1>> :> 0),dep |-> (0 :> 0 @@ 1 :> 0 @@ 2 :> 0 @@ 3 :> 0),running |-> {},selfA |-> <<FALSE, FALSE>>,pc |-> <<"start_mdc", "idle">>,task |-> <<<<"mdc">>, <<>>>>,seg |-> <<-1, -1>>,tmp |-> <<-1, -1>>,cont |-> <<FALSE, FALSE>>,fb |-> <<-1, -1>>,tasks |-> <<>>]),
    ([cur |-> (0 :> 1 @@ 1 :> 3),g |-> [W |-> 1, H |-> 2, dep0 |-> (0 :> 0 @@ 1 :> 0 @@ 2 :> 0 @@ 3 :> 0), rStart |-> (0 :> 0 @@ 1 :> 3), segBand |-> 2, ttl |-> 4, rEnd |-> (0 :> 0 @@ 1 :> 3), sr |-> 2, valid |-> (0 :> 1 @@ 1 :> 0 @@ 2 :> 0 @@ 3 :> 1), sbBand |-> 2, sc |-> 1, xs |-> (0 :> 0 @@ 1 :> -1 @@ 2 :> -1 @@ 3 :> 0), ys |-> (0 :> 0 @@ 1 :> -1 @@ 2 :> -1 @@ 3 :> 1)],fin |-> <<-1, -1>>,done |-> (<<0, 0>> :> 0 @@ <<0, 1>> :> 0),dep |-> (0 :> 0 @@ 1 :> 0 @@ 2 :> 0 @@ 3 :> 0),running |-> {},selfA |-> <<FALSE, FALSE>>,pc |-> <<"process", "idle">>,task |-> <<<<"mdc">>, <<>>>>,seg |-> <<0, -1>>,tmp |-> <<-1, -1>>,cont |-> <<FALSE, FALSE>>,fb |-> <<-1, -1>>,tasks |-> <<>>]),
    ([cur |-> (0 :> 1 @@ 1 :> 3),g |-> [W |-> 1, H |-> 2, dep0 |-> (0 :> 0 @@ 1 :> 0 @@ 2 :> 0 @@ 3 :> 0), rStart |-> (0 :> 0 @@ 1 :> 3), segBand |-> 2, ttl |-> 4, rEnd |-> (0 :> 0 @@ 1 :> 3), sr |-> 2, valid |-> (0 :> 1 @@ 1 :> 0 @@ 2 :> 0 @@ 3 :> 1), sbBand |-> 2, sc |-> 1, xs |-> (0 :> 0 @@ 1 :> -1 @@ 2 :> -1 @@ 3 :> 0), ys |-> (0 :> 0 @@ 1 :> -1 @@ 2 :> -1 @@ 3 :> 1)],fin |-> <<-1, -1>>,done |-> (<<0, 0>> :> 0 @@ <<0, 1>> :> 0),dep |-> (0 :> 0 @@ 1 :> 0 @@ 2 :> 0 @@ 3 :> 0),running |-> {0},selfA |-> <<FALSE, FALSE>>,pc |-> <<"processing", "idle">>,task |-> <<<<"mdc">>, <<>>>>,seg |-> <<0, -1>>,tmp |-> <<-1, -1>>,cont |-> <<FALSE, FALSE>>,fb |-> <<-1, -1>>,tasks |-> <<>>]),
    ([cur |-> (0 :> 1 @@ 1 :> 3),g |-> [W |-> 1, H |-> 2, dep0 |-> (0 :> 0 @@ 1 :> 0 @@ 2 :> 0 @@ 3 :> 0), rStart |-> (0 :> 0 @@ 1 :> 3), segBand |-> 2, ttl |-> 4, rEnd |-> (0 :> 0 @@ 1 :> 3), sr |-> 2, valid |-> (0 :> 1 @@ 1 :> 0 @@ 2 :> 0 @@ 3 :> 1), sbBand |-> 2, sc |-> 1, xs |-> (0 :> 0 @@ 1 :> -1 @@ 2 :> -1 @@ 3 :> 0), ys |-> (0 :> 0 @@ 1 :> -1 @@ 2 :> -1 @@ 3 :> 1)],fin |-> <<-1, -1>>,done |-> (<<0, 0>> :> 1 @@ <<0, 1>> :> 0),dep |-> (0 :> 0 @@ 1 :> 0 @@ 2 :> 0 @@ 3 :> 0),running |-> {},selfA |-> <<FALSE, FALSE>>,pc |-> <<"right", "idle">>,task |-> <<<<"mdc">>, <<>>>>,seg |-> <<0, -1>>,tmp |-> <<-1, -1>>,cont |-> <<FALSE, FALSE>>,fb |-> <<-1, -1>>,tasks |-> <<>>]),
    ([cur |-> (0 :> 1 @@ 1 :> 3),g |-> [W |-> 1, H |-> 2, dep0 |-> (0 :> 0 @@ 1 :> 0 @@ 2 :> 0 @@ 3 :> 0), rStart |-> (0 :> 0 @@ 1 :> 3), segBand |-> 2, ttl |-> 4, rEnd |-> (0 :> 0 @@ 1 :> 3), sr |-> 2, valid |-> (0 :> 1 @@ 1 :> 0 @@ 2 :> 0 @@ 3 :> 1), sbBand |-> 2, sc |-> 1, xs |-> (0 :> 0 @@ 1 :> -1 @@ 2 :> -1 @@ 3 :> 0), ys |-> (0 :> 0 @@ 1 :> -1 @@ 2 :> -1 @@ 3 :> 1)],fin |-> <<0, -1>>,done |-> (<<0, 0>> :> 1 @@ <<0, 1>> :> 0),dep |-> (0 :> 0 @@ 1 :> 0 @@ 2 :> 0 @@ 3 :> 0),running |-> {},selfA |-> <<FALSE, FALSE>>,pc |-> <<"bl", "idle">>,task |-> <<<<"mdc">>, <<>>>>,seg |-> <<0, -1>>,tmp |-> <<-1, -1>>,cont |-> <<FALSE, FALSE>>,fb |-> <<-1, -1>>,tasks |-> <<>>]),
    ([cur |-> (0 :> 1 @@ 1 :> 3),g |-> [W |-> 1, H |-> 2, dep0 |-> (0 :> 0 @@ 1 :> 0 @@ 2 :> 0 @@ 3 :> 0), rStart |-> (0 :> 0 @@ 1 :> 3), segBand |-> 2, ttl |-> 4, rEnd |-> (0 :> 0 @@ 1 :> 3), sr |-> 2, valid |-> (0 :> 1 @@ 1 :> 0 @@ 2 :> 0 @@ 3 :> 1), sbBand |-> 2, sc |-> 1, xs |-> (0 :> 0 @@ 1 :> -1 @@ 2 :> -1 @@ 3 :> 0), ys |-> (0 :> 0 @@ 1 :> -1 @@ 2 :> -1 @@ 3 :> 1)],fin |-> <<0, -1>>,done |-> (<<0, 0>> :> 1 @@ <<0, 1>> :> 0),dep |-> (0 :> 0 @@ 1 :> 0 @@ 2 :> 0 @@ 3 :> 0),running |-> {},selfA |-> <<FALSE, FALSE>>,pc |-> <<"feedback", "idle">>,task |-> <<<<"mdc">>, <<>>>>,seg |-> <<0, -1>>,tmp |-> <<-1, -1>>,cont |-> <<FALSE, FALSE>>,fb |-> <<-1, -1>>,tasks |-> <<>>]),
    ([cur |-> (0 :> 1 @@ 1 :> 3),g |-> [W |-> 1, H |-> 2, dep0 |-> (0 :> 0 @@ 1 :> 0 @@ 2 :> 0 @@ 3 :> 0), rStart |-> (0 :> 0 @@ 1 :> 3), segBand |-> 2, ttl |-> 4, rEnd |-> (0 :> 0 @@ 1 :> 3), sr |-> 2, valid |-> (0 :> 1 @@ 1 :> 0 @@ 2 :> 0 @@ 3 :> 1), sbBand |-> 2, sc |-> 1, xs |-> (0 :> 0 @@ 1 :> -1 @@ 2 :> -1 @@ 3 :> 0), ys |-> (0 :> 0 @@ 1 :> -1 @@ 2 :> -1 @@ 3 :> 1)],fin |-> <<0, -1>>,done |-> (<<0, 0>> :> 1 @@ <<0, 1>> :> 0),dep |-> (0 :> 0 @@ 1 :> 0 @@ 2 :> 0 @@ 3 :> 0),running |-> {},selfA |-> <<FALSE, FALSE>>,pc |-> <<"idle", "idle">>,task |-> <<<<"mdc">>, <<>>>>,seg |-> <<0, -1>>,tmp |-> <<-1, -1>>,cont |-> <<FALSE, FALSE>>,fb |-> <<-1, -1>>,tasks |-> <<>>])
    >>
----


=============================================================================

---- CONFIG EncDecSegMC_TTrace_1790035875 ----
CONSTANTS
    MaxW = 4
    MaxH = 4
    NW = 2
    MaxRowsCap = 8
    SkipSingleColumn = FALSE

INVARIANT
    _inv

CHECK_DEADLOCK
    \* CHECK_DEADLOCK off because of PROPERTY or INVARIANT above.
    FALSE

INIT
    _init

NEXT
    _next

CONSTANT
    _TETrace <- _trace

ALIAS
    _expression
=============================================================================
\* Generated on Tue Sep 22 00:11:20 UTC 2026