SPECIFICATION Spec
CONSTANTS Alphabets = {2, 3, 4, 16} MaxLen = 2
  RSamples = {32768, 33023, 40000, 49152, 65280, 65535}
INVARIANTS RangeOK TableOK IntervalsOK BoolOK
CHECK_DEADLOCK FALSE
