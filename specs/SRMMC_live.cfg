\* liveness under weak fairness: 2 objects, 1 producer, 2 consumers, shutdown
SPECIFICATION FairSpec
CONSTANTS NO = 2 NP = 2 NC = 1 MaxOps = 2 WithShutdown = TRUE WithNonBlocking = TRUE MaxInc = 1
INVARIANTS TypeOK
PROPERTIES WakesWaiter ShutdownWakes
CHECK_DEADLOCK FALSE
