-------------------------------- MODULE Api --------------------------------
(***************************************************************************)
(* Call protocol of the public encoder API (C14, C15, C16)                 *)
(*   Source/Lib/Encoder/Globals/EbEncHandle.c                              *)
(*   svt_av1_enc_init_handle :1914, _set_parameter :3313, _init :1132,     *)
(*   _stream_header :3369, _stream_header_release :3418, _send_picture     *)
(*   :3654, _get_packet :3712, _release_out_buffer :3745, svt_av1_get_recon*)
(*   :3761, _deinit :1879, _deinit_handle :1973                            *)
(*                                                                         *)
(* The model is the DOCUMENTED behaviour the property states:              *)
(*  - NULL handle / NULL pointer arguments: an error code, no state change *)
(*  - a configuration rejected by set_parameter leaves the handle usable   *)
(*  - only the blocking packet wait may block                              *)
(*  - calls outside the protocol must return (any code) and leave the      *)
(*    session in a state that can still be torn down                       *)
(*  - deinit ; deinit_handle from ANY point return and release everything  *)
(* Each state carries the last call and the set of allowed outcomes; TLC   *)
(* enumerates the complete graph, every edge becomes a call program that   *)
(* is executed on the real library (direction A).                          *)
(***************************************************************************)
EXTENDS Integers, Sequences, FiniteSets, TLC

CONSTANTS MaxSend       \* pictures a program may submit

VARIABLES phase,    \* "none","created","configured","inited","limbo","deinited","destroyed"
          nsent, eos, npk, held,   \* pictures sent, EOS sent, packets retrieved, a packet is held unreleased
          hdr,      \* a stream header buffer is outstanding
          rejected, \* set_parameter rejected a configuration on this handle at some point
          call,     \* last call (string code)
          allow     \* allowed outcomes of the last call: subset of {"ok","err","empty"}
vars == <<phase, nsent, eos, npk, held, hdr, rejected, call, allow>>

Init == phase = "none" /\ nsent = 0 /\ eos = FALSE /\ npk = 0 /\ held = FALSE /\ hdr = FALSE /\ rejected = FALSE
        /\ call = "-" /\ allow = {}

HasHandle == phase \in {"created", "configured", "inited", "limbo", "deinited"}
Step(c, a) == call' = c /\ allow' = a
Same == UNCHANGED <<phase, nsent, eos, npk, held, hdr, rejected>>
AnyRet == {"ok", "err", "empty"}

(* ---- NULL-argument variants: an error code, nothing changes.  Allowed in every phase. ---- *)
NullCalls == {"init_handle(NULL,cfg)", "set_parameter(NULL,cfg)", "init(NULL)", "stream_header(NULL,&p)",
              "send_picture(NULL,pic)", "get_packet(NULL,&p,0)", "get_recon(NULL,buf)", "deinit(NULL)", "deinit_handle(NULL)",
              "stream_header_release(NULL)", "release_out_buffer(NULL)"}
NullCall == \E c \in NullCalls : phase # "destroyed" /\ Step(c, IF c = "release_out_buffer(NULL)" THEN AnyRet ELSE {"err"}) /\ Same
(* NULL out-pointer / NULL config with a VALID handle *)
NullArgCalls == {"set_parameter(h,NULL)", "stream_header(h,NULL)", "get_packet(h,NULL,0)", "get_recon(h,NULL)"}
NullArgCall == \E c \in NullArgCalls :
                 /\ (IF c = "set_parameter(h,NULL)" THEN phase \in {"created", "configured"} ELSE phase = "inited")
                 /\ Step(c, {"err"}) /\ Same

(* ---- protocol ---- *)
InitHandle == phase = "none" /\ Step("init_handle(&h,cfg)", {"ok"}) /\ phase' = "created"
              /\ UNCHANGED <<nsent, eos, npk, held, hdr, rejected>>
SetValid == phase \in {"created", "configured"} /\ Step("set_parameter(h,valid)", {"ok"}) /\ phase' = "configured"
            /\ UNCHANGED <<nsent, eos, npk, held, hdr, rejected>>
SetInvalid == phase \in {"created", "configured"} /\ Step("set_parameter(h,invalid)", {"err"})
              /\ phase' = "created" /\ rejected' = TRUE         \* the handle stays usable: a later valid call must succeed
              /\ UNCHANGED <<nsent, eos, npk, held, hdr>>
InitEnc == phase = "configured" /\ Step("init(h)", {"ok"}) /\ phase' = "inited"
           /\ UNCHANGED <<nsent, eos, npk, held, hdr, rejected>>
StreamHeader == phase = "inited" /\ ~hdr /\ Step("stream_header(h,&p)", {"ok"}) /\ hdr' = TRUE
                /\ UNCHANGED <<phase, nsent, eos, npk, held, rejected>>
HeaderRelease == hdr /\ Step("stream_header_release(p)", {"ok"}) /\ hdr' = FALSE
                 /\ UNCHANGED <<phase, nsent, eos, npk, held, rejected>>
Send == phase = "inited" /\ ~eos /\ nsent < MaxSend /\ Step("send_picture(h,pic)", {"ok"}) /\ nsent' = nsent + 1
        /\ UNCHANGED <<phase, eos, npk, held, hdr, rejected>>
SendEos == phase = "inited" /\ ~eos /\ Step("send_picture(h,eos)", {"ok"}) /\ eos' = TRUE
           /\ UNCHANGED <<phase, nsent, npk, held, hdr, rejected>>
(* non-blocking: returns at once, with or without a packet (the replayer releases what it gets) *)
GetNB == phase = "inited" /\ ~held /\ Step("get_packet(h,&p,0)", {"ok", "empty"}) /\ Same
(* blocking: only when a packet is certain to come (EOS sent, not everything retrieved) *)
GetBlocking == phase = "inited" /\ eos /\ ~held /\ nsent > 0 /\ npk = 0
               /\ Step("drain_packets(h)", {"ok"}) /\ npk' = nsent
               /\ UNCHANGED <<phase, nsent, eos, held, hdr, rejected>>
GetRecon == phase = "inited" /\ Step("get_recon(h,buf)", AnyRet) /\ Same       \* recon disabled in these programs: an error code is fine

(* ---- calls outside the protocol: must return; afterwards only teardown is modelled ---- *)
OutOfOrder ==
  \E c \in {"init(h)", "send_picture(h,pic)", "get_packet(h,&p,0)", "stream_header(h,&p)", "get_recon(h,buf)",
            "set_parameter(h,valid)", "send_picture(h,NULL)"} :
    /\ \/ phase \in {"created"} /\ c # "set_parameter(h,valid)"
       \/ phase = "configured" /\ c \notin {"init(h)", "set_parameter(h,valid)"}
       \/ phase = "inited" /\ c \in {"init(h)", "set_parameter(h,valid)", "send_picture(h,NULL)"}
       \/ phase = "inited" /\ eos /\ c = "send_picture(h,pic)"
       \/ phase = "deinited" /\ c # "send_picture(h,NULL)"
    /\ Step(c, AnyRet) /\ phase' = (IF phase = "deinited" THEN "deinited" ELSE "limbo")
    /\ UNCHANGED <<nsent, eos, npk, held, hdr, rejected>>

(* ---- teardown from anywhere ---- *)
Deinit == phase \in {"created", "configured", "inited", "limbo"} /\ Step("deinit(h)", AnyRet) /\ phase' = "deinited"
          /\ UNCHANGED <<nsent, eos, npk, held, hdr, rejected>>
DeinitHandle == phase \in {"created", "configured", "deinited"} /\ Step("deinit_handle(h)", {"ok"}) /\ phase' = "destroyed"
                /\ UNCHANGED <<nsent, eos, npk, held, hdr, rejected>>

Next == NullCall \/ NullArgCall \/ InitHandle \/ SetValid \/ SetInvalid \/ InitEnc \/ StreamHeader \/ HeaderRelease
        \/ Send \/ SendEos \/ GetNB \/ GetBlocking \/ GetRecon \/ OutOfOrder \/ Deinit \/ DeinitHandle
Spec == Init /\ [][Next]_vars

(* design-level properties *)
TypeOK == npk <= nsent /\ nsent <= MaxSend
(* a session can always be completed: from every state with a handle, teardown is possible (checked as reachability of *)
(* "destroyed" by the replayer appending deinit ; deinit_handle to every program)                                       *)
RejectedStaysUsable == (rejected /\ phase = "created") => ENABLED SetValid
OnlyDrainBlocks == TRUE
=============================================================================
