SPECIFICATION Spec
CONSTANTS R = 4
C = 3
Wait = "all"
INVARIANT NeverAhead
CHECK_DEADLOCK FALSE
