---------------------------- MODULE DecDpbTrace ----------------------------
(***************************************************************************)
(* Trace validation of the decoder's picture-buffer manager: every step of *)
(* every recorded decode must be the DecDpb.tla action with the logged     *)
(* parameters, and must leave the real manager in exactly the state the    *)
(* specification computes (the hooks log the complete state: current       *)
(* buffer, both slot maps, every ref_count and is_free).                   *)
(*   Get i key 0 | ShowEx slot key | Gen refreshFlags showExisting 0 |     *)
(*   Upd decoded refreshFlags showExisting   -- each followed by           *)
(*   cur, map[8], next[8], ref_count[10], is_free[10]  (ShowEx: no state)  *)
(***************************************************************************)
EXTENDS Integers, Sequences, FiniteSets, TLC, Json, IOUtils

Tr == ndJsonDeserialize(IOEnv.TRACE)
NS == 8
NB == 10
VARIABLES l, rc, free, map, nxt, cur, isKey, ph, showEx, refresh, bad
D == INSTANCE DecDpb
vars == <<l, rc, free, map, nxt, cur, isKey, ph, showEx, refresh, bad>>

Ev == Tr[l]
IsEv(e) == l <= Len(Tr) /\ Ev.ev = e /\ l' = l + 1
Arg(i) == Ev.a[i]
Bit(x, i) == (x \div (2 ^ i)) % 2 = 1
FlagSet(x) == {s \in D!Slots : Bit(x, s)}

(* the logged state equals the state the specification reaches *)
LoggedBufs ==
  /\ \A s \in D!Slots : map'[s] = Arg(5 + s) /\ nxt'[s] = Arg(5 + NS + s)
  /\ \A b \in D!Bufs : rc'[b] = Arg(5 + 2 * NS + b) /\ free'[b] = (Arg(5 + 2 * NS + NB + b) = 1)

Logged == cur' = Arg(4) /\ LoggedBufs
Init == l = 1 /\ D!Init
Reset == IsEv("Reset") /\ rc' = [b \in D!Bufs |-> 0] /\ free' = [b \in D!Bufs |-> TRUE]
         /\ map' = [s \in D!Slots |-> -1] /\ nxt' = [s \in D!Slots |-> -1] /\ cur' = -1
         /\ isKey' = [b \in D!Bufs |-> FALSE] /\ ph' = "idle" /\ showEx' = FALSE /\ refresh' = {} /\ bad' = {}

TGet == /\ IsEv("Get")
        /\ \E rf \in {refresh} : D!Get(rf, Arg(2) = 1)      \* the refresh set is learnt at Gen
        /\ cur' = Arg(1) /\ bad' = {}
        /\ LoggedBufs                                       \* (the hook sits inside get_cur_pic: cur_pic_buf[0] is assigned by the caller)
TShowEx == IsEv("ShowEx") /\ D!ShowEx(Arg(1)) /\ (isKey[map[Arg(1)]] <=> Arg(2) = 1)
TGen == /\ IsEv("Gen")
        /\ showEx <=> Arg(2) = 1
        /\ LET rf == IF showEx THEN refresh ELSE FlagSet(Arg(1)) IN
             /\ rf = FlagSet(Arg(1))
             /\ ph = "got"
             /\ LET n == [s \in D!Slots |-> IF s \in rf THEN cur ELSE map[s]] IN
                  nxt' = n /\ rc' = D!Bump(n)
             /\ ph' = "gen" /\ refresh' = rf
             /\ UNCHANGED <<free, map, cur, isKey, showEx, bad>>
        /\ Logged
TUpd == /\ IsEv("Upd") /\ Arg(1) = 1
        /\ (showEx <=> Arg(3) = 1) /\ refresh = FlagSet(Arg(2))
        /\ D!Upd /\ bad' = {}
        /\ Logged

Next == Reset \/ TGet \/ TShowEx \/ TGen \/ TUpd
Spec == Init /\ [][Next]_vars
TraceAccepted == TLCGet("stats").diameter - 1 = Len(Tr)
=============================================================================
