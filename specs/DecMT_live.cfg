SPECIFICATION FairSpec
CONSTANTS T = 2 R = 2 F = 2 FixedBarrier = FALSE
PROPERTIES FramesDone
CHECK_DEADLOCK FALSE
