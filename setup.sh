#!/bin/sh
# Offline setup: build /repo's current working tree with hooks (static, out of tree) and the harnesses.
set -e
cd "$(dirname "$0")"
python3 - <<'PY'
import sys
sys.path.insert(0, 'tools'); sys.path.insert(0, '.')
import vlib
vlib.build_lib('hooks')
# the sanitizer variants used by the quick tier of C11 (san) and C17 (tsan); asan is built on demand by thorough tiers
vlib.build_lib('san')
vlib.build_lib('tsan')
from checks import common
common.enc_record_exe()
vlib.build_harness('srm_stress', ['srm_stress.c'])
print('setup ok')
PY
