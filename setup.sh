#!/bin/sh
# Offline setup: build /repo's current working tree with hooks (static, out of tree) and the harnesses.
set -e
cd "$(dirname "$0")"
python3 - <<'PY'
import sys
sys.path.insert(0, 'tools'); sys.path.insert(0, '.')
import vlib
vlib.build_lib('hooks')
from checks import common
common.enc_record_exe()
vlib.build_harness('srm_stress', ['srm_stress.c'])
print('setup ok')
PY
